"""C07 — virtual_size equals the disk size the image declares (oslo_utils/imageutils/format_inspector.py).

A case is {'op':'vs', 'fmt', 'img':<image spec>, 'sizes':[chunk lengths summing to the stream length], 'k':label}
  image spec (everything is rebuilt deterministically from it, so replays are small):
    {'b':'rw', 'seed':s}                       imgbuild.random_wellformed(fmt, Random(s))
    {'b':'build', 'seed':s, 'params':{...}}    imgbuild.build(fmt, Random(s), **params)   (bytes values as {'hex':..})
    {'b':'raw', 'n':n, 'p':[[off,hex],..], 'declared':d|None, 'known_at':k|None}   zero background + patches
    optional 'mut':seed  -> imgbuild.mutate_fields (ground truth is whatever imgbuild keeps)
    optional 'cut':k     -> only the first k bytes of the stream are presented (a proper prefix)
  ground truth (declared size, shortest prefix that contains the structure carrying the size) comes from the
  LAYOUT PARAMETERS (imgbuild), never from the implementation.

Observation (both sides): after every eat_chunk and after finish()  'exn;virtual_size', joined by '|'.
"""
import sys, os, random, json
import gen_insp, gen_C07
sys.path.insert(0, os.path.dirname(os.path.dirname(os.path.abspath(__file__))))
import imgbuild, insp_obs

ID = 'C07'
GEN = [('Gen/Insp_Consts.v', gen_insp.generate), ('Gen/Insp_Code.v', gen_insp.generate_code), ('Gen/C07_Code.v', gen_C07.generate)]
EQUIV_FILES = ['Proofs/C07_Equiv.v']
EXTRACT = 'Extract/C07_x.v'
SIZED = ['qcow2', 'vhd', 'vhdx', 'vmdk', 'vdi', 'iso', 'luks', 'raw', 'gpt']
ZERO_FMTS = ('qcow2', 'vhd', 'vhdx', 'vmdk', 'vdi', 'iso')          # the "0 while unknown" clause
KI = 1024

# ------------------------------------------------------------------ images
def _dec(v):
    if isinstance(v, dict) and set(v) == {'hex'}: return bytes.fromhex(v['hex'])
    if isinstance(v, list): return [_dec(x) for x in v]
    return v

class Img:
    __slots__ = ('data', 'declared', 'known_at', 'wf', 'full')

_cache = {}
def image(c):
    """-> Img: data (after 'cut'), declared (None: the statement defines no size), known_at, wf, full (uncut length)"""
    spec = c['img']
    key = (c['fmt'], json.dumps(spec, sort_keys=True))
    r = _cache.get(key)
    if r is not None: return r
    r = Img()
    fmt = c['fmt']
    if spec['b'] == 'raw':
        buf = bytearray(spec['n'])
        for off, hx in spec['p']:
            v = bytes.fromhex(hx); buf[off:off + len(v)] = v
        data = bytes(buf[:spec['n']]); r.declared = spec.get('declared'); r.known_at = spec.get('known_at')
        r.wf = r.declared is not None
    else:
        rng = random.Random(spec['seed'])
        if spec['b'] == 'rw': im = imgbuild.random_wellformed(fmt, rng)
        else: im = imgbuild.build(fmt, rng, **{k: _dec(v) for k, v in spec['params'].items()})
        if 'mut' in spec: im = imgbuild.mutate_fields(im, random.Random(spec['mut']))
        data = im.data; r.wf = im.wellformed and not im.zones
        r.declared = im.declared_size if r.wf else None
        r.known_at = im.traits.get('size_known_at') if r.wf else None
    r.full = len(data)
    if 'cut' in spec:
        k = spec['cut']
        if fmt in ('raw', 'gpt', 'luks') and r.declared is not None:
            r.declared -= max(0, len(data) - k)        # these follow the stream length
            if fmt == 'luks' and (k < 592 or r.declared < 0): r.declared = None
        data = data[:k]
    r.data = data
    if len(_cache) > 48: _cache.clear()
    _cache[key] = r
    return r

# ------------------------------------------------------------------ implementation side
def impl(c):
    im = image(c)
    m = insp_obs.fi()
    insp = m.ALL_FORMATS[c['fmt']]()
    recs = []; pos = 0
    def vs():
        try: return str(insp.virtual_size)
        except Exception as e: return 'EXN:' + type(e).__name__
    feeder = insp_obs.Feeder(insp_obs.container_kind(bytes(im.data), list(c['sizes'])))   # chunk container varies per case
    for n in c['sizes']:
        chunk = im.data[pos:pos + n]; pos += n
        try:
            insp_obs.eat(insp, chunk, feeder); e = '-'
        except Exception as ex:
            e = type(ex).__name__
        recs.append(e + ';' + vs())
        if e != '-': break
    insp.finish()
    recs.append('-;' + vs())
    return '|'.join(recs)

def encode(c):
    im = image(c)
    if sum(c['sizes']) != len(im.data): return None
    return ['vs', c['fmt'], im.data, list(c['sizes'])]

# ------------------------------------------------------------------ the property, model-free
def oracle(c, io):
    if io.startswith('HARNESS-ERROR'): return io
    im = image(c); fmt = c['fmt']
    if sum(c['sizes']) != len(im.data): return 'harness: chunk sizes do not sum to the stream length'
    recs = io.split('|'); per, final = recs[:-1], recs[-1]
    n = len(im.data)
    if c.get('kind') == 'noraise':        # D3: a descriptor-only VMDK has no size to report; asking must not raise
        if 'EXN' in final: return 'virtual_size raises (%s) on a descriptor-only VMDK presented whole' % final
        return None
    if im.declared is None and im.known_at is None: return None       # the statement says nothing about this stream
    if fmt in ZERO_FMTS and im.known_at is not None:
        pos = 0
        for sz, r in zip(c['sizes'], per):
            pos += sz
            if pos < im.known_at and r.split(';')[1] != '0':
                return ('virtual_size is %s after %d bytes, but the structure carrying the size ends at byte %d (must be 0 until then)'
                        % (r.split(';')[1], pos, im.known_at))
        if n < im.known_at and final.split(';')[1] != '0':
            return 'virtual_size is %s on a %d-byte prefix (after finish), the structure carrying the size ends at byte %d' % (final.split(';')[1], n, im.known_at)
    if im.declared is not None and (im.known_at is None or n >= im.known_at):
        if final != '-;%d' % im.declared:
            bad = [r for r in per if not r.startswith('-;')]
            return 'well-formed %s image declares %d, virtual_size after the whole stream is %s%s' % (
                fmt, im.declared, final.split(';')[1], (' (eat_chunk raised %s)' % bad[0].split(';')[0]) if bad else '')
    return None

# ------------------------------------------------------------------ generators
def pick_chunkings(n, bounds, rng, k, big):
    """k chunkings of a stream of n bytes: always the single chunk; cuts at +-1 of a structure boundary; a fixed size; random"""
    out = [[n]] if n else [[]]
    pts = sorted({b + d for b in bounds for d in (-1, 0, 1) if 0 < b + d < n})
    fam = []
    if pts:
        a = rng.choice(pts); fam.append([a, n - a])
        cs = sorted(set(rng.sample(pts, min(len(pts), rng.choice([2, 3, 4])))))
        fam.append([b - a for a, b in zip([0] + cs, cs + [n])])
    fixed = [s for s in ((1, 7, 64, 511, 512, 513, 4096) if not big else (65536, 100000, 2**20)) if 0 < s < n and n // s <= 600]
    if fixed:
        s = rng.choice(fixed); fam.append([s] * (n // s) + ([n % s] if n % s else []))
    if n > 1:
        cuts = sorted({rng.randrange(1, n) for _ in range(rng.randint(1, 4 if big else 9))})
        ch = [b - a for a, b in zip([0] + cuts, cuts + [n])]
        if rng.random() < 0.4: ch = [x for s in ch for x in ([0, s] if rng.random() < 0.3 else [s])] + [0]
        fam.append(ch)
    rng.shuffle(fam)
    return (out + fam)[:k]

def bounds_of(c):
    spec = c['img']
    if spec['b'] == 'raw': return spec.get('bounds', [])
    rng = random.Random(spec['seed'])
    im = imgbuild.random_wellformed(c['fmt'], rng) if spec['b'] == 'rw' else imgbuild.build(c['fmt'], rng, **{k: _dec(v) for k, v in spec['params'].items()})
    return [b for b in im.boundaries]

def sized_params(fmt, v, rng, tier):
    """builder parameters writing the chosen size v into a well-formed image of fmt, layout drawn over its admissible range"""
    if fmt == 'qcow2': return dict(size=v, version=rng.choice([2, 3]))
    if fmt == 'vhd': return dict(size=v, current_size=rng.choice([v, rng.getrandbits(40)]))
    if fmt == 'vdi': return dict(size=v)
    if fmt == 'iso': return dict(blocks=v[0], block_size=v[1], ident={'hex': rng.choice([b'CD001'] * 3 + [b'NSR02', b'NSR03']).hex()},
                                 system_area=rng.choice(['zero', 'random']), be_consistent=rng.random() < 0.6)
    if fmt == 'luks': return dict(payload_size=v, payload_offset=rng.choice([2, 3, 8, 64, 4096]) if v < 5000 else 2)
    if fmt in ('raw', 'gpt'): return dict(length=v)
    if fmt == 'vmdk':
        sub = rng.choice(['monolithicSparse', 'streamOptimized'])
        p = dict(capacity=v, subformat=sub, create_type=rng.choice(['monolithicSparse', 'streamOptimized', sub.upper()]),
                 version=rng.choice([1, 2, 3]))
        r = rng.random()
        if r < 0.25: p['desc_num'] = rng.choice([1, 2, 3, 20])
        elif r < 0.32 and tier == 'thorough': p['desc_num'] = rng.choice([2047, 2048, 2049, 5000])
        elif r < 0.4: p['desc_pad'] = {'hex': '20'}
        return p
    if fmt == 'vhdx':
        p = dict(size=v)
        big = tier == 'thorough'
        r = rng.random()
        if r < 0.3: p['region_pad_before'] = rng.choice([0, 1, 2, 7] + ([300, 2045, 2046] if big else [40]))
        r = rng.random()
        if r < 0.3: p['meta_pad_before'] = rng.choice([0, 1, 2, 9] + ([300, 2045, 2046] if big else [40]))
        r = rng.random()
        if r < 0.4: p['meta_offset'] = 256 * KI + rng.choice([0, 1, 512, 4096, 64 * KI, rng.randrange(0, 256 * KI)])
        if rng.random() < 0.3:
            cnt = p.get('meta_pad_before', 5) + 3
            p['item_offset'] = rng.choice([32 + 32 * (cnt + 3), 64 * KI, 64 * KI + 8, 65 * KI + 3])
            p['meta_pad_after'] = 0
        return p
    raise KeyError(fmt)

def gen_cases(rng, tier):
    quick = tier == 'quick'
    for fmt in SIZED:
        vals = imgbuild.size_values(fmt, rng, n_random=4 if quick else 40)
        if fmt == 'vhdx' and quick: vals = rng.sample(vals, 12)
        forced = []
        if fmt == 'vhdx':      # full tables: 2046 other entries in front of the wanted one (count 2047), in either table
            forced = [dict(size=rng.getrandbits(64), region_pad_before=2046, region_pad_after=0),
                      dict(size=rng.getrandbits(64), meta_pad_before=2046, meta_pad_after=0),
                      dict(size=rng.getrandbits(64), region_pad_before=rng.randrange(3, 2046), meta_pad_before=rng.randrange(3, 2046))]
        reps = 1 if quick else (3 if fmt == 'vhdx' else 12)
        for v in forced + vals * reps:
            spec = {'b': 'build', 'seed': rng.randrange(10**9), 'params': v if isinstance(v, dict) else sized_params(fmt, v, rng, tier)}
            c0 = {'op': 'vs', 'fmt': fmt, 'img': spec, 'k': 'sized'}
            try:
                im = image(c0)
            except Exception as e:
                yield dict(c0, sizes=[], k='builder-error:%s' % type(e).__name__); continue
            n = len(im.data); bounds = bounds_of(c0); big = n > 100000
            for sizes in pick_chunkings(n, bounds, rng, 2 if (quick and big) else 3 if quick else 5, big):
                yield dict(c0, sizes=sizes)
            # proper prefixes: the stream stops short of (or right at) the structure that carries the size
            if fmt in ZERO_FMTS and im.known_at and (not big or rng.random() < (0.3 if quick else 1.0)):
                ks = sorted({k for k in (im.known_at - 1, im.known_at - rng.randrange(1, 64), rng.randrange(0, im.known_at),
                                         rng.choice(bounds) if bounds else 0) if 0 <= k < im.known_at})
                for k in rng.sample(ks, min(len(ks), 2 if quick else 4)):
                    cs = dict(c0, img=dict(spec, cut=k), k='prefix')
                    for sizes in pick_chunkings(k, [b for b in bounds if b < k], rng, 2, big)[:2]:
                        yield dict(cs, sizes=sizes)
        # random well-formed images (layouts as imgbuild draws them), and field mutations for the correspondence
        for _ in range(6 if quick else 150) if fmt != 'vhdx' else range(3 if quick else 40):
            spec = {'b': 'rw', 'seed': rng.randrange(10**9)}
            if rng.random() < 0.4: spec['mut'] = rng.randrange(10**9)
            c0 = {'op': 'vs', 'fmt': fmt, 'img': spec, 'k': 'random-wf' if 'mut' not in spec else 'mutated'}
            try: im = image(c0)
            except Exception as e:
                continue
            n = len(im.data)
            for sizes in pick_chunkings(n, bounds_of(c0), rng, 2, n > 100000):
                yield dict(c0, sizes=sizes)

def zone(c):
    if c.get('fmt') not in ('vmdk', 'vhdx'): return None
    z = imgbuild.zones_for(c['fmt'], imgbuild.zones_of(image(c).data))
    return sorted(z)[0] if z else None

def classify(c, io):
    im = image(c)
    f = io.split('|')[-1].split(';')[1]
    return '%s:%s:%s' % (c['fmt'], c.get('k', '?').split(':')[0], 'vs=EXN' if f.startswith('EXN') else 'vs=0' if f == '0' else 'vs<0' if f.startswith('-') else 'vs>0')

def trivial(c, io):
    return len(image(c).data) == 0 and c['fmt'] != 'raw'

def search(rng, budget):
    n = 0
    while n < budget:
        for c in gen_cases(rng, 'quick'):
            n += 1
            yield c

RULE = ('per format: every value of imgbuild.size_values (0, 1, 2^k+-1, 2^32+-1, 2^63, 2^64-1, random; ISO (blocks, block size) pairs; LUKS payload sizes; '
        'raw/GPT lengths) written into a well-formed image whose layout is drawn over its admissible range (VHDX region/metadata padding entries, metadata '
        'placement, item offset; VMDK descriptor length/padding/subformat/version; ISO identifiers and system area; VHD current size != original size) '
        'x chunkings (single chunk, cuts at +-1 of structure boundaries, fixed sizes, random with empty chunks); proper prefixes cut below the structure '
        'that carries the size; random well-formed images and field mutations (correspondence only when the layout loses its ground truth); '
        'distinct = distinct case JSON; trivial = empty stream')
TRUSTED = ['tools/imgbuild.py: the ground truth (declared size, size_known_at) is computed from the layout parameters of the builders',
           'struct.unpack / bytes slicing / str methods of CPython as modelled in Base/Insp_Struct.v, Base/Str.v (tied by this correspondence)',
           'tools/gen/gen_insp.py: positional extraction of literals and struct formats (fail-closed on any change of shape)']
ASSUMPTIONS = ['logging calls are not modelled']
LEVEL_TEXT = ('Per format, for every chunking of every well-formed image: virtual_size after the whole stream equals the size written in the '
              'carrying structure (all sizes of the field range, layouts parametric), and is 0 on every prefix that does not contain that structure.')
LEVEL_NOTE = 'see notes/C07.md'
