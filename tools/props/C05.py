"""C05 — inspector memory is bounded by a constant, whatever the stream claims
(oslo_utils/imageutils/format_inspector.py: context_info, CaptureRegion/EndCaptureRegion.capture, every region
creation / resizing).

Observable: after EVERY eat_chunk / finish call,  exn;name:length:len(data),...;sum(context_info.values()).

A case is {'op':'mem', 'fmt', 'sizes':[...], 'cont':0|1, 'fin':k, 'k':label} plus the stream, given as
  'n','bg','p'            background ('z' zeros | 'f' 0xff | 'a' one long ASCII line | 'T<seed>' / 'R<seed>' text / random with
                          a 64 KiB period | 'B<hex>' the given block repeated — these are shipped to the model as block + patches; 'r<seed>' random | 't<seed>'
                          text of the C01 generators) of length n with patches [[offset, hex], ...] applied in order (the C01 representation), or
  'hostile': [seed, tier, index]   the index-th image of tools/imgbuild.hostile_images(Random(seed), tier).
sizes = chunk sizes (rest = one more chunk, 0 = empty chunk); cont=1: keep feeding the object after an exception;
fin = index of the chunk before which finish() is called (>= number of chunks: at the end).
"""
import sys, os, random, struct
import gen_insp
sys.path.insert(0, os.path.dirname(os.path.dirname(os.path.abspath(__file__))))
import insp_obs
import imgbuild
from props import C01 as c01

ID = 'C05'
GEN = [('Gen/Insp_Consts.v', gen_insp.generate), ('Gen/Insp_Code.v', gen_insp.generate_code)]
EQUIV_FILES = ['Proofs/C05.v']
EXTRACT = 'Extract/C05_x.v'
FORMATS = c01.FORMATS
KI, MI = 1024, 1024 * 1024
U32, U64 = 2**32 - 1, 2**64 - 1
BOUND = {f: (3 * MI // 2 if f == 'vmdk' else 512 * KI) for f in FORMATS}      # the property text

# ------------------------------------------------------------------ streams
_hostile = {}          # (seed, tier) -> [generator, images so far]
def hostile_image(seed, tier, idx):
    st = _hostile.get((seed, tier))
    if st is None:
        _hostile.clear()
        st = _hostile[(seed, tier)] = [imgbuild.hostile_images(random.Random(seed), tier), []]
    while len(st[1]) <= idx:
        im = next(st[0]); st[1].append((im.fmt, im.data))
    d = st[1][idx]
    for j in range(max(0, idx - 3)): st[1][j] = None          # sequential access: keep only the last few
    if d is None:
        _hostile.clear()
        return hostile_image(seed, tier, idx)
    return d

_last = [None, None]
def data_of(c):
    if 'hostile' in c:
        key = tuple(c['hostile'])
        if _last[0] != key:
            _last[0], _last[1] = key, bytes(hostile_image(*c['hostile'])[1])
        return _last[1]
    key = (c['n'], c['bg'], repr(c['p']))
    if _last[0] != key:
        if c['bg'][0] in PERIODIC:
            n = c['n']; blk = block_of(c['bg'])
            b = bytearray((blk * (n // len(blk) + 1))[:n])
            for off, hx in c['p']:
                v = bytes.fromhex(hx)
                if off < n:
                    v = v[:n - off]; b[off:off + len(v)] = v
            d = bytes(b)
        else:
            d = c01.data_of(c)
        _last[0], _last[1] = key, d
    return _last[1]

PERIODIC = 'zfaTRB'
def block_of(bg):
    """the block a periodic background repeats (fast to build, and shipped to the model instead of the stream)"""
    if bg == 'z': return b'\0' * 4096
    if bg == 'f': return b'\xff' * 4096
    if bg == 'a': return b'A' * 4096
    if bg[0] == 'B': return bytes.fromhex(bg[1:])          # an explicit block (the repeated-structure family)
    r = random.Random(int(bg[1:]))
    if bg[0] == 'T': return bytes(r.choices(TEXT, k=65536))
    if bg[0] == 'R': return r.randbytes(65536 - 7)
    raise KeyError(bg)
TEXT = b'abcdefghijklmnopqrstuvwxyzABCDEFGHIJKLMNOPQRSTUVWXYZ0123456789 =#"/._-\n\n\t'

# ------------------------------------------------------------------ my own hostile family (compact: n, bg, patches)
P = c01.P
def vmdk_hdr(desc_num, desc_sec=1, footer=False, ver=1, sectors=2048):
    return c01.sparse_header(ver, sectors, desc_sec, desc_num, c01.GD_AT_END if footer else 21)

def vhdx_patches(meta_off=256 * KI, meta_len=MI, rt_count=None, rt_pad=0, mt_count=None, mt_pad=0, item_off=64 * KI, item_len=8,
                 vds=True, all_meta=False):
    if all_meta:
        rt = [c01.guid_le(c01.G_META) + struct.pack('<QII', meta_off + 64 * KI * i, meta_len, 1) for i in range(2047)]
    else:
        rt = [c01.guid_le(c01.G_BAT) + struct.pack('<QII', 3 * MI, MI, 1)] * rt_pad + [c01.guid_le(c01.G_META) + struct.pack('<QII', meta_off, meta_len, 1)]
    rth = struct.pack('<4sIII', b'regi', 0, len(rt) if rt_count is None else rt_count, 0)
    mt = [c01.guid_le(c01.G_OTHER) + struct.pack('<III', 65536 + 8, 4, 0) + b'\0' * 4] * mt_pad
    if vds: mt.append(c01.guid_le(c01.G_VDS) + struct.pack('<III', item_off, item_len, 0) + b'\0' * 4)
    mth = struct.pack('<8sHH', b'metadata', 0, len(mt) if mt_count is None else mt_count) + b'\0' * 20
    return [P(0, b'vhdxfile'), P(192 * KI, rth + b''.join(rt)), P(meta_off, mth + b''.join(mt))]

def own_hostile(rng, tier):
    """-> (fmt, n, bg, patches, label).  Streams long enough that a missing clamp / truncation shows in the sum."""
    big = tier != 'quick'
    L = 6 * MI if big else 2 * MI + 4096
    bgs = lambda: rng.choice(['z', 'R%d' % rng.randrange(10**6), 'T%d' % rng.randrange(10**6), 'f', 'a'])
    # VMDK: descriptor sector counts up to 2^64-1, with and without the footer flag
    nums = [2047, 2048, 2049, 4096, 2**32, 2**55, 2**63, U64 - 1, U64]
    for dn in (nums if big else [2048, 4096, 2**55, U64]):
        for footer in (False, True):
            yield 'vmdk', L + rng.choice([0, 1, 511]), bgs(), [P(0, vmdk_hdr(dn, footer=footer))], 'vmdk-descnum%s' % ('+footer' if footer else '')
    yield 'vmdk', L, 'a', [P(0, vmdk_hdr(U64, footer=True, ver=3)), P(512, b'createType="' + b'A' * 80)], 'vmdk-longtype'
    yield 'vmdk', L, bgs(), [P(0, vmdk_hdr(U64, desc_sec=rng.choice([0, 2, 2**55, U64]), footer=True))], 'vmdk-descsec'
    yield 'vmdk', L, bgs(), [P(0, vmdk_hdr(U64, footer=True, sectors=U64)), P(L - 1024, vmdk_hdr(U64, footer=True))], 'vmdk-footer-hdr'
    yield 'vmdk', L, 'T%d' % rng.randrange(10**6), [], 'vmdk-text'                 # text-descriptor mode: header deleted, descriptor at 0
    yield 'vmdk', L, 'a', [P(0, b'# Disk DescriptorFile\ncreateType="monolithicSparse"\n')], 'vmdk-text-desc'
    yield 'vmdk', L, 'z', [P(0, b'KDMV')], 'vmdk-zero'
    # VHDX: table counts 2047/2048/65535, item lengths up to 2^32-1, announced metadata length up to 2^32-1
    for il in ([0, 7, 9, 65535, 65536, 65537, 2**31, U32] if big else [65536, 65537, U32]):
        yield 'vhdx', 256 * KI + MI + rng.choice([0, 1]), bgs(), vhdx_patches(item_len=il, meta_len=rng.choice([MI, U32])), 'vhdx-itemlen'
    yield 'vhdx', 256 * KI + MI, bgs(), vhdx_patches(item_len=U32, item_off=rng.choice([0, 32, 64, 65535])), 'vhdx-itemlen-back'
    for mc in (2047, 2048, 65535):
        yield 'vhdx', 256 * KI + (L if mc == 65535 else MI), bgs(), vhdx_patches(mt_count=mc, meta_len=U32, item_len=U32), 'vhdx-mtcount'
        yield 'vhdx', 256 * KI + MI, bgs(), vhdx_patches(mt_count=mc, mt_pad=min(mc, 2047) - 1, meta_len=U32, item_len=U32), 'vhdx-mtcount-full'
    for rc in (2047, 2048, 65535, U32):
        yield 'vhdx', 256 * KI + MI, bgs(), vhdx_patches(rt_count=rc, rt_pad=min(rc, 2047) - 1 if rc < 2048 else 3, meta_len=U32, item_len=U32), 'vhdx-rtcount'
    yield 'vhdx', 256 * KI + L, bgs(), vhdx_patches(vds=False, mt_pad=5, meta_len=U32), 'vhdx-no-vds'     # the size item never shows up
    yield 'vhdx', 256 * KI + L, bgs(), vhdx_patches(vds=False, mt_pad=0, mt_count=0, meta_len=U32), 'vhdx-empty-table'
    yield 'vhdx', 256 * KI + MI, 'z', vhdx_patches(all_meta=True, meta_len=U32, item_len=U32), 'vhdx-all-meta'
    yield 'vhdx', 2 * MI + MI, bgs(), vhdx_patches(meta_off=2 * MI - 7, meta_len=U32, item_len=U32, item_off=U32), 'vhdx-far'
    # every format on multi-MiB text / random / zeros / 0xff, and on its own valid image followed by a long tail
    for fmt in FORMATS:
        yield fmt, L + rng.choice([0, 1, 4097]), bgs(), [], 'plain'
        if fmt in ('raw', 'vmdk', 'vhdx'): continue
        n, p, _b = c01.BUILD[fmt](rng)
        yield fmt, n + (L if big else MI + 4097), bgs(), p, 'valid+tail'

# ------------------------------------------------------------------ field sweep: EVERY field of every structure the VHDX and VMDK
# inspectors parse (also the ones the current code ignores), one at a time, over boundary values, on an otherwise valid image
# followed by a tail of >= 1 MiB, fed as one giant chunk / 1 MiB chunks / small chunks
BASE_VALUES = [0, 1, 2**16 - 1, 2**16, 2**31, 2**32 - 1]
def field_values(width, around, rng, tier):
    """boundary values that fit the field + (value-1, value, value+1) of the other fields of the structure"""
    rel = sorted({v + d for v in around for d in (-1, 0, 1) if v + d >= 0} - set(BASE_VALUES))
    wide = [2**32, 2**32 + 1, 2**63, 2**64 - 2, 2**64 - 1] if width == 8 else []
    vals = BASE_VALUES + wide + (rel if tier != 'quick' else rng.sample(rel, min(2, len(rel))))
    return [v for v in dict.fromkeys(vals) if v < 256**width]

VHDX_META_OFF, VHDX_ITEM_OFF = 256 * KI, 64 * KI
VHDX_FIELDS = [   # (name, absolute offset, width)
    ('rt.checksum', 192 * KI + 4, 4), ('rt.count', 192 * KI + 8, 4), ('rt.reserved', 192 * KI + 12, 4),
    ('rte.offset', 192 * KI + 32, 8), ('rte.length', 192 * KI + 40, 4), ('rte.required', 192 * KI + 44, 4),
    ('mt.reserved', VHDX_META_OFF + 8, 2), ('mt.count', VHDX_META_OFF + 10, 2), ('mt.reserved2', VHDX_META_OFF + 12, 4),
    ('mt.reserved6', VHDX_META_OFF + 28, 4), ('mte.offset', VHDX_META_OFF + 48, 4), ('mte.length', VHDX_META_OFF + 52, 4),
    ('mte.flags', VHDX_META_OFF + 56, 4), ('mte.reserved', VHDX_META_OFF + 60, 4), ('vds.size', VHDX_META_OFF + VHDX_ITEM_OFF, 8),
    ('hdr1.seq', 64 * KI + 8, 8), ('hdr1.loglength', 64 * KI + 68, 4)]
VHDX_AROUND = [VHDX_ITEM_OFF, 8, 32, VHDX_META_OFF, MI, 2047]
VMDK_DESC_SECTORS = 20
VMDK_FIELDS = [   # '<4sIIQQQQIQQ' + the rest of the 512-byte SparseExtentHeader
    ('version', 4, 4), ('flags', 8, 4), ('capacity', 12, 8), ('grainSize', 20, 8), ('descriptorOffset', 28, 8), ('descriptorSize', 36, 8),
    ('numGTEsPerGT', 44, 4), ('rgdOffset', 48, 8), ('gdOffset', 56, 8), ('overHead', 64, 8), ('uncleanShutdown', 72, 1),
    ('newlines', 73, 4), ('compressAlgorithm', 77, 2), ('pad', 79, 4)]
VMDK_AROUND = [1, VMDK_DESC_SECTORS, 2048, 128, 512, 21, 2047]

def field_sweep(rng, tier):
    """-> (fmt, n, bg, patches, label, chunk-kind index)"""
    big = tier != 'quick'
    tail = (2 * MI if big else MI) + 4096 + 7
    k = rng.randrange(3)
    # VHDX
    n = VHDX_META_OFF + VHDX_ITEM_OFF + 8 + tail
    for name, off, w in VHDX_FIELDS:
        if not big and name.startswith('hdr1'): continue      # outside every capture region: thorough only
        for v in field_values(w, VHDX_AROUND, rng, tier):
            base = vhdx_patches(item_len=8, meta_len=MI) + [P(VHDX_META_OFF + VHDX_ITEM_OFF, struct.pack('<Q', 10 * 2**30))]
            yield 'vhdx', n, rng.choice(['z', 'f', 'a']), base + [P(off, v.to_bytes(w, 'little'))], 'sweep:vhdx.%s' % name, k
            k += 1
    # pairs: the region-table length against the item offset / length (declared sizes that contradict each other)
    for ml, io, il in [(0, 65536, 8), (65535, 65536, 8), (65536, 65536, 8), (65537, 65536, 2**32 - 1), (1, 1, 2**32 - 1), (8, 65536 + 8, 0),
                       (2**32 - 1, 2**32 - 1, 2**32 - 1), (0, 0, 0)] + ([(rng.choice(BASE_VALUES), rng.choice([32, 64, 65535, 65536, 65537]),
                                                                         rng.choice(BASE_VALUES)) for _ in range(20)] if big else []):
        yield 'vhdx', n, 'z', vhdx_patches(item_off=io, item_len=il, meta_len=ml), 'sweep:vhdx.pair', k
        k += 1
    # VMDK (with and without the footer flag)
    desc = c01.descriptor(rng)
    n = 512 + VMDK_DESC_SECTORS * 512 + tail
    for name, off, w in VMDK_FIELDS:
        for v in field_values(w, VMDK_AROUND, rng, tier):
            footer = (k % 4 == 0) and name != 'gdOffset'
            base = [P(0, c01.sparse_header(1, 2048, 1, VMDK_DESC_SECTORS, c01.GD_AT_END if footer else 21)), P(512, desc)]
            yield 'vmdk', n, rng.choice(['z', 'f', 'a']), base + [P(off, v.to_bytes(w, 'little'))], 'sweep:vmdk.%s' % name, k
            k += 1

def sweep_chunking(rng, n, kind, tier):
    kind %= 3 if tier == 'quick' else 4
    if kind == 0: return [n]
    if kind == 1: return [MI] * (n // MI)
    if kind == 2: return [65536] * (n // 65536)
    return [rng.choice([4096, 100000, 511])] * 40 + [MI]

# ------------------------------------------------------------------ repeated structures: long streams in which EVERY sector / stride of
# the format's natural unit carries a valid-looking instance of the structure the inspector parses there
def render(n, patches):
    b = bytearray(n)
    for off, hx in patches:
        v = bytes.fromhex(hx)[:max(0, n - off)]
        b[off:off + len(v)] = v
    return bytes(b)

def iso_sector(typ, ident, lbs=2048, blocks=1000):
    s = bytearray(2048)
    s[0] = typ; s[1:6] = ident; s[6] = 1
    s[80:88] = struct.pack('<L', blocks) + struct.pack('>L', blocks)
    s[128:132] = struct.pack('<H', lbs) + struct.pack('>H', lbs)
    return bytes(s)

def repeated(rng, tier):
    """-> (fmt, n, bg, patches, label)"""
    big = tier != 'quick'
    def length(): return rng.choice([600 * KI + 4096, 640 * KI, MI + 2048, 3 * MI] if big else [640 * KI, 700 * KI + 512, MI + 2048])
    B = lambda blk: 'B' + bytes(blk).hex()
    # ISO: a volume descriptor in every 2 KiB sector (the sequence never terminates)
    idents = [b'CD001', b'BEA01', b'NSR02', b'NSR03', b'BOOT2', b'TEA01']
    for typ, ident in [(1, b'CD001'), (2, b'CD001'), (0, b'BEA01'), (0, b'NSR02'), (0, b'NSR03'), (0, b'BOOT2'), (255, b'CD001'), (0, b'TEA01')]:
        yield 'iso', length(), B(iso_sector(typ, ident)), [], 'rep:iso.%s.%d' % (ident.decode(), typ)
    yield 'iso', length(), B(b''.join(iso_sector(rng.choice([0, 1, 2, 3]), i) for i in idents[:5])), [], 'rep:iso.mixed'
    yield 'iso', length(), B(iso_sector(1, b'CD001', lbs=65535, blocks=U32)), [], 'rep:iso.maxsize'
    # the 512-byte header formats: a valid header in every sector
    for fmt in ('qcow2', 'qed', 'vhd', 'vdi', 'gpt', 'luks'):
        for _ in range(2 if big else 1):
            n0, p, _b = c01.BUILD[fmt](rng)
            unit = 1024 if fmt == 'luks' else 512
            yield fmt, length(), B(render(unit, p)), [], 'rep:%s.header' % fmt
        # ... and the same stream to a few other inspectors
        yield rng.choice(['raw', 'iso', 'vmdk', 'vhdx']), length(), B(render(512, c01.BUILD[fmt](rng)[1])), [], 'rep:cross.%s' % fmt
    # VHDX: table entries repeated far beyond the declared counts
    meta_e = c01.guid_le(c01.G_META) + struct.pack('<QII', 256 * KI, MI, 1)
    vds_e = lambda io, il: c01.guid_le(c01.G_VDS) + struct.pack('<III', io, il, 0) + b'\0' * 4
    other_e = c01.guid_le(c01.G_OTHER) + struct.pack('<III', 65536 + 8, 4, 0) + b'\0' * 4
    for cnt in (1, 2047):
        for ent, lab in [(vds_e(65536, 8), 'vds'), (vds_e(65536, U32), 'vds-max'), (other_e, 'other'), (meta_e, 'meta')]:
            rth = struct.pack('<4sIII', b'regi', 0, cnt, 0)
            mth = struct.pack('<8sHH', b'metadata', 0, cnt) + b'\0' * 20
            rt = b''.join(c01.guid_le(c01.G_META) + struct.pack('<QII', 256 * KI + 64 * KI * (i % 7), MI, 1) for i in range(2047))
            yield 'vhdx', 256 * KI + length(), B(ent), [P(0, b'vhdxfile'), P(192 * KI, rth + rt), P(256 * KI, mth)], 'rep:vhdx.%s.%d' % (lab, cnt)
    # a metadata table header in every 64 KiB, entries everywhere else
    yield 'vhdx', 256 * KI + length(), B(struct.pack('<8sHH', b'metadata', 0, 2047) + b'\0' * 20 + vds_e(65536, U32) * 2047), \
        [P(0, b'vhdxfile'), P(192 * KI, struct.pack('<4sIII', b'regi', 0, 1, 0) + meta_e)], 'rep:vhdx.tables'
    # VMDK: descriptor sectors, marker sectors, footer triples, headers — in every sector
    hdr = lambda footer, dn=U64: c01.sparse_header(1, 2048, 1, dn, c01.GD_AT_END if footer else 21)
    dsec = (c01.descriptor(rng) + b'\n' * 512)[:512]
    line = (b'RW 2048 SPARSE "disk.vmdk"\n' * 20)[:512]
    marker = struct.pack('<QII', 1, 0, 3) + b'\0' * 496
    eos = struct.pack('<QII', 0, 0, 0) + b'\0' * 496
    for footer in (False, True):
        yield 'vmdk', length(), B(dsec), [P(0, hdr(footer))], 'rep:vmdk.descriptor%s' % ('+footer' if footer else '')
        yield 'vmdk', length(), B(line), [P(0, hdr(footer)), P(512, c01.descriptor(rng))], 'rep:vmdk.extents%s' % ('+footer' if footer else '')
        yield 'vmdk', length(), B(marker), [P(0, hdr(footer, 4))], 'rep:vmdk.markers%s' % ('+footer' if footer else '')
        yield 'vmdk', length(), B(marker + hdr(False, 4) + b'\0' * 448 + eos), [P(0, hdr(footer, 4))], 'rep:vmdk.footers%s' % ('+footer' if footer else '')
        yield 'vmdk', length(), B(hdr(footer) + b'\0' * 448), [], 'rep:vmdk.headers%s' % ('+footer' if footer else '')
    yield 'vmdk', length(), B(dsec), [], 'rep:vmdk.text-descriptor'

# ------------------------------------------------------------------ header-field sweep for the other formats: every header field the code
# (or a plausible edit) could use as an offset / length — singly, in (offset, length) pairs and all at once — tail >= 1 MiB, 512 / 4096 /
# 65536-byte chunks (a region created by a callback only sees LATER chunks, so small chunks matter here)
HDR_FIELDS = {    # fmt -> (base offset, big-endian?, [(name, offset, width)])
    'qcow2': (0, True, [('version', 4, 4), ('backing_file_offset', 8, 8), ('backing_file_size', 16, 4), ('cluster_bits', 20, 4), ('size', 24, 8),
                        ('crypt_method', 32, 4), ('l1_size', 36, 4), ('l1_table_offset', 40, 8), ('refcount_table_offset', 48, 8),
                        ('refcount_table_clusters', 56, 4), ('nb_snapshots', 60, 4), ('snapshots_offset', 64, 8), ('incompatible_features', 72, 8),
                        ('compatible_features', 80, 8), ('autoclear_features', 88, 8), ('refcount_order', 96, 4), ('header_length', 100, 4),
                        ('ext.type', 104, 4), ('ext.length', 108, 4)]),
    'qed': (0, False, [('cluster_size', 4, 4), ('table_size', 8, 4), ('header_size', 12, 4), ('features', 16, 8), ('compat_features', 24, 8),
                       ('autoclear_features', 32, 8), ('l1_table_offset', 40, 8), ('image_size', 48, 8), ('backing_filename_offset', 56, 4),
                       ('backing_filename_size', 60, 4)]),
    'vdi': (0, False, [('version', 0x44, 4), ('header_size', 0x48, 4), ('image_type', 0x4c, 4), ('flags', 0x50, 4), ('offset_blocks', 0x154, 4),
                       ('offset_data', 0x158, 4), ('sector_size', 0x168, 4), ('disk_size', 0x170, 8), ('block_size', 0x178, 4),
                       ('block_extra', 0x17c, 4), ('blocks_in_hdd', 0x180, 4), ('blocks_allocated', 0x184, 4)]),
    'vhd': (0, True, [('features', 8, 4), ('version', 12, 4), ('data_offset', 16, 8), ('timestamp', 24, 4), ('original_size', 40, 8),
                      ('current_size', 48, 8), ('geometry', 56, 4), ('disk_type', 60, 4), ('checksum', 64, 4)]),
    'luks': (0, True, [('version', 6, 2), ('payload_offset', 104, 4), ('key_bytes', 108, 4), ('mk_digest_iter', 164, 4), ('slot0.active', 208, 4),
                       ('slot0.iterations', 212, 4), ('slot0.key_material_offset', 248, 4), ('slot0.stripes', 252, 4),
                       ('slot7.key_material_offset', 208 + 48 * 7 + 40, 4), ('slot7.stripes', 208 + 48 * 7 + 44, 4)]),
    'gpt': (0, False, [('bytes_per_sector', 0x0b, 2), ('fat_num', 0x10, 1), ('media', 0x15, 1), ('pte0.boot', 446, 1), ('pte0.ostype', 450, 1),
                       ('pte0.lba', 454, 4), ('pte0.size', 458, 4), ('pte1.lba', 470, 4), ('pte1.size', 474, 4), ('pte3.lba', 502, 4),
                       ('pte3.size', 506, 4), ('signature', 510, 2)]),
    'iso': (32 * KI, False, [('type', 0, 1), ('volume_space_size', 80, 4), ('logical_block_size', 128, 2), ('path_table_size', 132, 4),
                             ('path_table_loc', 140, 4), ('root.extent', 158, 4), ('root.length', 166, 4), ('volume_set_size', 120, 2)]),
}
OFFSETS = [512, 513, 4096, 65536, 100000, MI]           # just past the header ... inside the tail
def hdr_values(w, rng, tier):
    vals = [0, 1, 511, 512, 513, 4096, 65536, 2**31, 2**32 - 1] + ([2**32, 2**63, 2**64 - 1] if w == 8 else [])
    vals = [v for v in vals if v < 256**w]
    return vals if tier != 'quick' else rng.sample(vals, 1)

def header_sweep(rng, tier):
    """-> (fmt, n, bg, patches, label, chunk size)"""
    big = tier != 'quick'
    k = rng.randrange(3)
    CH = [512, 4096, 65536]
    for fmt, (base, be, fields) in HDR_FIELDS.items():
        order = 'big' if be else 'little'
        n0, p0, _b = c01.BUILD[fmt](rng)
        n = max(n0, base + 2048) + (3 * MI if big else MI) + 4096 + 3
        enc = lambda name, v: P(base + dict((f[0], f[1]) for f in fields)[name], (v % 256**dict((f[0], f[2]) for f in fields)[name]).to_bytes(dict((f[0], f[2]) for f in fields)[name], order))
        bgs = lambda: rng.choice(['z', 'f', 'a'])
        # one field at a time
        for name, off, w in fields:
            for v in hdr_values(w, rng, tier):
                yield fmt, n, bgs(), p0 + [enc(name, v)], 'hdr:%s.%s' % (fmt, name), CH[k % 3]; k += 1
        # all at once: every 8-byte (or, second round, every) field an offset just past the header chunk, every other field a huge length
        for O in ([512, 4096, 65536, MI] if big else [4096, 65536]):
            for L in ([2**32 - 1, 2**31, MI] if big else [2**32 - 1]):
                for keep in ((('version',), ()) if big else (rng.choice([('version',), ()]),)):
                    p = [enc(nm, O if w == 8 else L) for nm, _o, w in fields if nm not in keep]
                    yield fmt, n, bgs(), p0 + p, 'hdr:%s.all' % fmt, CH[k % 2]; k += 1
                    p = [enc(nm, O if i % 2 == 0 else L) for i, (nm, _o, w) in enumerate(f for f in fields if f[0] not in keep)]
                    yield fmt, n, bgs(), p0 + p, 'hdr:%s.alt' % fmt, CH[k % 2]; k += 1
        # (offset field, length field) pairs
        pairs = [(a, b) for a in fields for b in fields if a[0] != b[0] and a[0] != 'version' and b[0] != 'version']
        for a, b in (pairs if big else rng.sample(pairs, min(5, len(pairs)))):
            O = rng.choice([o for o in OFFSETS if o < 256**a[2]] or [255]); L = rng.choice([256**b[2] - 1, 2**(8 * b[2] - 1), MI % 256**b[2]])
            yield fmt, n, bgs(), p0 + [enc(a[0], O), enc(b[0], L)], 'hdr:%s.pair' % fmt, CH[k % 2]; k += 1
    # adjacent (offset, length) pairs of qcow2 / qed explicitly, every offset x every chunk size
    for fmt, a, b in [('qcow2', 'backing_file_offset', 'backing_file_size'), ('qed', 'backing_filename_offset', 'backing_filename_size'),
                      ('qcow2', 'snapshots_offset', 'nb_snapshots'), ('qcow2', 'l1_table_offset', 'l1_size'),
                      ('qcow2', 'refcount_table_offset', 'refcount_table_clusters'), ('vdi', 'offset_blocks', 'blocks_in_hdd'),
                      ('luks', 'slot0.key_material_offset', 'slot0.stripes'), ('vhd', 'data_offset', 'current_size')]:
        base, be, fields = HDR_FIELDS[fmt]; order = 'big' if be else 'little'
        fo = dict((f[0], f) for f in fields)
        n0, p0, _b = c01.BUILD[fmt](rng)
        n = n0 + (3 * MI if big else MI) + 4096 + 3
        for O in ([512, 4096, 65536] if not big else OFFSETS):
            for cs in CH:
                if cs > O and not big: continue
                L = 256**fo[b][2] - 1
                yield fmt, n, rng.choice(['z', 'f', 'a']), p0 + [P(base + fo[a][1], O.to_bytes(fo[a][2], order)), P(base + fo[b][1], L.to_bytes(fo[b][2], order))], \
                    'hdr:%s.%s+%s' % (fmt, a, b), cs

def big_chunkings(rng, n, tier):
    """few large chunks (the list model is quadratic in the number of chunks per region)"""
    out = [[n]]
    k = rng.choice([65536, 100000, 2**20] if n <= 4 * MI else [2**20, 2**21])
    out.append([k] * (n // k))
    cuts = sorted(rng.randint(0, n) for _ in range(rng.randint(1, 6)))
    sz = [b - a for a, b in zip([0] + cuts, cuts)]
    if rng.random() < 0.5: sz = [x for s in sz for x in ([0, s] if rng.random() < 0.3 else [s])]
    out.append(sz)
    if tier != 'quick':
        out.append([rng.choice([511, 512, 513, 4096]), 196608, 65536, 1])
    return out

def modes(rng, nchunks):
    """(cont, fin): mostly the wrapper's protocol (stop at the first exception, finish at the end)"""
    r = rng.random()
    if r < 0.6: return 0, nchunks + 1
    if r < 0.85: return 1, nchunks + 1
    return rng.choice([0, 1]), rng.randint(0, max(0, nchunks))

def gen_cases(rng, tier):
    # 1. boundary / hostile family first
    for fmt, n, bg, p, lab in own_hostile(rng, tier):
        ch = big_chunkings(rng, n, tier)
        if tier == 'quick': ch = [ch[0], rng.choice(ch[1:])] if lab != 'plain' else [rng.choice(ch)]
        for sizes in ch:
            cont, fin = modes(rng, len(sizes) + 1)
            yield {'op': 'mem', 'fmt': fmt, 'n': n, 'bg': bg, 'p': p, 'sizes': sizes, 'cont': cont, 'fin': fin, 'k': lab}
    # 1a. repeated structures
    for fmt, n, bg, p, lab in repeated(rng, tier):
        ch = big_chunkings(rng, n, tier)
        ch = [ch[0], rng.choice(ch[1:])] if tier == 'quick' else ch[:3]
        for sizes in ch:
            cont, fin = modes(rng, len(sizes) + 1)
            yield {'op': 'mem', 'fmt': fmt, 'n': n, 'bg': bg, 'p': p, 'sizes': sizes, 'cont': cont, 'fin': fin, 'k': lab}
    # 1c. header fields of the other formats
    for fmt, n, bg, p, lab, cs in header_sweep(rng, tier):
        sizes = [cs] * (n // cs)
        cont, fin = modes(rng, len(sizes) + 1)
        yield {'op': 'mem', 'fmt': fmt, 'n': n, 'bg': bg, 'p': p, 'sizes': sizes, 'cont': cont, 'fin': fin, 'k': lab}
    # 1b. the field sweep
    for fmt, n, bg, p, lab, kind in field_sweep(rng, tier):
        kinds = [kind] if tier == 'quick' else [0, 1, 2 + kind % 2]
        for kd in kinds:
            sizes = sweep_chunking(rng, n, kd, tier)
            cont, fin = modes(rng, len(sizes) + 1)
            yield {'op': 'mem', 'fmt': fmt, 'n': n, 'bg': bg, 'p': p, 'sizes': sizes, 'cont': cont, 'fin': fin, 'k': lab}
    # 2. tools/imgbuild.hostile_images: every image to its own inspector (overlays / plain: a random one) and, in the
    #    thorough tier, to one more inspector
    seed = rng.randrange(10**9)
    n_img = sum(1 for _ in imgbuild.hostile_images(random.Random(seed), tier))
    step = 1 if tier != 'quick' else 4
    for idx in range(rng.randrange(step), n_img, step):
        img_fmt, d = hostile_image(seed, tier, idx)
        fmts = [img_fmt if img_fmt in FORMATS and img_fmt != 'raw' else rng.choice(FORMATS)]
        if tier != 'quick': fmts.append(rng.choice([f for f in FORMATS if f != fmts[0]]))
        for j, fmt in enumerate(fmts):
            ch = big_chunkings(rng, len(d), tier)
            ch = ch[:2] if tier == 'quick' else [ch[0] if (idx + j) % 2 else rng.choice(ch[1:])]     # the streams are shipped whole: keep the volume down
            for sizes in ch:
                cont, fin = modes(rng, len(sizes) + 1)
                yield {'op': 'mem', 'fmt': fmt, 'hostile': [seed, tier, idx], 'sizes': sizes, 'cont': cont, 'fin': fin, 'k': 'imgbuild'}
    # 3. the C01 generators (structured mostly-valid images, truncations, mutations, polyglots; small streams, fine chunkings)
    per = {'quick': 16, 'thorough': 600}[tier]
    for fmt in FORMATS:
        bigf = fmt == 'vhdx'
        for _ in range(per // 3 if bigf else per):
            n, bg, p, bounds, lab = c01.image(rng, fmt)
            for sizes in c01.chunkings(rng, n, bounds, bigf or n > 20000):
                cont, fin = modes(rng, len(sizes) + 1)
                yield {'op': 'mem', 'fmt': fmt, 'n': n, 'bg': bg, 'p': p, 'sizes': sizes, 'cont': cont, 'fin': fin, 'k': 'c01:' + lab}

# ------------------------------------------------------------------ implementation side
def region_rec(insp):
    return ','.join('%s:%d:%d' % (n, r.length, len(r.data)) for n, r in insp._capture_regions.items())

def observe(fmt, data, sizes, cont, fin):
    m = insp_obs.fi()
    insp = m.ALL_FORMATS[fmt]()
    recs = []
    def rec(tag):
        recs.append('%s;%s;%d' % (tag, region_rec(insp), sum(insp.context_info.values())))
    chunks = insp_obs.split_sizes(data, sizes)
    feeder = insp_obs.Feeder(insp_obs.container_kind(bytes(data), list(sizes)))   # chunk container varies per case
    for k, chunk in enumerate(chunks):
        if k == fin:
            insp.finish(); rec('F')
        try:
            insp_obs.eat(insp, chunk, feeder); e = '-'
        except Exception as ex:
            e = type(ex).__name__
        rec(e)
        if e != '-' and not cont: break
    if len(chunks) <= fin:
        insp.finish(); rec('F')
    return '|'.join(recs)

def impl(c):
    return observe(c['fmt'], data_of(c), c['sizes'], c['cont'], c['fin'])

def encode(c):
    if 'hostile' not in c and c['bg'][0] in PERIODIC:      # compact: the model builds the stream from the block and the patches
        vs = [bytes.fromhex(hx) for _o, hx in c['p']]
        return ['memc', c['fmt'], int(c['n']), block_of(c['bg']), [o for o, _h in c['p']], [len(v) for v in vs], b''.join(vs),
                list(c['sizes']), int(c['cont']), int(c['fin'])]
    return ['mem', c['fmt'], data_of(c), list(c['sizes']), int(c['cont']), int(c['fin'])]

def oracle(c, io):
    """model-free: sum(context_info.values()) after every call of the stream protocol <= the bound of the property text.
    Judged: every record up to and including the first one that is not a normal eat_chunk (the state an exception leaves
    behind, or the finish() at the end of the stream); what a caller observes by going on after that is not judged."""
    if io.startswith('HARNESS-ERROR'): return io
    bound = BOUND[c['fmt']]
    for k, rec in enumerate(io.split('|')):
        tag, regs, tot = rec.split(';')
        if int(tot) > bound:
            return '%s inspector reports %d bytes retained (%s) after call %d (%s) — more than the bound %d' % (c['fmt'], int(tot), regs, k, tag, bound)
        if tag != '-': break
    return None

def classify(c, io):
    if io.startswith('HARNESS-ERROR'): return 'harness-error'
    recs = io.split('|')
    peak = max(int(r.split(';')[2]) for r in recs)
    ex = [r.split(';')[0] for r in recs if r.split(';')[0] not in ('-', 'F')]
    band = '0' if peak == 0 else '<=4K' if peak <= 4096 else '<=64K' if peak <= 65536 else '<=512K' if peak <= 512 * KI else '<=1M' if peak <= MI else '>1M'
    return '%s:peak%s%s' % (c['fmt'], band, (':' + ex[0]) if ex else '')

def trivial(c, io):
    return len(data_of(c)) == 0 if 'hostile' not in c else False

# ------------------------------------------------------------------ adaptive search (search stage only: runs the implementation under test)
KNOWN_REGIONS = {'raw': [], 'qcow2': ['header'], 'vhd': ['header'], 'vhdx': ['ident', 'header', 'metadata', 'vds'],
                 'vmdk': ['header', 'descriptor', 'footer'], 'vdi': ['header'], 'qed': ['header'], 'iso': ['system_area', 'header'],
                 'gpt': ['mbr'], 'luks': ['header']}

def source_literals():
    """bytes literals of length >= 4 in the format_inspector source under test (candidate magics behind which new code may hide)"""
    import ast
    m = insp_obs.fi()
    out = []
    try:
        for node in ast.walk(ast.parse(open(m.__file__).read())):
            if isinstance(node, ast.Constant) and isinstance(node.value, bytes) and 4 <= len(node.value) <= 64 and node.value not in out:
                out.append(node.value)
    except Exception:
        pass
    return out

def probe(fmt, n, patches):
    """regions the implementation creates that the model does not know: name -> (offset, length); the stream is fed as one chunk"""
    m = insp_obs.fi()
    insp = m.ALL_FORMATS[fmt]()
    try:
        insp.eat_chunk(render(n, patches))
    except Exception:
        pass
    out = {}
    for name, r in insp._capture_regions.items():
        if name not in KNOWN_REGIONS[fmt] and isinstance(r.offset, int) and isinstance(r.length, int):
            out[name] = (r.offset, r.length)
    return out

def adaptive_cases(fmt, patches, regions, label):
    """the image with a tail >= 2 MiB behind the last structure, as ONE chunk, 1 MiB chunks and 512-byte chunks"""
    ends = [o + min(max(l, 0), 4 * MI) for o, l in regions.values() if 0 <= o <= 8 * MI]
    n = max(ends + [4096]) + 2 * MI + 4096 + 3
    for sizes in ([n], [MI] * (n // MI), [512] * (n // 512)):
        yield {'op': 'mem', 'fmt': fmt, 'n': n, 'bg': 'z', 'p': patches, 'sizes': sizes, 'cont': 0, 'fin': len(sizes) + 2, 'k': 'search:adaptive:' + label}

def explore(fmt, patches, name, o, l, depth, seen, literals, out, budget):
    """sweep the fields inside the unknown region [o, o + max(l, 1024)) (behind every candidate magic); follow regions that appear (depth <= 3)"""
    if depth > 3 or o < 0 or o > 8 * MI: return
    span = 1024 if l < 1024 else min(l, 4096)
    n = o + span + 4096
    level, sigs = [], set()
    values = [0x20000, 0x30000, 0x40000, 0x7fffffff, 2**32 - 1, o + max(l, 0), o + max(l, 0) + 512, o + span + 1024]
    for magic in [b''] + literals:
        base = patches + ([P(o, magic)] if magic else [])
        variants = []
        for w in (4, 8):
            for pos in range((len(magic) + w - 1) // w * w, 64, w):
                for order in ('big', 'little'):
                    for v in values:
                        variants.append([P(o + pos, v.to_bytes(w, order))])
        for order in ('big', 'little'):
            for v in values:      # all fields at once (4-byte and 8-byte granularity), behind the magic
                for w in (4, 8):
                    start = (len(magic) + w - 1) // w * w
                    variants.append([P(o + start, v.to_bytes(w, order) * ((span - start) // w))])
        for var in variants:
            budget[0] -= 1
            if budget[0] < 0: break
            pv = base + var
            regs = probe(fmt, n, pv)
            new = {k: v for k, v in regs.items() if k not in seen}
            sig = tuple(sorted(new.items()))
            if new and sig not in sigs:
                sigs.add(sig)
                level.append((fmt, pv, regs, '%s>%s' % (name, ','.join(new)), new))
    level.sort(key=lambda t: -reach(t[2]))
    out.extend(t[:4] for t in level)
    for f, pv, regs, lab, new in level[:3]:            # pointer chasing: follow the most promising new regions
        for k, (o2, l2) in list(new.items())[:2]:
            explore(fmt, pv, k, o2, l2, depth + 1, seen | set(new), literals[:6], out, [budget[0] // 4])

def reach(regs):
    """announced bytes within reach of a few-MiB stream"""
    return sum(min(max(l, 0), 4 * MI) for o, l in regs.values() if 0 <= o <= 8 * MI)

def adaptive_search(rng):
    literals = source_literals()
    for fmt, (base, be, fields) in HDR_FIELDS.items():
        order = 'big' if be else 'little'
        n0, p0, _b = c01.BUILD[fmt](rng)
        n0 = max(n0, base + 2048)
        found = {}           # region name -> (patches, regions) with the smallest offset
        for name, off, w in fields:
            for v in (512, 1024, 2048, 4096, 65536):
                if v >= 256**w: continue
                pv = p0 + [P(base + off, v.to_bytes(w, order))]
                for k, (o, l) in probe(fmt, n0 + 4096, pv).items():
                    if k not in found or o < found[k][1][k][0]:
                        found[k] = (pv, probe(fmt, n0 + 4096, pv))
        for k, (o, l) in probe(fmt, n0 + 4096, p0).items():       # a region the valid image already gets
            found.setdefault(k, (p0, probe(fmt, n0 + 4096, p0)))
        for k, (pv, regs) in found.items():
            yield from adaptive_cases(fmt, pv, regs, k)
            out = []
            explore(fmt, pv, k, regs[k][0], regs[k][1], 1, set(regs), literals, out, [60000])
            out.sort(key=lambda t: -reach(t[2]))      # most announced bytes within reach first
            for f, p2, r2, lab in out[:60]:
                yield from adaptive_cases(f, p2, r2, lab)

def search(rng, budget):
    """cases aimed at the bound.  First adaptively: when the implementation creates regions the model does not know, sweep the fields
    inside them (behind magics harvested from the source under test), follow the regions that appear, long tail, 1 / 1 MiB / 512-byte
    chunks; then long streams under maximal announced sizes"""
    n = 0
    try:
        for c in adaptive_search(rng):
            n += 1
            yield c
    except Exception:
        pass
    while n < budget:
        for fmt, ln, bg, p, lab in own_hostile(rng, 'quick'):
            for sizes in big_chunkings(rng, ln, 'quick')[:2]:
                n += 1
                yield {'op': 'mem', 'fmt': fmt, 'n': ln, 'bg': bg, 'p': p, 'sizes': sizes, 'cont': 0, 'fin': len(sizes) + 2, 'k': 'search:' + lab}
        for fmt, ln, bg, p, lab, cs in header_sweep(rng, 'quick'):
            n += 1
            yield {'op': 'mem', 'fmt': fmt, 'n': ln, 'bg': bg, 'p': p, 'sizes': [cs] * (ln // cs), 'cont': 0, 'fin': ln, 'k': 'search:' + lab}
        for fmt, ln, bg, p, lab in repeated(rng, 'thorough'):
            n += 1
            yield {'op': 'mem', 'fmt': fmt, 'n': ln, 'bg': bg, 'p': p, 'sizes': [ln], 'cont': 0, 'fin': 3, 'k': 'search:' + lab}
        for fmt, ln, bg, p, lab, kind in field_sweep(rng, 'thorough'):
            for kd in (0, 1):
                n += 1
                sizes = sweep_chunking(rng, ln, kd, 'thorough')
                yield {'op': 'mem', 'fmt': fmt, 'n': ln, 'bg': bg, 'p': p, 'sizes': sizes, 'cont': 0, 'fin': len(sizes) + 2, 'k': 'search:' + lab}

RULE = ('header-field sweep of qcow2/qed/vdi/vhd/luks/gpt/iso (every field singly over {0,1,511..513,4096,65536,2^31,2^32-1,2^63,2^64-1}, all fields at once as offsets just past the header + huge lengths, (offset,length) pairs incl. backing_file_offset/size), tail >= 1 MiB, 512/4096/65536-byte chunks; repeated structures: 0.6-3 MiB streams in which every sector/stride carries a valid-looking instance of what the inspector parses there (ISO volume descriptors of every identifier/type in every 2 KiB sector; a valid qcow2/qed/vhd/vdi/gpt/luks header in every sector; VHDX region/metadata entries repeated beyond the declared counts, table headers every 64 KiB; VMDK descriptor / extent-line / marker / footer-triple / header sectors); field sweep: every field of every structure the VHDX and VMDK inspectors parse, ignored ones included (region-table checksum/count/reserved, entry offset/length/required, metadata reserved words/count, item offset/length/flags/reserved, size; every SparseExtentHeader field) one at a time over {0,1,2^16-1,2^16,2^31,2^32-1,2^32,2^63,2^64-1, other fields +-1} + contradictory length pairs, tail >= 1 MiB, as one chunk / 1 MiB chunks / 64 KiB chunks; hostile family ( (VMDK descriptor sector counts 2047..2^64-1 with/without footer flag, bad descriptor sector, text-descriptor mode; '
        'VHDX item lengths up to 2^32-1, table counts 2047/2048/65535/2^32-1, announced metadata length 2^32-1, missing size item, 2047 metadata '
        'entries; every format on 3-6 MiB text/random/zero/0xff/one-line streams and on its valid image + long tail) x (one giant chunk, 64 KiB..2 MiB '
        'chunks, random cuts with empty chunks); tools/imgbuild.hostile_images; the C01 structured generators with fine chunkings; x call protocols '
        '(stop at first exception | keep feeding, finish at the end | midway); distinct = distinct case JSON; trivial = empty stream')
TRUSTED = ['struct.unpack / bytes slicing of CPython as modelled in Base/Insp_Struct.v (tied by this correspondence, after every call)',
           'tools/gen/gen_insp.py: positional extraction of literals (2048*32, 1536, 512, DESC_MAX_SIZE, VHDX_METADATA_TABLE_MAX_SIZE, _initialize regions '
           'read from fresh instances), fail-closed on any change of shape; py2gal translation of the two capture methods',
           'shared inspector model coq/Model/Insp_*.v (owned by the C01 development)']
ASSUMPTIONS = ['memory = what context_info reports between calls (the property\'s wording); the transient data + chunk inside capture() is not modelled',
               'stream positions / lengths are unbounded naturals (N), chunks are finite byte lists']
LEVEL_TEXT = ('Proved for all byte strings, all chunk lists and every prefix (every reachable inspector state, including the state an eat_chunk that '
              'raised leaves behind, after finish, and when the object is fed again): len(data) <= length for every region, every region within the '
              'format\'s static envelope built from the generated constants, and sum(context_info.values()) <= 1.5 MiB (vmdk) / 512 KiB (others).')
LEVEL_NOTE = ('Gap: the bound is on what context_info reports between calls (the property\'s wording); the transient `data + chunk` inside capture() '
              '(one chunk larger) is not modelled as memory.  EndCaptureRegion(0) would retain the whole stream (data[0 - 0:]); the invariant carries '
              'length != 0 for tail regions and the only one created is EndCaptureRegion(1536).')
