"""C19 — split_path and split_by_commas (oslo_utils/strutils.py)"""
import itertools, warnings
import gen_C19

ID = 'C19'
GEN = [('Gen/C19_SplitPath.v', gen_C19.generate_split_path), ('Gen/C19_Grammar.v', gen_C19.generate_grammar)]
EQUIV_FILES = ['Proofs/C19_SplitPath.v']
EXTRACT = 'Extract/C19_x.v'
TRUSTED = [
    'CPython str.split(sep, maxsplit), list slicing/indexing, str.expandtabs as modelled in Base/Str.v, Base/C19_PyList.v, Model/C19.v',
    'pyparsing (installed 3.x): QuotedString / Word / DelimitedList / StringStart / StringEnd / whitespace skipping are modelled at '
    'character level in Model/C19.v (scan_quoted, unescape, take_word, parse_more) and tied by correspondence only; the grammar '
    'arguments (quote, escape, delimiter, Word alphabet, white characters) are regenerated from the source and the installed library',
    'the message expressions of the raise statements (_() % ..., urllib.parse.quote) are not modelled: an exception raised while '
    'building the message is accepted when it is a ValueError subclass (UnicodeEncodeError for lone surrogates)',
]
ASSUMPTIONS = [
    'split_path: the declarative theorem needs minsegs >= 1 (the range of the property); for minsegs <= 0 the model is still exact '
    '(correspondence) but the reading "starts with /" is false there (C19_split_path_minsegs0_witness)',
    'split_by_commas round trip is proved for items that are non-empty, contain no \\t \\n \\r when quoted, and only Word characters '
    '(printable ASCII) when unquoted; the empty item is rejected (it is written as an empty unquoted field) — this is the '
    'property\'s own "empty unquoted items" clause',
]
RULE = ('split_path: every path of <= 3 (quick) / <= 4 (thorough) segments over {a, empty, b.c, "d e"} x leading/trailing slash x minsegs 1..4 x '
        'maxsegs {None,0,min-1..min+2} x rest_with_last through model and oracle, the same up to 6 segments through the oracle only (thorough), '
        'random paths with non-ASCII / surrogate / percent segments, doubled slashes, minsegs -1..6, negative and large maxsegs; '
        'split_by_commas: quote-join-split of item lists of length 1..5 over printable ASCII weighted towards , " \\ space and escape letters, '
        'raw strings over a quoting-heavy alphabet with tabs/newlines/non-ASCII, four malformed families; freshness sequences for both functions '
        '(call, mutate the returned list in place, interleave other calls incl. raising ones, call again with equal but not identical arguments); distinct = distinct case JSON')

warnings.filterwarnings('ignore', category=DeprecationWarning)
try:
    import pyparsing as _pp
    warnings.filterwarnings('ignore', category=_pp.warnings.PyparsingDeprecationWarning)
except Exception:
    pass


def _su():
    from oslo_utils import strutils
    return strutils

# ---------------------------------------------------------------- canonical forms

def canon_list(l):
    return 'OK' + ''.join('|N' if x is None else '|S' + '.'.join(str(ord(c)) for c in x) for x in l)

def _exn(e):
    # UnicodeEncodeError (urllib.parse.quote on a lone surrogate, while building the message) is a ValueError
    return 'EXN:' + ('ValueError' if isinstance(e, ValueError) else type(e).__name__)

# ---------------------------------------------------------------- the writer's convention (mirror of Model/C19.v [quote])

def quote(it):
    if any(c in it for c in ',"\\ '):
        return '"' + ''.join('\\' + c if c in '"\\' else c for c in it) + '"'
    return it

def join_items(items):
    return ','.join(quote(i) for i in items)

# ---------------------------------------------------------------- declarative reading of split_path (model-free oracle)

def decl_split_path(path, minsegs, maxsegs, rwl):
    """the property statement, for minsegs >= 1.  A list, or 'VE'."""
    M = maxsegs if maxsegs else minsegs
    if minsegs > M: return 'VE'
    if not path.startswith('/'): return 'VE'
    parts = path[1:].split('/')                      # the segments
    if rwl:
        if len(parts) > M:                           # more than maxsegs: the remainder stays in the last entry
            parts = parts[:M - 1] + ['/'.join(parts[M - 1:])]
    else:
        if len(parts) == M + 1 and parts[-1] == '':  # a single trailing slash is tolerated
            parts = parts[:-1]
    n = len(parts)
    if not (minsegs <= n <= M): return 'VE'
    if any(p == '' for p in parts[:minsegs]): return 'VE'
    return parts + [None] * (M - n)

# ---------------------------------------------------------------- generators

ALPHA4 = ['a', '', 'b.c', 'd e']
SEGS_WIDE = ['a', '', 'b.c', 'd e', 'xyz', 'é', '😀', '\ud800', '%2F', ' ', '\n', '\\', '\x00', 'a\tb', '０']

def exhaustive_paths(maxseg):
    for nseg in range(0, maxseg + 1):
        for segs in itertools.product(ALPHA4, repeat=nseg):
            for lead in ('/', ''):
                for trail in ('', '/'):
                    yield lead + '/'.join(segs) + trail

def arg_family(mn):
    return [None, 0] + list(range(max(0, mn - 1), mn + 3))

def sp_exhaustive(maxseg):
    for path in exhaustive_paths(maxseg):
        for mn in range(1, 5):
            for mx in arg_family(mn):
                for rest in (False, True):
                    yield {'op': 'sp', 'path': path, 'min': mn, 'max': mx, 'rest': rest}

def sp_random(rng):
    nseg = rng.randint(0, 7)
    pool = ALPHA4 if rng.random() < 0.5 else SEGS_WIDE
    segs = [rng.choice(pool) for _ in range(nseg)]
    lead = rng.choice(['/', '/', '/', '', '//', 'x/', ' /'])
    trail = rng.choice(['', '', '/', '/', '//'])
    path = lead + '/'.join(segs) + trail
    mn = rng.choice([1, 1, 2, 2, 3, 4, 5, 6, 0, -1]) if rng.random() < 0.3 else rng.randint(1, 4)
    r = rng.random()
    if r < 0.7: mx = rng.choice(arg_family(max(mn, 0)))
    elif r < 0.8: mx = rng.choice([-1, -2, -5, mn - 2])
    elif r < 0.9: mx = nseg + rng.randint(-1, 2)
    else: mx = rng.choice([10, 100])
    return {'op': 'sp', 'path': path, 'min': mn, 'max': mx, 'rest': rng.random() < 0.5}

def sp_valid(rng):
    """mostly accepted calls: segment count drawn around [minsegs, maxsegs], leading segments non-empty"""
    mn = rng.randint(1, 4)
    mx = rng.choice([None, 0, mn, mn + 1, mn + 2, mn + 3])
    M = mx if mx else mn
    rest = rng.random() < 0.5
    n = rng.choice([mn, M, rng.randint(mn, M), M + 1, mn - 1, M + 2])
    pool = ['a', 'bc', 'b.c', 'd e', 'é', '%41', '😀']
    segs = [rng.choice(pool) for _ in range(max(n, 0))]
    r = rng.random()
    if segs and r < 0.15: segs[rng.randrange(len(segs))] = ''
    trail = rng.choice(['', '', '', '/', '/', '//'])
    lead = '/' if rng.random() < 0.93 else rng.choice(['', '//', 'x'])
    return {'op': 'sp', 'path': lead + '/'.join(segs) + trail, 'min': mn, 'max': mx, 'rest': rest}

PRINTABLE = [chr(c) for c in range(32, 127)]
ITEM_HOT = [',', '"', '\\', ' ', 't', 'n', 'f', 'r', 'x', 'u', '0', '3', '2', '4', '7', 'a', 'F']

def rand_item(rng, allow_empty=False):
    n = rng.choice([1, 1, 2, 2, 3, 4, 6]) if not (allow_empty and rng.random() < 0.5) else 0
    r = rng.random()
    if r < 0.25: pool = [',', '"', '\\', ' ']
    elif r < 0.65: pool = ITEM_HOT
    else: pool = PRINTABLE
    return ''.join(rng.choice(pool) for _ in range(n))

RAW_ALPHA = ['"', '"', '\\', '\\', ',', ',', ' ', ' ', 'a', 'b', 't', 'n', 'x', 'u', '0', '3', '2', '4', '7', 'f', 'A',
             '\t', '\n', '\r', '\x0b', '\x0c', '\xa0', 'é', '\x00', '\x85', '~', '!', '\x7f', '\x1f', '😀', '\ud800']

WORD_OK = [c for c in PRINTABLE if c not in ',"\\ ']

def rand_word(rng):
    return ''.join(rng.choice(WORD_OK) for _ in range(rng.randint(1, 4)))

def rand_quoted_body(rng):
    # body of a quoted field without any quote character (escaped or not)
    return ''.join(rng.choice(['a', 'b', ' ', ',', '\\\\', 'z', '1']) for _ in range(rng.randint(0, 4)))

def malformed(rng):
    """(kind, value): strings the property says must be rejected, each with a one-line reason"""
    k = rng.choice(['unbalanced', 'after_close', 'misplaced', 'empty'])
    fields = [rand_word(rng) for _ in range(rng.randint(0, 3))]
    pos = rng.randint(0, len(fields))
    if k == 'unbalanced':
        # exactly one double quote in the whole string: no quoted string can be closed, no Word may contain it
        body = rand_quoted_body(rng)
        f = rng.choice(['"' + body, body + '"' if body.strip() else 'a"', '"'])
    elif k == 'after_close':
        # a complete quoted string directly followed by more text before the delimiter
        body = rand_quoted_body(rng)
        f = '"' + body + '"' + rng.choice(['', ' ']) + rng.choice([rand_word(rng), '"' + rand_quoted_body(rng) + '"'])
    elif k == 'misplaced':
        # a quote inside or at the end of an unquoted word
        w = rand_word(rng)
        f = w + '"' + rng.choice(['', rand_word(rng), rand_word(rng) + '"'])
    else:
        # an empty (or all-blank) unquoted field
        f = rng.choice(['', '', ' ', '  '])
    fields.insert(pos, f)
    sep = rng.choice([',', ',', ', ', ' ,'])
    return k, sep.join(fields)

QBODY = ['a', 'b', 'Z', '1', ' ', ',', "'", '\\\\', '\\"', '\\t', '\\n', '\\f', '\\r', '\\0', '\\03', '\\73', '\\x12', '\\xA2', '\\xg2',
         '\\uB4', '\\u00e9', '\\q', '\\,', '\\ ', 'é', '😀', '\x00', '\x7f', '3', '2', '4', 'x', 'u']
PAD = ['', '', '', ' ', '  ', '\t', '\n', '\r\n', ' \t ']

def structured_raw(rng):
    """mostly well-formed text in the grammar's own terms: words and quoted strings (with every escape form
    pyparsing knows) separated by commas with optional white padding; one random edit in a quarter of the cases"""
    fields = []
    for _ in range(rng.randint(1, 4)):
        if rng.random() < 0.5:
            f = ''.join(rng.choice(WORD_OK + ['\\']) for _ in range(rng.randint(1, 4)))
        else:
            f = '"' + ''.join(rng.choice(QBODY) for _ in range(rng.randint(0, 5))) + '"'
        fields.append(rng.choice(PAD) + f + rng.choice(PAD))
    v = ','.join(fields)
    if rng.random() < 0.25 and v:
        i = rng.randrange(len(v)); r = rng.random()
        c = rng.choice(['"', '\\', ',', ' ', 'a', '\n', '\t'])
        v = v[:i] + (c + v[i:] if r < 0.4 else v[i + 1:] if r < 0.7 else c + v[i + 1:])
    return v

def sbc_cases(rng, n_rt, n_raw, n_mal, n_q):
    for s in ['', ' ', ',', 'a', 'a,b', '"a b","c,d"', '""', '"', '\\', '"\\"', '"\\""', 'a,', ',a', 'a,,b', '"a"b', 'a"b"', ' a , "b" ', '\ta\t,\tb', '"a\tb"',
              '"\\t\\n\\f\\r\\0\\03\\73\\x12\\xA2\\uB4\\q\\\\"', 'a\\b', '"a\nb"', '"a\rb"', '"\\\n"', '"\\\r"', 'é', '"é"', 'a\xa0b', '\x0ca']:
        yield {'op': 'raw', 'v': s}
    for items in [['a'], [','], ['"'], ['\\'], [' '], ['\\t'], ['a b', 'c,d', 'e"f', 'g\\h'], ['\\"', '"\\'], ['""'], ['\\\\'], ['x', 'y', 'z', 'w', 'v'], ['']]:
        yield {'op': 'rt', 'items': items}
    for _ in range(n_rt):
        yield {'op': 'rt', 'items': [rand_item(rng, allow_empty=rng.random() < 0.06) for _ in range(rng.randint(1, 5))]}
    for _ in range(n_raw):
        if rng.random() < 0.6: yield {'op': 'raw', 'v': structured_raw(rng)}
        else: yield {'op': 'raw', 'v': ''.join(rng.choice(RAW_ALPHA) for _ in range(rng.randint(0, 10)))}
    for _ in range(n_mal):
        k, v = malformed(rng)
        yield {'op': 'mal', 'kind': k, 'v': v}
    for _ in range(n_q):
        yield {'op': 'q', 'items': [''.join(rng.choice(RAW_ALPHA[:-1] + PRINTABLE) for _ in range(rng.randint(0, 5))).replace('\x00', '') for _ in range(rng.randint(1, 4))]}

MUTS = ['set_last', 'set_first', 'pop', 'append', 'clear', 'fill_none', 'none']

def fresh_case(rng):
    """a call sequence for the freshness clause: f(x); mutate the returned list in place; other calls (some raising);
    f(x') with equal but not identical arguments -> must equal the first result and be a new object"""
    def one():
        if fn == 'sp':
            c = sp_valid(rng) if rng.random() < 0.8 else sp_random(rng)
            return [c['path'], c['min'], c['max'], c['rest']]
        r = rng.random()
        if r < 0.6: return [join_items([rand_item(rng) for _ in range(rng.randint(1, 4))])]
        if r < 0.8: return [structured_raw(rng)]
        return [malformed(rng)[1]]
    fn = 'sp' if rng.random() < 0.6 else 'sbc'
    return {'op': 'fresh', 'fn': fn, 'x': one(), 'mut': rng.choice(MUTS), 'inter': [one() for _ in range(rng.randint(0, 3))]}

FRESH_FIXED = [
    {'op': 'fresh', 'fn': 'sp', 'x': ['/a/c', 1, 3, False], 'mut': 'fill_none', 'inter': []},
    {'op': 'fresh', 'fn': 'sp', 'x': ['/a/c/o/r', 1, 3, True], 'mut': 'set_last', 'inter': [['a', 1, None, False]]},
    {'op': 'fresh', 'fn': 'sp', 'x': ['/a', 1, None, False], 'mut': 'pop', 'inter': [['/b', 1, None, False], ['//', 1, None, False]]},
    {'op': 'fresh', 'fn': 'sp', 'x': ['/a/b', 2, 4, False], 'mut': 'clear', 'inter': []},
    {'op': 'fresh', 'fn': 'sp', 'x': ['/a/b', 2, 4, False], 'mut': 'append', 'inter': []},
    {'op': 'fresh', 'fn': 'sp', 'x': ['nope', 1, None, False], 'mut': 'none', 'inter': [['/a', 1, None, False]]},
    {'op': 'fresh', 'fn': 'sbc', 'x': ['a,"b c",d'], 'mut': 'set_first', 'inter': [['a,,b']]},
    {'op': 'fresh', 'fn': 'sbc', 'x': ['"a'], 'mut': 'none', 'inter': [['a']]},
    {'op': 'fresh', 'fn': 'sbc', 'x': ['x'], 'mut': 'clear', 'inter': []},
]

def gen_cases(rng, tier):
    quick = tier == 'quick'
    for p in ['', '/', '//', '/a', '/a/', '/a//', 'a', 'a/', '/a/c', '/a/c/o/r', '/a/c/o/r/']:
        yield {'op': 'spd', 'path': p}
    yield from sp_exhaustive(3 if quick else 4)
    for _ in range(4000 if quick else 120000):
        yield sp_random(rng)
    for _ in range(3000 if quick else 60000):
        yield sp_valid(rng)
    for _ in range(200 if quick else 3000):
        r = rng.random()
        if r < 0.5: yield {'op': 'spd', 'path': rng.choice(['/', '/', '/', '', '//']) + rng.choice(SEGS_WIDE) + rng.choice(['', '', '/', '//'])}
        else: yield {'op': 'spd', 'path': (sp_random(rng) if r < 0.7 else sp_valid(rng))['path']}
    yield from FRESH_FIXED
    for _ in range(600 if quick else 20000):
        yield fresh_case(rng)
    if quick: yield from sbc_cases(rng, 1500, 1500, 600, 300)
    else: yield from sbc_cases(rng, 40000, 40000, 12000, 3000)

# ---------------------------------------------------------------- implementation / model / oracle

def _value(c):
    return join_items(c['items']) if c['op'] == 'rt' else c['v']

def _rebuild(a):
    """equal but not identical arguments"""
    out = []
    for v in a:
        if isinstance(v, str): v = ''.join([ch for ch in v] + [''])
        elif isinstance(v, bool): pass
        elif isinstance(v, int): v = int(str(v))
        out.append(v)
    return out

def _mutate(r, how):
    if how == 'set_last' and r: r[-1] = 'MUTATED'
    elif how == 'set_first' and r: r[0] = 'MUTATED'
    elif how == 'pop' and r: r.pop()
    elif how == 'append': r.append('MUTATED')
    elif how == 'clear': r.clear()
    elif how == 'fill_none':
        for i, v in enumerate(r):
            if v is None: r[i] = 'FILLED'
        if None not in r: r.append('FILLED')
    elif how != 'none': r.append(None)

def _fresh(c):
    """the freshness clause: every call computes its result from its arguments alone and hands out a new list"""
    su = _su()
    f = su.split_path if c['fn'] == 'sp' else su.split_by_commas
    name = 'split_path' if c['fn'] == 'sp' else 'split_by_commas'
    def call(a):
        try: return 'ok', f(*_rebuild(a))
        except Exception as e: return 'exn', _exn(e)
    k1, r1 = call(c['x'])
    if k1 == 'exn' and r1 != 'EXN:ValueError': return 'FRESH-OK'    # judged by the other clauses
    snap = list(r1) if k1 == 'ok' else r1
    handed = []
    if k1 == 'ok':
        if not isinstance(r1, list): return '%s%r returned %s, not a list' % (name, tuple(c['x']), type(r1).__name__)
        handed.append(r1); _mutate(r1, c['mut'])
    for rnd in range(2):
        for y in c['inter']:
            ky, ry = call(y)
            if ky == 'ok' and isinstance(ry, list): _mutate(ry, c['mut'])
        k2, r2 = call(c['x'])
        if k1 == 'exn':
            if (k2, r2) != (k1, r1):
                return 'call %d of %s%r gives %r, the first call raised ValueError (interleaved calls: %r)' % (rnd + 2, name, tuple(c['x']), r2, c['inter'])
            continue
        if k2 != 'ok' or list(r2) != snap:
            return ('call %d of %s%r gives %r but the first call gave %r (the list returned earlier was modified in place by the caller: %s; interleaved calls: %r)'
                    % (rnd + 2, name, tuple(c['x']), r2, snap, c['mut'], c['inter']))
        if any(r2 is h for h in handed):
            return 'call %d of %s%r returned the very list object handed out by an earlier call' % (rnd + 2, name, tuple(c['x']))
        handed.append(r2); _mutate(r2, c['mut'])
    return 'FRESH-OK'

def impl(c):
    su = _su()
    op = c['op']
    if op == 'fresh': return _fresh(c)
    try:
        if op == 'sp': return canon_list(su.split_path(c['path'], c['min'], c['max'], c['rest']))
        if op == 'spd': return canon_list(su.split_path(c['path']))
        if op in ('rt', 'raw', 'mal'): return canon_list(su.split_by_commas(_value(c)))
        if op == 'q': return join_items(c['items'])
    except Exception as e:
        return _exn(e)
    raise KeyError(op)

def encode(c):
    op = c['op']
    if op == 'sp': return ['sp', c['path'], str(c['min']), 'None' if c['max'] is None else str(c['max']), '1' if c['rest'] else '0']
    if op == 'spd': return ['spd', c['path']]
    if op in ('rt', 'raw', 'mal'): return ['sbc', _value(c)]
    if op == 'q': return ['quote', '\x00'.join(c['items'])]
    return None

def oracle(c, io):
    op = c['op']
    if io.startswith('HARNESS-ERROR'): return io
    if op in ('sp', 'spd'):
        mn, mx, rest = (c['min'], c['max'], c['rest']) if op == 'sp' else (1, None, False)
        if io.startswith('EXN:') and io != 'EXN:ValueError':
            return 'split_path(%r, %r, %r, %r) raised %s' % (c['path'], mn, mx, rest, io[4:])
        if mn >= 1:
            want = decl_split_path(c['path'], mn, mx, rest)
            want = 'EXN:ValueError' if want == 'VE' else canon_list(want)
            if mx == 0 and mx is not None and io == 'EXN:ValueError':
                return None     # maxsegs=0: the code reads it as "not given"; "minsegs > maxsegs -> ValueError" read literally is also within the statement
            if io != want:
                return 'split_path(%r, %r, %r, %r) gives %s, the contract says %s' % (c['path'], mn, mx, rest, io, want)
            if want != 'EXN:ValueError' and io.count('|') != (mx if mx else mn):
                return 'split_path(%r, %r, %r, %r): not exactly maxsegs entries: %s' % (c['path'], mn, mx, rest, io)
        return None
    if op == 'q': return None
    if op == 'fresh': return None if io == 'FRESH-OK' else io
    if io.startswith('EXN:') and io != 'EXN:ValueError':
        return 'split_by_commas(%r) raised %s' % (_value(c), io[4:])
    if op == 'rt':
        items = c['items']
        if all(32 <= ord(ch) <= 126 for it in items for ch in it):
            if all(items):
                if io != canon_list(items):
                    return 'split_by_commas(%r) gives %s, expected the items %r' % (_value(c), io, items)
            elif io != 'EXN:ValueError':
                return 'empty unquoted item accepted: split_by_commas(%r) gives %s' % (_value(c), io)
    elif op == 'mal':
        if io != 'EXN:ValueError':
            return '%s quoting accepted: split_by_commas(%r) gives %s' % (c['kind'], c['v'], io)
    return None

def classify(c, io):
    op = c['op']
    if op == 'mal': op += ':' + c['kind']
    if op == 'sp': op += ':rest' if c['rest'] else ':norest'
    if op == 'fresh': return 'fresh:%s:%s' % (c['fn'], c['mut'])
    return op + (':exn' if io.startswith('EXN') else '')

def extra_checks(rng, tier):
    """thorough: the declarative reading against the implementation on every path of <= 6 segments (model-free)"""
    if tier == 'quick': return
    su = _su()
    for c in sp_exhaustive(6):
        if c['path'].count('/') < 4: continue      # <= 4 segments already went through gen_cases
        yield 'split_path_exhaustive6', c, oracle(c, impl(c))

def search(rng, budget):
    yield from FRESH_FIXED
    yield from sp_exhaustive(4)
    n = 0
    while n < budget:
        yield sp_random(rng); yield sp_valid(rng); n += 2
        if n % 4 == 0:
            yield fresh_case(rng)
            yield {'op': 'raw', 'v': structured_raw(rng)}
            yield {'op': 'rt', 'items': [rand_item(rng, allow_empty=rng.random() < 0.06) for _ in range(rng.randint(1, 5))]}
            yield {'op': 'raw', 'v': ''.join(rng.choice(RAW_ALPHA) for _ in range(rng.randint(0, 10)))}
            k, v = malformed(rng)
            yield {'op': 'mal', 'kind': k, 'v': v}

LEVEL_TEXT = ('split_path: theorem for all strings over all code points, all minsegs >= 1, all maxsegs (None, 0, negative, any size) and both modes: '
              'Ok result <-> the declarative conditions, result = leading segments padded with None to exactly maxsegs entries, everything else '
              'ValueError; the function body is translated statement by statement on every run and proved equal to the model (no IndexError possible). '
              'split_by_commas: character-level model of the pyparsing grammar (arguments regenerated), round-trip theorem for every non-empty list '
              'of items over the exact alphabet where it holds, rejection theorems for unbalanced quotes, text after a closing quote, quotes inside '
              'words and empty unquoted items; the model is tied to pyparsing by correspondence only.')
LEVEL_NOTE = ('Trusted: Coq kernel; translator (py2gal extended in tools/gen/gen_C19.py; AST shape checks for the grammar); CPython str/list semantics '
              'as modelled; pyparsing internals as modelled (correspondence on generated inputs). Closed under the global context (no axioms).')
