"""C04 — mask_password hides every supported secret and changes nothing else (oslo_utils/strutils.py)

Cases (all through the real function and the extracted Coq model):
  op=mask, 'segs'   a message assembled from the rendering grammar: neutral text and renderings
                    [head, value, tail]; the ORACLE demands out == the same message with every value
                    replaced by the mask (so: no secret survives, no other character changes) and
                    mask(out) == out.  This is the property text, nothing more.
  op=mask, 'msg'    free text / fuzz: the oracle only demands "no sanitize key in lower(msg) => unchanged".
  op=search/sub     engine validation: one compiled pattern of the module on a subject (span, groups, sub result).
  op=zone           the K12 zone predicate of the plugin against the one of the Coq model.
"""
import re, json
import gen_C04

ID = 'C04'
GEN = [('Gen/C04_Sanitize.v', gen_C04.generate), ('Gen/C04_Concrete.v', gen_C04.generate_concrete)]
EQUIV_FILES = ['Proofs/C04.v']
EXTRACT = 'Extract/C04_x.v'

# ---------------------------------------------------------------- the specification side (written from the
# property text and the module documentation, NOT read from /repo)

SPEC_KEYS = ['adminpass', 'admin_pass', 'password', 'admin_password', 'auth_token', 'new_pass', 'auth_password',
             'secret_uuid', 'secret', 'sys_pswd', 'token', 'configdrive', 'chappassword', 'encrypted_key',
             'private_key', 'fernetkey', 'sslkey', 'passphrase', 'cephclusterfsid', 'octaviaheartbeatkey',
             'rabbitcookie', 'cephmanilaclientkey', 'pacemakerremoteauthkey', 'designaterndckey', 'cephadminkey',
             'heatauthencryptionkey', 'cephclientkey', 'keystonecredential', 'barbicansimplecryptokek', 'cephrgwkey',
             'swifthashsuffix', 'migrationsshkey', 'cephmdskey', 'cephmonkey', 'chapsecret']
assert len(SPEC_KEYS) == 35

# K12: the wildcard pattern as it stands in the pinned source (hand copy; the zone must not follow a mutated /repo)
_WILD = r'([\'\"][^\"\']*%(key)s[0-9]*[\'\"]\s*:\s*u?[\'\"].*[\'\"])[^\"\']*([\'\"])'
_WILD_RX = {k: re.compile(_WILD % {'key': k}, re.DOTALL | re.IGNORECASE) for k in SPEC_KEYS}

def zone_K12(msg):
    low = msg.lower()
    return any(k in low and _WILD_RX[k].search(msg) is not None for k in SPEC_KEYS)

# K14 (found by this property's oracle): `--K value` where an EARLIER key k1 of the list is a proper suffix of K
# (password < admin_password/auth_password/chappassword, secret < chapsecret) and the value looks like a flag
# (--?[A-z]+) and is followed by whitespace and another word: k1's `key --flag value` pattern takes the value for
# the flag and masks the NEXT word as well.
_K14_PAIRS = [(k1, k2) for i, k1 in enumerate(SPEC_KEYS) for k2 in SPEC_KEYS[i + 1:] if k2 != k1 and k2.endswith(k1)]
_K14_RX = [re.compile(r'[-]{2}' + k2 + r'[0-9]*\s+--?[A-z]+\s+\S', re.DOTALL | re.IGNORECASE) for _, k2 in _K14_PAIRS]

def zone_K14(msg):
    return any(rx.search(msg) is not None for rx in _K14_RX)

def _su():
    from oslo_utils import strutils
    return strutils

# ---------------------------------------------------------------- generators

ASCII_PRINT = [chr(x) for x in range(33, 127)]
NONASCII = ['é', 'ß', 'Ω', 'ж', '漢', 'K', 'ſ', 'İ', 'ı', '😀', 'à', '¿', '€', '٠', '\U00010400']
SPACES_IN = [' ', '  ', '\t']
QUOTES = '"\''

def vclass(kind):
    """characters a value of this rendering may consist of (printable; property quantifier)"""
    base = [c for c in ASCII_PRINT if c not in QUOTES] + NONASCII
    if kind == 'bare': return base
    if kind == 'dd': return [c for c in base if c != '=']
    if kind == 'q': return base + [' ']                       # quoted: spaces too
    if kind == 'dq': return base + [' ', "'"]                  # k = "v": v may hold the other quote
    if kind == 'sq': return base + [' ', '"']
    if kind == 'xml': return [c for c in base if c != '<'] + [' ', '"', "'"]
    if kind == 'cmd2': return base                              # \S+ would also take quotes; the property says non-quote
    raise KeyError(kind)

UNI_WS = ['\u00a0', '\u2003', '\u3000', '\u0085', '\x1c', '\x1d', '\x1e', '\x1f', '\u2028']   # \s for re (str patterns) and str.isspace()
FLAGS = ['--osuser', '-p', '--flag', '--x', '-P', '--Key_file', '--a', '-Z', '--a_b']

def casing(rng, key, how):
    if how == 4:       # KELVIN SIGN for k/K: 'TO\u212aEN'.lower() == 'token'
        base = casing(rng, key, rng.randrange(4))
        return ''.join('\u212a' if c in 'kK' and rng.random() < 0.7 else c for c in base)
    if how == 0: return key
    if how == 1: return key.upper()
    if how == 2: return key[0].upper() + key[1:]
    return ''.join(c.upper() if rng.random() < 0.5 else c for c in key)

def digits(rng, how):
    if how == 3 or rng.random() < 0.15: return rng.choice(['1', '2', '07', '123', '0', '99'])
    return ''

RENDERINGS = ['bare', 'bare_sp', 'eq_dq', 'eq_sq', 'eq_dq_oq', 'eq_sq_oq', 'kq', 'dd', 'xml', 'json_dq', 'json_sq', 'json_u', 'json_pre', 'cmd1', 'cmd2']

def rendering(rng, r, K, v_of):
    """returns [head, value, tail]; v_of(kind) draws a value of the class"""
    sp = lambda: rng.choice(['', ' ', '  ', '\t']) if rng.random() < 0.85 else rng.choice(UNI_WS) * rng.choice([1, 1, 2])
    sp1 = lambda: rng.choice([' ', '  ', '\t']) if rng.random() < 0.85 else rng.choice(UNI_WS) * rng.choice([1, 1, 2])
    if r == 'bare': return [K + '=', v_of('bare'), '']
    if r == 'bare_sp': return [K + sp() + '=' + sp(), v_of('bare'), '']
    if r == 'eq_dq': return [K + sp() + '=' + sp() + '"', v_of('q'), '"']
    if r == 'eq_sq': return [K + sp() + '=' + sp() + "'", v_of('q'), "'"]
    if r == 'eq_dq_oq': return [K + sp() + '=' + sp() + '"', v_of('dq'), '"']
    if r == 'eq_sq_oq': return [K + sp() + '=' + sp() + "'", v_of('sq'), "'"]
    if r == 'kq':
        q = rng.choice(QUOTES); return [K + sp1() + q, v_of('q'), q]
    if r == 'dd': return ['--' + K + sp1(), v_of('dd'), '']
    if r == 'xml': return ['<' + K + '>', v_of('xml'), '</' + K + '>']
    if r == 'json_dq': return ['"' + K + '"' + sp() + ':' + sp() + '"', v_of('q'), '"']
    if r == 'json_sq': return ["'" + K + "'" + sp() + ':' + sp() + "'", v_of('q'), "'"]
    if r == 'json_u':
        q = rng.choice(QUOTES); return [q + K + q + sp() + ':' + sp() + 'u' + q, v_of('q'), q]
    if r == 'json_pre':
        q = rng.choice(QUOTES); return [q + rng.choice(['original_', 'os_', 'x-', 'my ']) + K + q + sp() + ':' + sp() + rng.choice(['', 'u']) + q, v_of('q'), q]
    if r == 'cmd1':
        q = rng.choice(QUOTES); return [q + K + q + sp() + ',' + sp() + "'" + rng.choice(FLAGS) + "'" + sp() + ',' + sp() + rng.choice(['', 'u']) + q, v_of('q'), q]
    if r == 'cmd2': return [K + sp() + rng.choice(FLAGS) + sp1(), v_of('cmd2'), '']
    raise KeyError(r)

NEUTRAL = ['user', 'bob', 'id', '42', 'GET', '/v2/servers', 'status', 'ok', 'x1', 'run', 'nova', 'boot', 'image', 'cirros', 'REQ', 'curl',
           'http://h:5000/v3', 'é', '漢字', 'done.', 'n', '(a)', '[1]', '{}', 'a-b', 'A_B', '100%', 'x;y', 'the', 'and']

def has_key(s):
    low = s.lower()
    return any(k in low for k in SPEC_KEYS)

def neutral(rng, n):
    return ' '.join(rng.choice(NEUTRAL) for _ in range(n))

def draw_value(rng, kind, special=None, maxlen=8):
    pool = vclass(kind)
    while True:
        n = rng.choice([1, 1, 2, 3, 4, 6, maxlen, rng.randint(1, 40)])
        v = ''.join(rng.choice(pool) if rng.random() < 0.6 else rng.choice('abcxyzABC0123') for _ in range(n))
        if special is not None:
            i = rng.randint(0, len(v))
            v = v[:i] + special + v[i:]
        if kind in ('q', 'dq', 'sq', 'xml') and v.strip() != v and rng.random() < 0.5: v = v.strip() or 'a'
        if not has_key(v): return v

MASKS = ['***', '***', '***', '***', '?', 'XXXX', '#', '%s', '[masked]', '*', '0']

def mk_case(rng, items, secret=None, pre=None, post=None):
    """items: list of [head, value, tail]; neutral words between, before and after"""
    segs = []
    pre = neutral(rng, rng.randint(0, 3)) if pre is None else pre
    ws = lambda: rng.choice([' ', '\n', '\t', '  ']) if rng.random() < 0.85 else rng.choice(UNI_WS)
    if pre: segs.append(pre + ws())
    for i, it in enumerate(items):
        if i:
            mid = neutral(rng, rng.randint(0, 2))
            segs.append(ws() + (mid + ws() if mid else ''))
        segs.append(it)
    post = neutral(rng, rng.randint(0, 3)) if post is None else post
    if post: segs.append((rng.choice([' ', '\n', '  ']) if rng.random() < 0.85 else rng.choice(UNI_WS)) + post)
    return {'op': 'mask', 'segs': segs, 'secret': secret if secret is not None else rng.choice(MASKS)}

def case_msg(c):
    if 'msg' in c: return c['msg']
    return ''.join(s if isinstance(s, str) else ''.join(s) for s in c['segs'])

def case_expected(c):
    return ''.join(s if isinstance(s, str) else s[0] + c['secret'] + s[2] for s in c['segs'])

FUZZ_TOK = ['=', ' = ', ':', ' : ', '"', "'", 'u', '--', '-', '<', '>', '</', ',', ' ', '  ', '\n', '\t', '0', '12', 'x', 'abc', "u'", "'--flag'", '--os',
            '{', '}', '***', 'é', 'K', 'ſ', 'İ', 'ı', ' ', ' ', '\x1f', '^', '\\', '$', '.*', '(', ')', '[', ']', 'ſecret', 'toKen',
            'passwİrd', 'PASSWORD', 'Token', 'auth', '_', 'pass', 'key', 'secre', 'oken', 'tok']

def fuzz_msg(rng, maxtok=30):
    out = []
    for _ in range(rng.randint(1, maxtok)):
        r = rng.random()
        if r < 0.25: out.append(casing(rng, rng.choice(SPEC_KEYS), rng.randrange(4)))
        elif r < 0.9: out.append(rng.choice(FUZZ_TOK))
        else: out.append(chr(rng.choice([rng.randint(32, 126), rng.randint(128, 0x2fff), rng.randint(0x10000, 0x10ffff)])))
    return ''.join(out)

def free_text(rng):
    words = []
    for _ in range(rng.randint(0, 12)):
        r = rng.random()
        if r < 0.6: words.append(rng.choice(NEUTRAL))
        elif r < 0.8:
            k = rng.choice(SPEC_KEYS); i = rng.randrange(len(k))
            words.append(rng.choice([k[:i] + k[i + 1:], k[:i] + ' ' + k[i:], k[:i] + rng.choice('xq-.') + k[i + 1:], k[:-1], k[1:],
                                     k.replace('s', 'ſ', 1), k.replace('i', 'İ', 1), k.replace('i', 'ı', 1)]) + rng.choice(['', '=abc', ' = "x"', ": 'v'"]))
        else: words.append(''.join(rng.choice(ASCII_PRINT + NONASCII + [' ']) for _ in range(rng.randint(1, 10))))
    return rng.choice(['', ' ', '\n']).join(words) if rng.random() < 0.2 else ' '.join(words)

def systematic(rng, tier):
    # every key x every rendering x every casing kind (digit suffix with casing kind 3)
    for k in SPEC_KEYS:
        for r in RENDERINGS:
            for how in range(4):
                if tier == 'quick' and how in (1, 2) and rng.random() < 0.5: continue
                K = casing(rng, k, how) + digits(rng, how)
                yield mk_case(rng, [rendering(rng, r, K, lambda kind: draw_value(rng, kind))])
    # every rendering x every printable ASCII character of its class (and the non-ASCII pool) at start / middle / end
    for r in RENDERINGS:
        kinds = []
        rendering(rng, r, 'password', lambda kind: kinds.append(kind) or 'v')
        for ch in vclass(kinds[0]):
            for pos in range(3):
                k = rng.choice(SPEC_KEYS)
                K = casing(rng, k, rng.randrange(4))
                v = [ch + 'ab', 'a' + ch + 'b', 'ab' + ch][pos]
                if has_key(v): continue
                yield mk_case(rng, [rendering(rng, r, K, lambda kind: v)], secret='***')
    # lengths 1..40
    for n in range(1, 41):
        r = rng.choice(RENDERINGS); k = rng.choice(SPEC_KEYS)
        def vn(kind, n=n):
            v = ''.join(rng.choice([c for c in vclass(kind) if c != ' ']) for _ in range(n))
            return v if not has_key(v) else 'z' * n
        yield mk_case(rng, [rendering(rng, r, k, vn)])

def many_secrets(rng, n_cases):
    """3..6 secrets in one message: same key + same rendering, same key + different renderings, different keys
    (a substitution that stops after a fixed number of matches leaves the later ones in clear text)"""
    for i in range(n_cases):
        n = rng.randint(3, 6)
        mode = i % 3
        k0 = rng.choice(SPEC_KEYS); r0 = rng.choice(RENDERINGS); how0 = rng.randrange(4)
        items = []
        for _ in range(n):
            if mode == 0: k, r, how = k0, r0, how0
            elif mode == 1: k, r, how = k0, rng.choice(RENDERINGS), rng.randrange(4)
            else: k, r, how = rng.choice(SPEC_KEYS), rng.choice(RENDERINGS), rng.randrange(4)
            K = casing(rng, k, how) + (digits(rng, how) if mode else '')
            items.append(rendering(rng, r, K, lambda kind: draw_value(rng, kind)))
        yield mk_case(rng, items)

def many_systematic(rng):
    # every rendering, 4 secrets under the same key and rendering (a few keys per rendering)
    for r in RENDERINGS:
        for k in rng.sample(SPEC_KEYS, 3):
            K = casing(rng, k, rng.randrange(3))
            yield mk_case(rng, [rendering(rng, r, K, lambda kind: draw_value(rng, kind, maxlen=4)) for _ in range(4)], secret='***')

def overlap_texts():
    """key texts that are the overlap / concatenation of two sanitize keys and END in a key: new_pass+password ->
    new_password, adminpass+passphrase -> adminpassphrase, token+password -> tokenpassword (the last key is the one rendered)"""
    out = []
    for k1 in SPEC_KEYS:
        for k2 in SPEC_KEYS:
            if k1 == k2: continue
            for n in range(1, min(len(k1), len(k2))):
                if k1.endswith(k2[:n]): out.append(k1 + k2[n:])
            out.append(k1 + k2)
    seen = set(); res = []
    for t in out:
        if t not in seen and t not in SPEC_KEYS: seen.add(t); res.append(t)
    return res

KEYED_AT_END = ['bare', 'bare_sp', 'eq_dq', 'eq_sq', 'kq', 'cmd2', 'json_dq', 'json_sq', 'json_u', 'cmd1']   # renderings that tolerate text before the key

def overlap_cases(rng, n_cases):
    texts = overlap_texts()
    for i in range(n_cases):
        t = texts[i % len(texts)] if i < 2 * len(texts) else rng.choice(texts)
        how = rng.randrange(3)
        yield mk_case(rng, [rendering(rng, rng.choice(KEYED_AT_END), casing(rng, t, how), lambda kind: draw_value(rng, kind))])

def unicode_ws_cases(rng, n_cases):
    """non-ASCII white space next to key / separator / value; keys spelt with the KELVIN SIGN (a casing in the sense of str.lower())"""
    for i in range(n_cases):
        k = rng.choice([x for x in SPEC_KEYS if 'k' in x]) if i % 3 == 0 else rng.choice(SPEC_KEYS)
        K = casing(rng, k, 4 if i % 3 == 0 else rng.randrange(4))
        r = rng.choice(RENDERINGS)
        w = rng.choice(UNI_WS)
        it = rendering(rng, r, K, lambda kind: draw_value(rng, kind))
        # force the special white space where the rendering has optional / required white space
        if r in ('bare_sp', 'eq_dq', 'eq_sq', 'eq_dq_oq', 'eq_sq_oq'): it[0] = it[0].replace('=', w + '=' + w, 1) if rng.random() < 0.5 else it[0]
        if r == 'kq': it[0] = K + w + it[0][-1]
        if r == 'dd': it[0] = '--' + K + w
        c = mk_case(rng, [it], post=neutral(rng, rng.randint(1, 3)))
        # the separator after the rendering is the special white space
        c['segs'] = [s if isinstance(s, list) else s for s in c['segs']]
        if isinstance(c['segs'][-1], str) and len(c['segs']) >= 2 and isinstance(c['segs'][-2], list):
            c['segs'][-1] = w + c['segs'][-1].lstrip(' \n\t' + ''.join(UNI_WS))
        yield c

LONG_NEUTRAL = ['\u0130\u0130', '\u0130x\u0130', 'Traceback', '(most', 'recent', 'call', 'last):', 'line', '42,', 'in', 'handle']

def multiline_cases(rng, n_cases):
    """two or more DIFFERENT keys on different lines, the earlier-listed key first, its secret longer / shorter than the mask;
    characters whose lower() changes length (U+0130) before the keys"""
    for i in range(n_cases):
        n = rng.choice([2, 2, 3])
        idx = sorted(rng.sample(range(len(SPEC_KEYS)), n))
        if i % 4 == 3: idx.reverse()
        lines = []
        for j, ki in enumerate(idx):
            k = SPEC_KEYS[ki]; how = rng.randrange(4)
            ln = rng.choice([1, 2, 30, 60]) if j == 0 else rng.choice([1, 3, 8])
            it = rendering(rng, rng.choice([r for r in RENDERINGS if not r.startswith('json') and r != 'cmd1']), casing(rng, k, how) + digits(rng, how),
                           lambda kind: draw_value(rng, kind, maxlen=ln) if ln < 30 else (draw_value(rng, kind, maxlen=8) * 12)[:ln])
            lines.append(it)
        segs = []
        lead = ' '.join(rng.choice(LONG_NEUTRAL) for _ in range(rng.randint(0, 4)))
        if lead: segs.append(lead + rng.choice(['\n', ' ']))
        for j, it in enumerate(lines):
            if j: segs.append('\n' + (' '.join(rng.choice(LONG_NEUTRAL + NEUTRAL) for _ in range(rng.randint(0, 2))) + ' ' if rng.random() < 0.5 else ''))
            segs.append(it)
        if rng.random() < 0.5: segs.append('\n' + neutral(rng, 2))
        yield {'op': 'mask', 'segs': segs, 'secret': rng.choice(['***', '***', '?', 'XXXXXXXX'])}

# masks that are empty / white space ("falsy-looking"): the value must still be replaced by exactly that mask.
# With such a mask the masked bare / --k / k --flag forms leave `key=` (resp. the flag) directly followed by white space
# and the next word, which the same pattern reads as a new value: on the unchanged tree a second application (and, for
# key texts containing two keys, the second key's pass) masks that word too.  So for these three forms the idempotence
# clause is not demanded with a weak mask, and nested key texts are skipped; every other form is judged in full.
WEAK_MASKS = ['', '', ' ', '\t', '  ']
UNQUOTED = ('bare', 'bare_sp', 'dd', 'cmd2')

def nested_key_text(K):
    low = K.lower()
    return sum(1 for k in SPEC_KEYS if k in low) > 1

def weak_mask_cases(rng, n_cases):
    i = 0
    while i < n_cases:
        r = RENDERINGS[i % len(RENDERINGS)] if i < 4 * len(RENDERINGS) else rng.choice(RENDERINGS)
        k = rng.choice(SPEC_KEYS); how = rng.randrange(4)
        K = casing(rng, k, how) + digits(rng, how)
        i += 1
        if r in UNQUOTED and nested_key_text(K): continue
        c = mk_case(rng, [rendering(rng, r, K, lambda kind: draw_value(rng, kind))], secret=rng.choice(WEAK_MASKS))
        c['r'] = r
        yield c
    for r in RENDERINGS:            # the default mask, not passed at all
        c = mk_case(rng, [rendering(rng, r, rng.choice(['password', 'Token', 'SSLKEY']), lambda kind: draw_value(rng, kind))], secret='***')
        c['default_secret'] = True
        yield c

def gen_cases(rng, tier):
    yield from systematic(rng, tier)
    yield from weak_mask_cases(rng, 600 if tier == 'quick' else 6000)
    yield from overlap_cases(rng, 700 if tier == 'quick' else 6000)
    yield from unicode_ws_cases(rng, 500 if tier == 'quick' else 6000)
    yield from multiline_cases(rng, 500 if tier == 'quick' else 6000)
    yield from many_systematic(rng)
    scale = 1 if tier == 'quick' else 25
    yield from many_secrets(rng, 600 * scale)
    for _ in range(1500 * scale):          # random single and multiple secrets
        n = rng.choice([1, 1, 2, 2, 3])
        items = []
        for _ in range(n):
            k = rng.choice(SPEC_KEYS); how = rng.randrange(4)
            items.append(rendering(rng, rng.choice(RENDERINGS), casing(rng, k, how) + digits(rng, how), lambda kind: draw_value(rng, kind)))
        yield mk_case(rng, items)
    for _ in range(600 * scale):
        yield {'op': 'mask', 'msg': free_text(rng), 'secret': rng.choice(MASKS), 'kind': 'free'}
    for _ in range(1200 * scale):
        yield {'op': 'mask', 'msg': fuzz_msg(rng), 'secret': rng.choice(MASKS), 'kind': 'fuzz'}
    for _ in range(1500 * scale):          # engine validation
        i = rng.randrange(len(SPEC_KEYS)); j = rng.randrange(12)
        if rng.random() < 0.6:
            k = SPEC_KEYS[i]; how = rng.randrange(4)
            subj = case_msg(mk_case(rng, [rendering(rng, rng.choice(RENDERINGS), casing(rng, k, how) + digits(rng, how), lambda kind: draw_value(rng, kind))
                                           for _ in range(rng.choice([1, 2]))]))
        else:
            subj = fuzz_msg(rng, 20)
        yield {'op': rng.choice(['search', 'sub']), 'i': i, 'j': j, 's': subj, 'secret': rng.choice(MASKS)}
    for _ in range(500 * scale):
        if rng.random() < 0.5: m = fuzz_msg(rng)
        elif rng.random() < 0.3:
            k = rng.choice(['admin_password', 'auth_password', 'chappassword', 'chapsecret', 'password', 'auth_token'])
            m = rng.choice(['', 'x ']) + '--' + casing(rng, k, rng.randrange(4)) + rng.choice(['', '1']) + rng.choice([' ', '  ', '\t']) + \
                rng.choice(['-', '--']) + rng.choice(['a', 'ab', 'Z_', 'a1', '']) + rng.choice([' ', '', '\n']) + rng.choice(['next', '', "'q'"])
        else:
            m = case_msg(mk_case(rng, [rendering(rng, rng.choice(['json_dq', 'json_sq', 'json_u', 'json_pre', 'cmd1', 'eq_dq']), rng.choice(SPEC_KEYS), lambda kind: draw_value(rng, kind))
                                        for _ in range(rng.choice([1, 2, 2]))]))
        yield {'op': 'zone', 'msg': m}

# ---------------------------------------------------------------- implementation / model

def _pattern(su, i, j):
    keys = list(su._SANITIZE_KEYS)
    if i >= len(keys): return None
    k = keys[i]
    lst = list(su._SANITIZE_PATTERNS_2[k]) + list(su._SANITIZE_PATTERNS_1[k]) + list(su._SANITIZE_PATTERNS_WILDCARD[k])
    return lst[j] if j < len(lst) else None

def _tmpl(j, secret):
    if j < 10: return r'\g<1>' + secret + r'\g<2>'
    if j == 10: return r'\g<1>' + secret
    return r'\g<1>'

def impl(c):
    su = _su()
    op = c['op']
    if op == 'mask':
        try:
            if c.get('default_secret'): return su.mask_password(case_msg(c))
            return su.mask_password(case_msg(c), c['secret'])
        except Exception as e: return 'EXN:' + type(e).__name__
    if op == 'zone':
        return 'K12:%s K14:%s' % (zone_K12(c['msg']), zone_K14(c['msg']))
    rx = _pattern(su, c['i'], c['j'])
    if rx is None: return 'NOPATTERN'
    if op == 'search':
        m = rx.search(c['s'])
        if not m: return 'None'
        out = '%d,%d' % m.span()
        for g in (1, 2):
            out += ';' + ('%d,%d' % m.span(g) if g <= rx.groups and m.span(g) != (-1, -1) else '-')
        return out
    if op == 'sub':
        return rx.sub(_tmpl(c['j'], c['secret']), c['s'])
    raise KeyError(op)

def encode(c):
    op = c['op']
    if op == 'mask':
        if '\\' in c['secret']: return None     # replacement-template escapes are not modelled
        return ['mask', case_msg(c), c['secret']]
    if op == 'zone': return ['zone', c['msg']]
    if op in ('search', 'sub'):
        if '\\' in c['secret']: return None
        return [op, str(c['i']), str(c['j']), c['s'], c['secret']]
    return None

def oracle(c, io):
    if c['op'] != 'mask': return None
    su = _su()
    msg = case_msg(c)
    if io.startswith('EXN:') and not msg.startswith('EXN:'): return 'mask_password raised %s' % io
    if 'segs' in c:
        want = case_expected(c)
        if io != want:
            for s in c['segs']:
                if not isinstance(s, str) and s[1] and s[1] in io and s[1] not in want:
                    return 'secret %r survives: mask_password(%r) = %r' % (s[1], msg, io)
            return 'characters outside the value changed (or the value was not replaced exactly): mask_password(%r) = %r, expected %r' % (msg, io, want)
        if (c['secret'] == '' or c['secret'].isspace()) and c.get('r') in UNQUOTED:
            return None      # idempotence not demanded: see WEAK_MASKS
        again = su.mask_password(io, c['secret'])
        if again != io:
            return 'masking the masked message changes it: %r -> %r -> %r' % (msg, io, again)
        return None
    if not has_key(msg) and io != msg:
        return 'message without a sanitize key was changed: %r -> %r' % (msg, io)
    return None

def zone(c):
    if c.get('op') != 'mask': return None
    m = case_msg(c)
    if zone_K12(m): return 'K12'
    if zone_K14(m): return 'K14'
    return None

def classify(c, io):
    if c['op'] == 'mask':
        if 'segs' in c:
            n = sum(1 for s in c['segs'] if not isinstance(s, str))
            return 'mask:grammar:%d-secret%s' % (n, ':K12zone' if zone_K12(case_msg(c)) else '')
        return 'mask:' + c.get('kind', 'msg') + (':nokey' if not has_key(c['msg']) else '')
    return c['op']

def trivial(c, io):
    return c['op'] == 'mask' and io == case_msg(c) and 'segs' not in c and not has_key(case_msg(c)) and len(case_msg(c)) < 2

def search(rng, budget):
    n = 0
    while n < budget:
        for c in systematic(rng, 'thorough'):
            n += 1
            yield c
        for _ in range(2000):
            items = []
            for _ in range(rng.choice([1, 2, 3])):
                k = rng.choice(SPEC_KEYS); how = rng.randrange(4)
                items.append(rendering(rng, rng.choice(RENDERINGS), casing(rng, k, how) + digits(rng, how), lambda kind: draw_value(rng, kind)))
            n += 1
            yield mk_case(rng, items)
        for c in many_systematic(rng):
            n += 1
            yield c
        for g in (weak_mask_cases(rng, 1500), overlap_cases(rng, 3000), unicode_ws_cases(rng, 1500), multiline_cases(rng, 1500)):
            for c in g:
                n += 1
                yield c
        for c in many_secrets(rng, 600):
            n += 1
            yield c
        for _ in range(500):
            n += 1
            yield {'op': 'mask', 'msg': free_text(rng), 'secret': '***', 'kind': 'free'}

RULE = ('systematic: 35 keys x 15 rendering variants x {lower, UPPER, Capitalised, random-case+digits}; every rendering x every printable ASCII '
        'character of its value class and a non-ASCII pool at start/middle/end; lengths 1..40; random 1-3 secrets per message in neutral text; 3-6 secrets per message (same key+rendering / same key / mixed); key texts that overlap/concatenate two keys; non-ASCII white space and KELVIN-SIGN casings; multi-line messages with different keys and U+0130 before them; '
        'free text with near-miss keys; token fuzz; engine validation (pattern x subject); zone predicate. distinct = distinct case JSON; '
        'trivial = keyless message shorter than 2 characters')
TRUSTED = ['CPython re semantics as modelled in Base/Regex.v (validated per run against re on the module\'s own compiled patterns)',
           'str.lower() table of Gen/Unicode.v (final-sigma context rule not modelled: irrelevant to ASCII keys)',
           'replacement-template processing of re.sub modelled for secrets without a backslash only']
ASSUMPTIONS = ['mask strings: no quote/=/</backslash, containing no sanitize key; empty and white-space masks are judged on every rendering for "exactly the value is replaced", '
               'and for idempotence on all but the bare / --k / k --flag forms (there password=abc def -> password= def -> password= on the unchanged tree)',
               'neutral surrounding text: whitespace-separated words without quotes or sanitize keys',
               'universal whole-function theorems cover one secret per message under the stated side conditions; several secrets per message: bounded + oracle']

def extra_checks(rng, tier):
    """thorough tier: the larger bounded whole-function sweep (Model/C04_Sweep.family_thorough) checked by coqc
    (kernel VM) in shards, outside the default build."""
    if tier != 'thorough': return
    import os, subprocess, resource
    root = os.path.dirname(os.path.dirname(os.path.dirname(os.path.abspath(__file__))))
    coq = os.path.join(root, 'coq'); d = os.path.join(root, 'build', 'C04_thorough')
    os.makedirs(d, exist_ok=True)
    n = 16
    def unlimit():
        try: resource.setrlimit(resource.RLIMIT_STACK, (resource.RLIM_INFINITY, resource.RLIM_INFINITY))
        except Exception: pass
    procs = []
    for i in range(n):
        f = os.path.join(d, 'C04_T%d.v' % i)
        open(f, 'w').write('Require Import OV.Base.Bytes OV.Model.C04 OV.Model.C04_Spec OV.Model.C04_Sweep.\n'
                           'Lemma thorough_shard_%d : forallb check_case (shard %d %d family_thorough) = true.\n'
                           'Proof. vm_compute. reflexivity. Qed.\n' % (i, n, i))
    pending = list(range(n)); running = {}; results = {}
    jobs = int(os.environ.get('VERIF_JOBS', '8'))
    while pending or running:
        while pending and len(running) < jobs:
            i = pending.pop(0)
            running[i] = subprocess.Popen(['timeout', '1500', 'coqc', '-Q', coq, 'OV', os.path.join(d, 'C04_T%d.v' % i)],
                                          stdout=subprocess.PIPE, stderr=subprocess.STDOUT, text=True, preexec_fn=unlimit, cwd=d)
        for i, p in list(running.items()):
            try:
                out, _ = p.communicate(timeout=2)
            except subprocess.TimeoutExpired:
                continue
            results[i] = (p.returncode, out); del running[i]
    for i in range(n):
        rc, out = results[i]
        yield ('coq_thorough_sweep', {'op': 'coq_sweep', 'shard': i, 'of': n},
               None if rc == 0 else 'thorough bounded sweep: shard %d/%d of family_thorough does not check: %s' % (i, n, out.strip()[-300:]))

LEVEL_TEXT = ('Universal theorems (all messages / all keys over [a-z_] / all casings / digit suffixes / all values of the class, any length): '
              'the 35 documented keys are covered by the generated list; a message without a key is unchanged; every substitution only rewrites the text '
              'between its groups (frame); ELEVEN rendering theorems proved generically from the regenerated pattern TEMPLATES (the two backtracking '
              'patterns via language soundness/completeness of the matcher and quote counting). UNIVERSAL WHOLE-FUNCTION theorems for all ten rendering '
              'forms: for every generated key, value, mask and surrounding text without quote/-/</=/> characters, under decidable side conditions '
              '(the key occurs only at the rendered position; no other key in lower(message)), mask_password replaces exactly the value and is idempotent '
              'on the result - proved with a verified abstract "cannot match" checker for the other eleven patterns. Complement: BOUNDED sweeps by kernel '
              'computation (6 248 single-secret messages, 48 four-secret messages). The full statement is refuted by the wildcard pattern (K12) and by K14 '
              '(witness theorems); both zones are decidable predicates on the input, mirrored in the plugin.')
LEVEL_NOTE = ('Partial where stated: multi-secret messages, keys containing another key (6 of 35) and quoted values containing the other quote kind are '
              'covered by bounded sweeps + oracle only. Trusted: Coq kernel/vm_compute; translator gen_C04.py + regex_tr.py (CPython re._parser, classes by '
              'CPython\'s matcher; concrete regexes proved equal to the templates at the keys; AST shape of mask_password and of the compile loop checked); '
              'Base/Regex.v as the model of re (validated each run against the module\'s compiled patterns); str.lower() table; secrets without backslash. '
              'No axioms (all Closed under the global context).')
