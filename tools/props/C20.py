"""C20 — file helpers (oslo_utils/fileutils.py): compute_file_checksum, last_bytes,
write_to_tempfile, ensure_tree, delete_if_exists.

Every case is run on REAL files below a per-run directory /var/tmp/C20run-<pid> (one fresh
sub-directory per case, removed right after the case; the run directory is removed at exit)
and on the extracted model (Model/C20_FS.v: a small file-system model instantiating the
runtime interface).  Fault injection: os.makedirs / the `remove` callable are replaced by a
function raising OSError(errno) for every errno of errno.errorcode (and a few others).
"""
import sys, os, random, errno, hashlib, shutil, tempfile, atexit, itertools
import gen_C20

ID = 'C20'
GEN = [('Gen/C20_Consts.v', gen_C20.generate_consts), ('Gen/C20_Code.v', gen_C20.generate_code)]
EQUIV_FILES = ['Proofs/C20.v']
EXTRACT = 'Extract/C20_x.v'

TRUSTED = [
    'operating system + hashlib enter as an interface (Model/C20_OS.v: runtime) with explicit contracts (Proofs/C20.v: hash_contract, '
    'fs_contract) that are premises of the theorems; each contract clause is tested on the real os/tempfile/hashlib by extra_checks',
    'binary file object (read/seek/tell on a regular file whose content does not change) modelled concretely in Model/C20_OS.v (fobj), '
    'tied by correspondence and by the direct file-object contract test',
    'errno numbers, os.SEEK_*, hashlib algorithm names: tables of the running interpreter (Gen/C20_Consts.v)',
    'translator tools/gen/gen_C20.py (statement-level translation of the five helpers; fail-closed)',
]
ASSUMPTIONS = [
    'the file is not modified while compute_file_checksum / last_bytes read it; no concurrent change of the directory tree',
    'os.write of a non-empty buffer transfers between 1 byte and the whole buffer and appends that prefix (progress clause of fs_contract; '
    'ENOSPC/EINTR-style failures of write are outside the success theorem, they propagate as OSError)',
    'time.sleep(0) (cooperative yield) has no effect on results; closing of the file object by `with` is not observed',
    'paths sent to the model are clean relative paths (no empty, "." or ".." components, no symlinks, no permission faults); the '
    'theorems themselves do not depend on the concrete path model',
]
RULE = ('checksum: chunk sizes {1,2,7,64,4096,65536,>size,default,-1} x sizes k*chunk+{-1,0,1} for k=0..3 x algorithms (all of '
        'hashlib.algorithms_available over the run) + missing file/dir/bad algorithm/chunk 0,-2; last_bytes: sizes {0,1,2,10,4095..4097,70000} x '
        'n in {0,1,size-1,size,size+1,2^40,2^63-1,2^63,2^63+1,-1,-3,random}; ensure_tree/delete_if_exists/write_to_tempfile on real trees: '
        'missing depth 0..4 below existing depth 0..2, existing directory, file at the path, file as an ancestor, random worlds, each run twice '
        '(idempotence); operation SEQUENCES on one file-system state in one process (the five helpers interleaved with harness-side rmtree / mkdir / put-file / chdir with relative paths; oracle per step = behaviour of a fresh process on the current state); environment variation (sys.stdin.encoding utf-8/latin-1/ascii/cp1252/None x contents with all 256 byte values, NULs, invalid UTF-8) for write_to_tempfile/checksum/last_bytes; real short writes (RLIMIT_FSIZE in a subprocess, sizes L-1, L, L+1, 2L+1); class x errno injection (OSError(errno), user subclass, errno assigned later, builtin subclass with a foreign errno); short-write injection into os.write (at most 1, 3, 4096 bytes per call) x sizes around the multiples of the limit; fault injection: every errno of errno.errorcode + {0,133,200,9999} + non-OSError x target {dir,file,missing}; '
        'distinct = distinct case JSON; trivial = none')

RUN_ROOT = None
_counter = itertools.count()

def _root():
    global RUN_ROOT
    if RUN_ROOT is None:
        RUN_ROOT = '/var/tmp/C20run-%d' % os.getpid()
        shutil.rmtree(RUN_ROOT, ignore_errors=True)
        os.makedirs(RUN_ROOT)
        atexit.register(lambda: shutil.rmtree(RUN_ROOT, ignore_errors=True))
        # leftovers of runs that were killed (their process is gone)
        import glob
        for d in glob.glob('/var/tmp/C20run-*'):
            pid = d.rsplit('-', 1)[1]
            if pid.isdigit() and not os.path.exists('/proc/' + pid): shutil.rmtree(d, ignore_errors=True)
        # warm up tempfile (lazy initialisation of its name generator) so that descriptor counts are stable
        fd, name = tempfile.mkstemp(dir=RUN_ROOT); os.close(fd); os.unlink(name)
    return RUN_ROOT

def _fu():
    from oslo_utils import fileutils
    return fileutils

# ------------------------------------------------------------------ contents and worlds

def content_of(d):
    """deterministic content from a small descriptor (keeps the case JSON small)"""
    if 'hex' in d: return bytes.fromhex(d['hex'])
    if d.get('kind') == 'allbytes': return bytes(range(256)) * d.get('times', 1)
    n, s = d['size'], d.get('seed', 0)
    # period 251*256: no alignment with any power-of-two chunk size
    base = bytes(((i * 7 + s * 13 + (i // 251) * 31) & 255) for i in range(min(n, 251 * 256)))
    if n <= len(base): return base[:n]
    return (base * (n // len(base) + 1))[:n]

def mk_world(base, entries):
    """entries: [kind, relpath, content-descriptor|None]"""
    os.makedirs(os.path.join(base, 'tmp'))
    for kind, p, c in entries:
        full = os.path.join(base, p)
        if kind == 'D': os.makedirs(full, exist_ok=True)
        else:
            os.makedirs(os.path.dirname(full), exist_ok=True)
            with open(full, 'wb') as f: f.write(content_of(c))

def dump_world(base):
    out = []
    for dp, dns, fns in os.walk(base):
        rel = os.path.relpath(dp, base)
        if rel != '.': out.append('D:%s:' % rel)
        for fn in fns:
            full = os.path.join(dp, fn)
            r = os.path.relpath(full, base)
            with open(full, 'rb') as f: out.append('F:%s:%s' % (r, f.read().hex()))
    return out

def world_entries(c):
    """the initial world of a case as model entries (every ancestor listed, 'tmp' included)"""
    ents = {'tmp': ('D', None)}
    for kind, p, cd in c.get('world', []):
        parts = p.split('/')
        for i in range(1, len(parts)): ents.setdefault('/'.join(parts[:i]), ('D', None))
        ents[p] = (kind, cd)
    return ents

def nfds():
    return len(os.listdir('/proc/self/fd'))

def canon_exc(e):
    if isinstance(e, OSError): return 'OSERR:%s:%s' % (e.errno, type(e).__name__)
    return 'EXN:' + type(e).__name__

def outcome(f, show=lambda v: ''):
    try: return 'OK:' + show(f())
    except Exception as e: return canon_exc(e)

def fmt_world(entries, fds):
    return '|'.join(sorted(entries)) + ' fds=%d' % fds

# ------------------------------------------------------------------ generators

CLEAN = ['a', 'b', 'c', 'd1', 'e.x', 'f', 'tmp', 'g_h']
def rand_world(rng):
    ents = []
    dirs = ['']
    for _ in range(rng.randint(0, 5)):
        parent = rng.choice(dirs)
        name = rng.choice(CLEAN)
        p = (parent + '/' + name) if parent else name
        if any(e[1] == p for e in ents) or p == 'tmp': continue
        if rng.random() < 0.6:
            ents.append(['D', p, None]); dirs.append(p)
        else:
            ents.append(['F', p, {'hex': bytes(rng.randrange(256) for _ in range(rng.randint(0, 6))).hex()}])
    return ents

def rand_path(rng, world):
    r = rng.random()
    existing = [e[1] for e in world]
    if r < 0.35 and existing:
        p = rng.choice(existing)
    else:
        p = ''
    for _ in range(rng.randint(0 if p else 1, 4) if rng.random() < 0.8 else 0):
        p = (p + '/' if p else '') + rng.choice(CLEAN[:6])
    return p or 'a'

ALGS_QUICK = ['sha256', 'md5', 'sha1', 'sha512', 'blake2b', 'sha3_256', 'shake_128']
def all_algs():
    out = []
    for n in sorted(hashlib.algorithms_available):
        try: hashlib.new(n); out.append(n)
        except ValueError: pass
    return out

def checksum_cases(rng, tier):
    algs = all_algs()
    ai = itertools.count(rng.randrange(100))
    def alg():
        return algs[next(ai) % len(algs)]
    chunks = [1, 2, 7, 64, 4096, 65536]
    reps = 1 if tier == 'quick' else 4
    for _ in range(reps):
        for ch in chunks:
            for k in range(4):
                for d in (-1, 0, 1):
                    size = k * ch + d
                    if size < 0: continue
                    yield {'op': 'checksum', 'content': {'size': size, 'seed': rng.randrange(50)}, 'chunk': ch, 'alg': alg()}
        # chunk larger than the file, read-everything (-1), defaults
        for size in (0, 1, 5, 4096, 65535, 65536, 65537, 131072, 196608, 196609):
            sd = rng.randrange(50)
            yield {'op': 'checksum', 'content': {'size': size, 'seed': sd}, 'chunk': size + rng.choice([1, 2, 1000]), 'alg': alg()}
            yield {'op': 'checksum', 'content': {'size': size, 'seed': sd}, 'chunk': -1, 'alg': alg()}
            yield {'op': 'checksum', 'content': {'size': size, 'seed': sd}, 'chunk': None, 'alg': None}
            yield {'op': 'checksum', 'content': {'size': size, 'seed': sd}, 'chunk': None, 'alg': alg()}
    # every algorithm at least once with an awkward chunk size
    for a in algs:
        yield {'op': 'checksum', 'content': {'size': 150, 'seed': 3}, 'chunk': 7, 'alg': a}
    # random sizes / chunks
    for _ in range(60 if tier == 'quick' else 1500):
        ch = rng.choice([1, 2, 3, 5, 7, 16, 64, 100, 4096]) if rng.random() < 0.8 else rng.randint(1, 70000)
        size = rng.randint(0, min(4 * ch + 2, 200 if ch < 8 else 20000))
        yield {'op': 'checksum', 'content': {'size': size, 'seed': rng.randrange(50)}, 'chunk': ch, 'alg': alg()}
    # outside the property's domain but inside the model: errors and the degenerate chunk sizes
    for tgt in ('missing', 'dir', 'under_file'):
        yield {'op': 'checksum', 'content': {'size': 3}, 'chunk': 2, 'alg': 'sha256', 'target': tgt}
        yield {'op': 'checksum', 'content': {'size': 3}, 'chunk': 2, 'alg': 'no-such-hash', 'target': tgt}
    for ch in (0, -2, -7):
        yield {'op': 'checksum', 'content': {'size': 10}, 'chunk': ch, 'alg': 'md5'}
    yield {'op': 'checksum', 'content': {'size': 10}, 'chunk': 3, 'alg': 'no-such-hash'}
    yield {'op': 'checksum', 'content': {'size': 10}, 'chunk': 3, 'alg': ''}

def last_bytes_cases(rng, tier):
    sizes = [0, 1, 2, 10, 4095, 4096, 4097, 70000]
    for size in sizes:
        ns = {0, 1, size - 1, size, size + 1, 2 ** 40, 2 ** 63 - 1, 2 ** 63, 2 ** 63 + 1, -1, -3, size // 2, 2 ** 31, 2 ** 32 + 1}
        for n in sorted(ns):
            yield {'op': 'last_bytes', 'content': {'size': size, 'seed': rng.randrange(50)}, 'num': n}
    for _ in range(100 if tier == 'quick' else 3000):
        size = rng.choice([0, 1, 3, 17, 100, 1000, rng.randint(0, 5000)])
        n = rng.choice([rng.randint(0, size + 3), rng.randint(0, 2 * size + 10), size + rng.randint(-2, 2), 2 ** rng.randint(0, 64)])
        yield {'op': 'last_bytes', 'content': {'size': size, 'seed': rng.randrange(50)}, 'num': n}
    for tgt in ('missing', 'dir', 'under_file'):
        yield {'op': 'last_bytes', 'content': {'size': 3}, 'num': 2, 'target': tgt}

def tree_scenarios(rng, tier):
    """(world, path) pairs: nested missing depths below an existing base, existing dir, file at path, file as ancestor"""
    names = ['a', 'b', 'c', 'd1', 'e.x', 'f']
    for basedepth in range(3):
        base = names[:basedepth]
        world = [['D', '/'.join(base[:i + 1]), None] for i in range(basedepth)]
        for depth in range(5):
            p = '/'.join(base + names[basedepth:basedepth + depth]) or None
            if p is None: continue
            yield world, p
        if base:
            yield world, '/'.join(base)                                             # exists as a directory
            wf = world[:-1] + [['F', '/'.join(base), {'hex': '6869'}]]
            yield wf, '/'.join(base)                                                # a FILE at the path
            yield wf, '/'.join(base) + '/x'                                         # a file as the parent
            yield wf, '/'.join(base) + '/x/y/z'                                     # a file as an ancestor
    for _ in range(60 if tier == 'quick' else 2500):
        w = rand_world(rng)
        yield w, rand_path(rng, w)

INJ_ERRNOS = sorted(errno.errorcode) + [0, 133, 200, 9999]
class MyErr(OSError):
    """a user-defined OSError subclass: MyErr(errno.ENOENT, 'x') is NOT a FileNotFoundError"""
BUILTIN_OSERRORS = ['FileNotFoundError', 'FileExistsError', 'PermissionError', 'IsADirectoryError', 'NotADirectoryError',
                    'InterruptedError', 'BlockingIOError', 'ChildProcessError', 'ProcessLookupError', 'TimeoutError',
                    'ConnectionError', 'BrokenPipeError', 'ConnectionAbortedError', 'ConnectionRefusedError', 'ConnectionResetError']
def make_oserror(e, how):
    """the ways an OSError instance with errno e can come about; class and errno are independent"""
    if how == 'plain': return OSError(e, 'injected')                 # CPython picks the subclass from the errno
    if how == 'subclass': return MyErr(e, 'injected')                # user-defined subclass
    if how == 'late':                                                # errno assigned after construction
        x = OSError('injected'); x.errno = e; return x
    if how.startswith('builtin:'):                                   # a builtin subclass carrying some OTHER errno
        x = getattr(__import__('builtins'), how[8:])('injected'); x.errno = e; return x
    raise KeyError(how)
def inj_class(e, how):
    return type(make_oserror(e, how)).__name__

def inj_cases(rng, tier):
    for e in INJ_ERRNOS + [-1, 'ValueError', 'KeyError', None]:
        hows = ['plain', 'subclass', 'late'] if isinstance(e, int) and e >= 0 else ['plain']
        for how in hows:
            for tgt in ('dir', 'file', 'missing'):
                yield {'op': 'ensure_tree_inj', 'errno': e, 'target': tgt, 'how': how}
            yield {'op': 'delete_inj', 'errno': e, 'how': how}
    # builtin subclasses whose errno does not match their class (assigned afterwards)
    for b in BUILTIN_OSERRORS:
        for e in [errno.ENOENT, errno.EEXIST, errno.EACCES, rng.choice(INJ_ERRNOS)]:
            for tgt in ('dir', 'file', 'missing'):
                yield {'op': 'ensure_tree_inj', 'errno': e, 'target': tgt, 'how': 'builtin:' + b}
            yield {'op': 'delete_inj', 'errno': e, 'how': 'builtin:' + b}

SEQ_DIRS = ['', 'w1', 'w1/w2']                      # possible current directories (never removed by the harness steps)
SEQ_NAMES = ['a', 'a/b', 'a/b/c', 'd1', 'f', 'a/f']
def _small(rng):
    return {'hex': bytes(rng.randrange(256) for _ in range(rng.choice([0, 1, 2, 5, 17, 40]))).hex()}
def _absname(rng):
    d = rng.choice(SEQ_DIRS)
    return (d + '/' if d else '') + rng.choice(SEQ_NAMES)
def seq_cases(rng, tier):
    W = [['D', 'w1', None], ['D', 'w1/w2', None]]
    wtt = lambda p, pre='pp': ['wtt', _small(rng), p, rng.choice(['', '.s']), pre]
    fixed = [
        [wtt('a/b'), ['rmtree', 'a'], wtt('a/b')],                                   # the tree is removed between two writes
        [wtt('a'), ['rmtree', 'a'], wtt('a'), ['rmtree', 'a'], ['ens', 'a'], wtt('a')],
        [wtt('a'), ['put', 'a', _small(rng)], wtt('a'), ['mkdir', 'a'], wtt('a')],   # directory replaced by a file and back
        [['chdir', 'w1'], wtt('a'), ['chdir', ''], wtt('a'), ['chdir', 'w1/w2'], wtt('a')],   # same relative path, other directory
        [['chdir', 'w1'], ['ens', 'a/b'], ['chdir', ''], ['ens', 'a/b'], ['rmtree', 'a'], ['ens', 'a/b']],
        [['ens', 'a/b'], ['rmtree', 'a'], ['ens', 'a/b'], ['put', 'a/b', _small(rng)], ['ens', 'a/b'], ['mkdir', 'a/b'], ['ens', 'a/b']],
        [['put', 'f', _small(rng)], ['del', 'f'], ['del', 'f'], ['put', 'f', _small(rng)], ['del', 'f'], ['mkdir', 'f'], ['del', 'f'], ['put', 'f/x', _small(rng)], ['del', 'f/x/y']],
        [['put', 'f', {'hex': '0123456789'}], ['sum', 'f', 2, 'md5'], ['put', 'f', {'hex': '01234567'}], ['sum', 'f', 2, 'md5'], ['rmtree', 'f'], ['sum', 'f', 2, 'md5'],
         ['put', 'f', {'hex': ''}], ['sum', 'f', 3, 'sha256']],
        [['put', 'f', {'hex': '00112233445566'}], ['last', 'f', 3], ['put', 'f', {'hex': 'aabb'}], ['last', 'f', 3], ['last', 'f', 0], ['mkdir', 'f'], ['last', 'f', 1]],
        [wtt(None, 'tmp'), wtt(None, 'tmp'), ['rmtree', 'tmp'], ['mkdir', 'tmp'], wtt(None, 'tmp')],
    ]
    for steps in fixed:
        yield {'op': 'seq', 'world': W, 'steps': steps}
    for _ in range(120 if tier == 'quick' else 3000):
        steps = []
        for _ in range(rng.randint(3, 9)):
            r = rng.random()
            p = rng.choice(SEQ_NAMES)
            if r < 0.22: steps.append(wtt(p if rng.random() < 0.9 else None, rng.choice(['pp', 'tmp', ''])))
            elif r < 0.34: steps.append(['ens', p])
            elif r < 0.46: steps.append(['del', p])
            elif r < 0.54: steps.append(['last', p, rng.choice([0, 1, 3, 100, 2 ** 40])])
            elif r < 0.62: steps.append(['sum', p, rng.choice([1, 2, 7, 65536]), rng.choice(['md5', 'sha256', 'sha1'])])
            elif r < 0.72: steps.append(['rmtree', _absname(rng)])
            elif r < 0.80: steps.append(['mkdir', _absname(rng)])
            elif r < 0.92: steps.append(['put', _absname(rng), _small(rng)])
            else: steps.append(['chdir', rng.choice(SEQ_DIRS)])
        yield {'op': 'seq', 'world': W + (rand_seq_world(rng)), 'steps': steps}

def rand_seq_world(rng):
    out = []
    for _ in range(rng.randint(0, 3)):
        p = _absname(rng)
        if any(e[1] == p or e[1].startswith(p + '/') or p.startswith(e[1] + '/') for e in out): continue
        out.append(['D', p, None] if rng.random() < 0.5 else ['F', p, _small(rng)])
    return out

def gen_cases(rng, tier):
    yield from inj_cases(rng, tier)
    yield from seq_cases(rng, tier)
    for w, p in tree_scenarios(rng, tier):
        yield {'op': 'ensure_tree', 'world': w, 'path': p}
    for w, p in tree_scenarios(rng, tier):
        yield {'op': 'delete_if_exists', 'world': w, 'path': p}
    sufs = ['', '.s', '.conf', '~']; pres = ['tmp', 'pp', '', 'x-']
    for i, (w, p) in enumerate(tree_scenarios(rng, tier)):
        size = rng.choice([0, 1, 2, 10, 300]) if i % 17 else 100000
        yield {'op': 'write_to_tempfile', 'world': w, 'path': p, 'content': {'size': size, 'seed': rng.randrange(50)},
               'suffix': rng.choice(sufs), 'prefix': rng.choice(pres), 'defaults': rng.random() < 0.2,
               # the model's write loop is quadratic in the number of writes: tiny limits only with small contents
               'wlimit': rng.choice([None, None, 1, 3, 4096] if size <= 300 else [None, 4096])}
    for i in range(12 if tier == 'quick' else 300):
        w = rand_world(rng)
        yield {'op': 'write_to_tempfile', 'world': w, 'path': None, 'content': {'size': rng.choice([0, 1, 7, 5000]), 'seed': i},
               'suffix': rng.choice(sufs), 'prefix': rng.choice(pres), 'defaults': i % 3 == 0}
    # short writes: os.write transfers at most `wlimit` bytes per call (sizes around the limit and its multiples)
    for lim in (1, 3, 4096):
        for size in sorted({0, 1, 2, lim - 1, lim, lim + 1, 2 * lim - 1, 2 * lim, 2 * lim + 1, 3 * lim + 2, 7, 1500 if lim < 4096 else 20000} - {-1}):
            yield {'op': 'write_to_tempfile', 'world': [['D', 'a', None]], 'path': rng.choice(['a', 'a/n1', None]),
                   'content': {'size': size, 'seed': rng.randrange(50)}, 'suffix': rng.choice(sufs), 'prefix': rng.choice(pres),
                   'defaults': False, 'wlimit': lim}
    # environment: sys.stdin.encoding in {utf-8, latin-1, ascii, cp1252, None} x contents with every byte value, NULs, invalid UTF-8
    special = [{'kind': 'allbytes'}, {'hex': '00'}, {'hex': '000000'}, {'hex': '80'}, {'hex': 'ff'}, {'hex': 'c328'}, {'hex': 'e9'},
               {'hex': 'fffe0080'}, {'hex': 'c3a9'}, {'hex': 'f0288cbc'}, {'hex': 'eda080'}, {'hex': '61e962'}, {'size': 300, 'seed': 7}]
    for enc in STDIN_ENCS:
        for cd in special:
            yield {'op': 'write_to_tempfile', 'world': [], 'path': rng.choice(['a', None]), 'content': cd, 'suffix': rng.choice(sufs),
                   'prefix': rng.choice(pres), 'defaults': False, 'wlimit': rng.choice([None, 3]), 'stdin_enc': enc}
        for cd in (special[0], special[7], special[11]):
            ch_ = rng.choice([1, 7, 64, None])
            yield {'op': 'checksum', 'content': cd, 'chunk': ch_, 'alg': rng.choice(['md5', 'sha256'] + ([None] if ch_ is None else [])), 'stdin_enc': enc}
            n_ = len(content_of(cd))
            yield {'op': 'last_bytes', 'content': cd, 'num': rng.choice([0, 1, n_ - 1, n_, n_ + 1, 2 ** 40]), 'stdin_enc': enc}
    # REAL short writes: RLIMIT_FSIZE = L in a subprocess, sizes around the limit (not modelled: oracle only)
    for L in ((4096,) if tier == 'quick' else (1, 4096, 65536)):
        for size in (L - 1, L, L + 1, 2 * L + 1):
            yield {'op': 'write_rlimit', 'limit': L, 'size': size, 'seed': rng.randrange(50)}
    yield from checksum_cases(rng, tier)
    yield from last_bytes_cases(rng, tier)

# ------------------------------------------------------------------ the implementation on real files

class _RecHash:
    def __init__(self, h, log): self.h, self.log = h, log
    def update(self, d):
        if len(self.log) > 10 ** 6: raise _Timeout()             # a loop that never ends
        self.log.append(len(d)); self.data.append(bytes(d)); return self.h.update(d)
    def hexdigest(self, *a): return self.h.hexdigest(*a)
class _RecHashlib:
    """stands in for the `hashlib` name inside fileutils: records what is fed to the hash object"""
    def __init__(self): self.log = []; self.data = []
    def new(self, name, *a, **k):
        r = _RecHash(hashlib.new(name, *a, **k), self.log); r.data = self.data
        return r

def _target_path(base, c):
    tgt = c.get('target', 'file')
    if tgt == 'file': return os.path.join(base, 'f')
    if tgt == 'missing': return os.path.join(base, 'nope')
    if tgt == 'dir': return os.path.join(base, 'tmp')
    if tgt == 'under_file': return os.path.join(base, 'f', 'x')

def _file_world(c):
    return [['F', 'f', c['content']]]

class _Timeout(BaseException):
    pass
_timeouts = {}

def impl(c):
    """run the case under a time limit: the read loop of the model terminates (theorem C20_read_loop), so must the real one"""
    import signal
    if _timeouts.get(c['op'], 0) >= 3: return 'TIMEOUT'          # do not wait again and again for the same helper
    def on_alarm(sig, frm): raise _Timeout()
    old = signal.signal(signal.SIGALRM, on_alarm)
    signal.setitimer(signal.ITIMER_REAL, 10.0)
    try:
        return _impl(c)
    except _Timeout:
        _timeouts[c['op']] = _timeouts.get(c['op'], 0) + 1
        return 'TIMEOUT'
    finally:
        signal.setitimer(signal.ITIMER_REAL, 0)
        signal.signal(signal.SIGALRM, old)

_RLIMIT_SCRIPT = r'''
import sys, os, signal, resource, json
repo, d, L, size, seed = sys.argv[1], sys.argv[2], int(sys.argv[3]), int(sys.argv[4]), int(sys.argv[5])
sys.path.insert(0, repo)
from oslo_utils import fileutils
content = bytes(((i * 7 + seed * 13 + (i // 251) * 31) & 255) for i in range(size))
signal.signal(signal.SIGXFSZ, signal.SIG_IGN)                 # a write past the limit fails with EFBIG instead of killing us
soft, hard = resource.getrlimit(resource.RLIMIT_FSIZE)
resource.setrlimit(resource.RLIMIT_FSIZE, (L, hard))          # the kernel now cuts a write that crosses L short (a REAL short write)
try:
    p = fileutils.write_to_tempfile(content, path=d)
except Exception as e:
    print('OSERR:%s:%s' % (e.errno, type(e).__name__) if isinstance(e, OSError) else 'EXN:' + type(e).__name__)
else:
    with open(p, 'rb') as f: got = f.read()
    print('OK:stored=%d of %d exact=%s' % (len(got), len(content), got == content))
'''

def _write_under_rlimit(base, c):
    """write_to_tempfile in a SUBPROCESS whose RLIMIT_FSIZE is L (SIGXFSZ ignored): the kernel transfers only the bytes up to
    the limit (a genuine short write(2), not an emulation) and fails the next write with EFBIG.  The limit cannot leak into
    the harness; the directory is removed by the caller."""
    import subprocess
    d = os.path.join(base, 'd'); os.makedirs(d)
    r = subprocess.run([sys.executable, '-c', _RLIMIT_SCRIPT, os.environ.get('VERIF_REPO', '/repo'), d, str(c['limit']), str(c['size']), str(c.get('seed', 0))],
                       stdout=subprocess.PIPE, stderr=subprocess.PIPE, text=True, timeout=60)
    out = r.stdout.strip().splitlines()
    return out[-1] if out else 'SUBPROCESS-FAILED:%d:%s' % (r.returncode, r.stderr.strip()[-200:])

class _FakeStdin:
    """stands in for sys.stdin: only its .encoding matters (oslo's encodeutils consults sys.stdin.encoding)"""
    def __init__(self, enc): self.encoding = enc
    def read(self, *a): return ''
    def readline(self, *a): return ''
    def fileno(self): raise OSError(errno.EBADF, 'no descriptor')
    def isatty(self): return False

STDIN_ENCS = ['utf-8', 'latin-1', 'ascii', 'cp1252', 'none']

def _impl(c):
    """the ENVIRONMENT is part of the case: the bytes helpers must not depend on the locale / stdin encoding"""
    enc = c.get('stdin_enc')
    if enc is None:
        return _impl2(c)
    saved = sys.stdin
    sys.stdin = _FakeStdin(None if enc == 'none' else enc)
    try:
        return _impl2(c)
    finally:
        sys.stdin = saved

def _kind_of(base, rel):
    """what a root-relative path is right now: D / F / '-' (absent, parents fine or absent) / B (an ancestor is a regular file)"""
    parts = rel.split('/')
    for i in range(1, len(parts)):
        q = os.path.join(base, *parts[:i])
        if os.path.lexists(q) and not os.path.isdir(q): return 'B'
    full = os.path.join(base, rel)
    if os.path.isdir(full): return 'D'
    if os.path.lexists(full): return 'F'
    return '-'

def _force_dir(base, rel):
    parts = rel.split('/')
    for i in range(1, len(parts) + 1):
        q = os.path.join(base, *parts[:i])
        if os.path.lexists(q) and not os.path.isdir(q): os.unlink(q)
    os.makedirs(os.path.join(base, rel), exist_ok=True)

def _run_sequence(base, c):
    """several helper calls on ONE file-system state in ONE process, interleaved with changes made by the harness"""
    import json
    fu = _fu()
    mk_world(base, c['world'])
    saved_tmp, saved_cwd = tempfile.tempdir, os.getcwd()
    tempfile.tempdir = os.path.join(base, 'tmp')
    os.chdir(base)
    cwd = ''                                   # root-relative current directory
    outs, facts = [], []
    n0 = nfds()
    try:
        for st in c['steps']:
            k = st[0]
            rel = lambda p: (cwd + '/' + p) if cwd else p
            if k in ('rmtree', 'mkdir', 'put', 'chdir'):
                full = os.path.join(base, st[1]) if st[1] else base
                if k == 'rmtree':
                    if os.path.isdir(full) and not os.path.islink(full): shutil.rmtree(full)
                    elif os.path.lexists(full): os.unlink(full)
                elif k == 'mkdir': _force_dir(base, st[1])
                elif k == 'put':
                    if '/' in st[1]: _force_dir(base, st[1].rsplit('/', 1)[0])
                    if os.path.isdir(full): shutil.rmtree(full)
                    with open(full, 'wb') as f: f.write(content_of(st[2]))
                elif k == 'chdir':
                    if os.path.isdir(full): os.chdir(full); cwd = st[1]
                outs.append('-'); facts.append({'k': k})
                continue
            before = dict(e.split(':', 1) for e in (x[2:] for x in dump_world(base)))
            before_k = {x[2:].split(':', 1)[0]: x[0] for x in dump_world(base)}
            if k == 'wtt':
                _, cd, path, suf, pre = st
                target = rel(path) if path is not None else 'tmp'
                fact = {'k': k, 'pre': _kind_of(base, target), 'target': target}
                content = content_of(cd)
                kw = {'suffix': suf, 'prefix': pre}
                if path is not None: kw['path'] = path
                r = outcome(lambda: fu.write_to_tempfile(content, **kw), lambda p: os.path.relpath(p, base))
                if r.startswith('OK:'):
                    newp = r[3:]
                    full = os.path.join(base, newp)
                    fact['existed'] = newp in before_k
                    fact['content_ok'] = os.path.isfile(full) and open(full, 'rb').read() == content
                    b = os.path.basename(newp)
                    fact['placed_ok'] = os.path.dirname(newp) == target and b.startswith(pre) and b.endswith(suf)
                    fact['isdir_after'] = os.path.isdir(os.path.join(base, target))
            elif k in ('ens', 'del'):
                target = rel(st[1])
                fact = {'k': k, 'pre': _kind_of(base, target), 'target': target}
                r = outcome((lambda: fu.ensure_tree(st[1])) if k == 'ens' else (lambda: fu.delete_if_exists(st[1])))
                fact['isdir_after'] = os.path.isdir(os.path.join(base, target))
                fact['exists_after'] = os.path.lexists(os.path.join(base, target))
            else:
                target = rel(st[1])
                kd = _kind_of(base, target)
                fact = {'k': k, 'pre': kd, 'target': target}
                if kd == 'F':
                    with open(os.path.join(base, target), 'rb') as f: fact['cur'] = f.read().hex()
                if k == 'last':
                    r = outcome(lambda: fu.last_bytes(st[1], st[2]), lambda v: '%d:%s' % (v[1], v[0].hex()))
                else:
                    r = outcome(lambda: fu.compute_file_checksum(st[1], st[2], st[3]), lambda v: v)
                    if r.startswith('OK:'): fact['hex'] = r[3:]; r = 'OK:'
            after = dict(e.split(':', 1) for e in (x[2:] for x in dump_world(base)))
            fact['kept'] = all(after.get(p) == v for p, v in before.items() if not (k == 'del' and p == fact['target']))
            outs.append(r); facts.append(fact)
        os.chdir(base)
        return '%s;; %s FACTS=%s' % (';;'.join(outs), fmt_world(dump_world(base), nfds() - n0), json.dumps(facts, separators=(',', ':')))
    finally:
        os.chdir(saved_cwd)
        tempfile.tempdir = saved_tmp

def _impl2(c):
    fu = _fu()
    op = c['op']
    base = os.path.join(_root(), 'c%d' % next(_counter))
    os.makedirs(base)
    try:
        if op in ('ensure_tree', 'delete_if_exists'):
            # twin directory: what the underlying call does on its own (for the oracle: RAW=...)
            twin = base + '.twin'
            os.makedirs(twin); mk_world(twin, c['world'])
            if op == 'ensure_tree':
                raw = outcome(lambda: os.makedirs(os.path.join(twin, c['path']), fu._DEFAULT_MODE))
            else:
                raw = outcome(lambda: os.unlink(os.path.join(twin, c['path'])))
            shutil.rmtree(twin)
            mk_world(base, c['world'])
            full = os.path.join(base, c['path'])
            f = (lambda: fu.ensure_tree(full)) if op == 'ensure_tree' else (lambda: fu.delete_if_exists(full))
            n0 = nfds()
            r1 = outcome(f)
            w1 = fmt_world(dump_world(base), nfds() - n0)
            r2 = outcome(f)
            w2 = fmt_world(dump_world(base), nfds() - n0)
            return '%s %s AGAIN=%s,%s RAW=%s' % (r1, w1, r2, 'same' if w1 == w2 else 'changed', raw)
        if op in ('ensure_tree_inj', 'delete_inj'):
            e = c['errno']
            def boom(*a, **k):
                if e == -1: return None
                if isinstance(e, str): raise {'ValueError': ValueError, 'KeyError': KeyError}[e]('injected')
                if e is None: raise OSError('injected without errno')
                raise make_oserror(e, c.get('how', 'plain'))
            if op == 'delete_inj':
                return outcome(lambda: fu.delete_if_exists(os.path.join(base, 'p'), remove=boom))
            full = os.path.join(base, 'p')
            if c['target'] == 'dir': os.makedirs(full)
            elif c['target'] == 'file': open(full, 'wb').close()
            saved = os.makedirs
            os.makedirs = boom
            try:
                return outcome(lambda: fu.ensure_tree(full))
            finally:
                os.makedirs = saved
        if op == 'write_to_tempfile':
            mk_world(base, c['world'])
            content = content_of(c['content'])
            kw = {}
            if c['path'] is not None: kw['path'] = os.path.join(base, c['path'])
            if not c.get('defaults'): kw['suffix'] = c['suffix']; kw['prefix'] = c['prefix']
            saved = tempfile.tempdir
            tempfile.tempdir = os.path.join(base, 'tmp')
            real_write = os.write
            lim = c.get('wlimit')
            if lim:
                # short writes, as POSIX allows (Linux does it above 0x7ffff000 bytes): at most `lim` bytes per call
                os.write = lambda fd, data: real_write(fd, bytes(memoryview(data)[:lim]))
            n0 = nfds()
            try:
                r = outcome(lambda: fu.write_to_tempfile(content, **kw), lambda p: os.path.relpath(p, base) if p.startswith(base + '/') else 'OUTSIDE:' + p)
            finally:
                os.write = real_write
                tempfile.tempdir = saved
            return '%s %s' % (r, fmt_world(dump_world(base), nfds() - n0))
        if op == 'write_rlimit':
            return _write_under_rlimit(base, c)
        if op == 'seq':
            return _run_sequence(base, c)
        if op == 'checksum':
            mk_world(base, _file_world(c))
            p = _target_path(base, c)
            rec = _RecHashlib()
            args = [p]; kw = {}
            if c['chunk'] is not None: args.append(c['chunk'])
            if c['alg'] is not None: kw['algorithm'] = c['alg']
            saved = fu.hashlib
            fu.hashlib = rec
            try:
                try:
                    hx = fu.compute_file_checksum(*args, **kw)
                except Exception as e:
                    return canon_exc(e)
            finally:
                fu.hashlib = saved
            cat_ok = b''.join(rec.data) == content_of(c['content'])
            return 'OK:%s HEX=%s CAT=%s' % (','.join(map(str, rec.log)), hx, cat_ok)
        if op == 'last_bytes':
            mk_world(base, _file_world(c))
            p = _target_path(base, c)
            return outcome(lambda: fu.last_bytes(p, c['num']), lambda r: '%d:%s' % (r[1], r[0].decode('latin-1')))
        raise KeyError(op)
    finally:
        shutil.rmtree(base, ignore_errors=True)
        shutil.rmtree(base + '.twin', ignore_errors=True)

# ------------------------------------------------------------------ the model

def _clean(p):
    return p is not None and p != '' and all(x not in ('', '.', '..') for x in p.split('/'))

def _enc_world(ents):
    out = []
    for p in sorted(ents):                       # parents before children
        kind, cd = ents[p]
        out += [kind, p, content_of(cd) if kind == 'F' else b'']
    return out

def encode(c):
    op = c['op']
    if op in ('ensure_tree', 'delete_if_exists'):
        if not _clean(c['path']): return None
        a = [op, c['path']] + ([str(_fu()._DEFAULT_MODE)] if op == 'ensure_tree' else [])
        return a + _enc_world(world_entries(c))
    if op in ('ensure_tree_inj', 'delete_inj'):
        e = c['errno']
        if e is None or e == 'KeyError': return None          # errno None / other classes: oracle only
        code = -2 if e == 'ValueError' else e
        how = c.get('how', 'plain')
        # 'plain': the model derives the class from the errno itself (table of the running interpreter); otherwise it is given
        cls = '' if how == 'plain' or code < 0 else inj_class(e, how)
        return [op, str(code)] + (['1' if c['target'] == 'dir' else '0'] if op == 'ensure_tree_inj' else []) + [cls]
    if op == 'write_to_tempfile':
        if c['path'] is not None and not _clean(c['path']): return None
        lim = str(c.get('wlimit') or 0)
        if c.get('defaults'):
            return [op + '_defaults', content_of(c['content']), '1' if c['path'] is not None else '0', c['path'] or '', lim] + _enc_world(world_entries(c))
        suf, pre = c['suffix'], c['prefix']
        if '/' in suf or '/' in pre: return None
        return [op, content_of(c['content']), '1' if c['path'] is not None else '0', c['path'] or '', suf, pre, lim] + _enc_world(world_entries(c))
    if op == 'seq':
        ents = world_entries(c)
        args = ['seq', str(len(ents))] + _enc_world(ents)
        for st in c['steps']:
            k = st[0]
            if k == 'wtt': a = [content_of(st[1]), '1' if st[2] is not None else '0', st[2] or '', st[3], st[4]]
            elif k in ('ens', 'del', 'rmtree', 'mkdir', 'chdir'): a = [st[1]]
            elif k == 'last': a = [st[1], str(st[2])]
            elif k == 'sum': a = [st[1], str(st[2]), st[3]]
            elif k == 'put': a = [st[1], content_of(st[2])]
            args += [k] + a + [''] * (5 - len(a))
        return args
    if op in ('checksum', 'last_bytes'):
        ents = world_entries({'world': _file_world(c)})
        p = {'file': 'f', 'missing': 'nope', 'dir': 'tmp', 'under_file': 'f/x'}[c.get('target', 'file')]
        if op == 'last_bytes':
            return [op, p, str(c['num'])] + _enc_world(ents)
        if c['chunk'] is None and c['alg'] is None: return ['checksum_default', p] + _enc_world(ents)
        if c['chunk'] is None: return ['checksum_default_chunk', p, c['alg']] + _enc_world(ents)
        return [op, p, str(c['chunk']), c['alg']] + _enc_world(ents)
    return None

import re
_WORLD_RE = re.compile(r'^(\S*) (\S*) (fds=-?\d+.*)$', re.S)
def _split_world(s):
    """'OUTCOME entries fds=n[ AGAIN=...]' -> (outcome, [entries], rest); paths and outcomes contain no spaces"""
    m = _WORLD_RE.match(s)
    if not m: return s, None, ''
    return m.group(1), [e for e in m.group(2).split('|') if e], m.group(3)

def _canon_tmp(c, s):
    """wildcard the generated part of the new file's name in the outcome and in the world listing"""
    head, ents, rest = _split_world(s)
    if ents is None: return s
    suf, pre = ('', 'tmp') if c.get('defaults') else (c['suffix'], c['prefix'])
    if head.startswith('OK:'):
        p = head[3:]
        d, _, b = p.rpartition('/')
        if b.startswith(pre) and b.endswith(suf) and len(b) > len(pre) + len(suf):
            q = (d + '/' if d else '') + pre + '*' + suf
            head = 'OK:' + q
            ents = [('F:' + q + ':' + e[len('F:' + p + ':'):]) if e.startswith('F:' + p + ':') else e for e in ents]
    return '%s %s %s' % (head, '|'.join(sorted(ents)), rest)

def _canon_seq(c, s):
    """wildcard the generated part of every temp-file name in the step outcomes and in the final listing"""
    head, ents, rest = _split_world(s)
    if ents is None: return s
    outs = head.split(';;')
    for i, st in enumerate(c['steps']):
        if st[0] == 'wtt' and i < len(outs) and outs[i].startswith('OK:'):
            p = outs[i][3:]
            d, _, b = p.rpartition('/')
            suf, pre = st[3], st[4]
            if b.startswith(pre) and b.endswith(suf) and len(b) > len(pre) + len(suf):
                q = (d + '/' if d else '') + pre + '*' + suf
                outs[i] = 'OK:' + q
                ents = [('F:' + q + ':' + e[len('F:' + p + ':'):]) if e.startswith('F:' + p + ':') else e for e in ents]
    return '%s %s %s' % (';;'.join(outs), '|'.join(sorted(ents)), rest)

def decode(c, out):
    op = c['op']
    if op == 'seq': return _canon_seq(c, out)
    if op in ('ensure_tree', 'delete_if_exists'):
        head, ents, rest = _split_world(out)
        if ents is None: return out
        return '%s %s %s' % (head, '|'.join(sorted(ents)), rest)
    if op == 'write_to_tempfile':
        return _canon_tmp(c, out)
    return out

def project(c, io):
    op = c['op']
    if op == 'seq':
        return _canon_seq(c, io[:io.index(' FACTS=')]) if ' FACTS=' in io else io
    if op in ('ensure_tree', 'delete_if_exists'):
        return io[:io.index(' RAW=')]
    if op == 'write_to_tempfile':
        return _canon_tmp(c, io)
    if op == 'checksum' and io.startswith('OK:'):
        return io[:io.index(' HEX=')]
    return io

# ------------------------------------------------------------------ the oracle (model-free)

OFF_MAX = 2 ** 63

def _parse_world(s):
    head, ents, rest = _split_world(s)
    d = {}
    for e in ents or []:
        kind, p, h = e.split(':', 2)
        d[p] = (kind, h)
    return head, d, rest

def oracle(c, io):
    op = c['op']
    if io.startswith('HARNESS-ERROR'): return io
    if io == 'TIMEOUT': return '%s did not terminate within 10 s' % op
    if op == 'checksum':
        content = content_of(c['content'])
        import inspect
        dflt = inspect.signature(_fu().compute_file_checksum).parameters
        ch = dflt['read_chunksize'].default if c['chunk'] is None else c['chunk']    # whatever the helper declares as its defaults
        alg = dflt['algorithm'].default if c['alg'] is None else c['alg']
        if c.get('target', 'file') != 'file': return None                                   # outside the property's domain
        if c['chunk'] is not None and not (ch >= 1 or ch == -1): return None                # explicit degenerate chunk sizes: idem
        if not isinstance(ch, int) or not isinstance(alg, str): return 'defaults of compute_file_checksum: %r, %r' % (ch, alg)
        try:
            want = 'OK ' + hashlib.new(alg, content).hexdigest()
        except Exception as e:
            want = canon_exc(e)
        got = ('OK ' + io[io.index(' HEX=') + 5:io.index(' CAT=')]) if io.startswith('OK:') else io
        if got != want:
            return 'compute_file_checksum(size=%d, chunk=%r, %r) gives %s, the digest of the whole content is %s' % (len(content), c['chunk'], c['alg'], got[:80], want[:80])
        return None
    if op == 'last_bytes':
        n = c['num']
        if c.get('target', 'file') != 'file' or not (0 <= n <= OFF_MAX): return None
        content = content_of(c['content'])
        k = min(n, len(content))
        want = 'OK:%d:%s' % (len(content) - k, content[len(content) - k:].decode('latin-1'))
        if io != want:
            return 'last_bytes(size=%d, num=%d) gives %r, expected the final %d bytes and %d unread' % (len(content), n, io[:60], k, len(content) - k)
        return None
    if op == 'ensure_tree_inj':
        e = c['errno']
        if e == -1: want = 'OK:'
        elif isinstance(e, str): want = 'EXN:' + e
        elif e == errno.EEXIST and c['target'] == 'dir': want = 'OK:'            # whatever the class of the instance
        elif e is None: want = 'OSERR:None:OSError'
        else: want = 'OSERR:%s:%s' % (e, inj_class(e, c.get('how', 'plain')))           # the same instance is re-raised
        return None if io == want else 'ensure_tree with makedirs raising %s errno %r on a %s gives %s, expected %s' % (c.get('how', 'plain'), e, c['target'], io, want)
    if op == 'delete_inj':
        e = c['errno']
        if e == -1 or e == errno.ENOENT: want = 'OK:'
        elif isinstance(e, str): want = 'EXN:' + e
        elif e is None: want = 'OSERR:None:OSError'
        else: want = 'OSERR:%s:%s' % (e, inj_class(e, c.get('how', 'plain')))
        return None if io == want else 'delete_if_exists with remove raising %s errno %r gives %s, expected %s' % (c.get('how', 'plain'), e, io, want)
    if op in ('ensure_tree', 'delete_if_exists'):
        main, _, raw = io.partition(' RAW=')
        main, _, again = main.partition(' AGAIN=')
        head, after, rest = _parse_world(main)
        before = {p: (k, content_of(cd).hex() if k == 'F' else '') for p, (k, cd) in world_entries(c).items()}
        p = c['path']
        # what the underlying call reports decides (already-exists for a directory / not-found are successes)
        if raw.startswith('OK:'): want = 'OK:'
        elif op == 'ensure_tree' and raw.startswith('OSERR:%d:' % errno.EEXIST) and before.get(p, ('?',))[0] == 'D': want = 'OK:'
        elif op == 'delete_if_exists' and raw.startswith('OSERR:%d:' % errno.ENOENT): want = 'OK:'
        else: want = raw
        if head != want:
            return '%s(%r): %s, the underlying call gives %s so %s is expected' % (op, p, head, raw, want)
        if head == 'OK:':
            if op == 'ensure_tree':
                if after.get(p, ('?',))[0] != 'D': return 'ensure_tree(%r) succeeded but the path is not a directory' % p
                for q, v in before.items():
                    if after.get(q) != v: return 'ensure_tree(%r) changed %r' % (p, q)
                for q in after:
                    if q in before: continue
                    if after[q][0] != 'D' or not (p == q or p.startswith(q + '/')):
                        return 'ensure_tree(%r) created %r' % (p, q)
            else:
                if p in after: return 'delete_if_exists(%r) succeeded but the path still exists' % p
                for q, v in before.items():
                    if q != p and after.get(q) != v: return 'delete_if_exists(%r) changed %r' % (p, q)
                if set(after) - set(before): return 'delete_if_exists(%r) created something' % p
            # idempotence: doing it again succeeds and changes nothing
            if again != 'OK:,same': return '%s(%r) is not idempotent: second call %s' % (op, p, again)
        else:
            if after != before and op == 'delete_if_exists': return 'failed delete_if_exists(%r) changed the tree' % p
        return None
    if op == 'seq':
        # every call must behave as it would in a fresh process, given the CURRENT state of the file system
        import json
        if ' FACTS=' not in io: return 'sequence did not complete: %s' % io[:200]
        main, _, fj = io.partition(' FACTS=')
        facts = json.loads(fj)
        outs = main.split(' ', 1)[0].split(';;')
        for i, (st, f) in enumerate(zip(c['steps'], facts)):
            k, r = st[0], outs[i]
            if k in ('rmtree', 'mkdir', 'put', 'chdir'): continue
            where = 'step %d %s on %r (%s there)' % (i, k, f['target'], {'D': 'a directory', 'F': 'a regular file', '-': 'nothing', 'B': 'a regular file above'}[f['pre']])
            if not f.get('kept', True): return where + ': something that existed was changed'
            if k == 'wtt':
                if f['pre'] in 'D-':
                    if not r.startswith('OK:'): return where + ': %s, expected a new file' % r
                    if f['existed'] or not f['content_ok'] or not f['placed_ok'] or not f['isdir_after']:
                        return where + ': new file wrong (%s)' % json.dumps({x: f[x] for x in ('existed', 'content_ok', 'placed_ok', 'isdir_after')})
                elif not r.startswith('OSERR:'): return where + ': %s, expected the error to be re-raised' % r
            elif k == 'ens':
                if f['pre'] in 'D-':
                    if r != 'OK:' or not f['isdir_after']: return where + ': %s, isdir afterwards %s' % (r, f['isdir_after'])
                elif f['pre'] == 'F':
                    if not r.startswith('OSERR:%d:' % errno.EEXIST): return where + ': %s, expected EEXIST re-raised' % r
                elif not r.startswith('OSERR:'): return where + ': %s, expected an OSError' % r
            elif k == 'del':
                if f['pre'] in 'F-':
                    if r != 'OK:' or f['exists_after']: return where + ': %s, exists afterwards %s' % (r, f['exists_after'])
                elif not r.startswith('OSERR:') or r.startswith('OSERR:%d:' % errno.ENOENT): return where + ': %s, expected the error to be re-raised' % r
            elif k == 'last':
                if f['pre'] == 'F':
                    cur = bytes.fromhex(f['cur']); n = st[2]; m = min(n, len(cur))
                    want = 'OK:%d:%s' % (len(cur) - m, cur[len(cur) - m:].hex())
                    if 0 <= n <= OFF_MAX and r != want: return where + ': last_bytes(%d) gives %s, the file now holds %d bytes' % (n, r[:60], len(cur))
                elif not r.startswith('OSERR:'): return where + ': %s' % r
            elif k == 'sum':
                if f['pre'] == 'F':
                    want = hashlib.new(st[3], bytes.fromhex(f['cur'])).hexdigest()
                    if r != 'OK:' or f.get('hex') != want: return where + ': checksum %s %s is not the digest of the current content' % (r, f.get('hex'))
                elif not r.startswith('OSERR:'): return where + ': %s' % r
        return None
    if op == 'write_rlimit':
        # "holding exactly the content": under a real short write either an exception propagates or everything is stored —
        # never a silently shorter file
        if io.startswith('OSERR:') or io.startswith('EXN:'): return None
        if io == 'OK:stored=%d of %d exact=True' % (c['size'], c['size']): return None
        return 'write_to_tempfile of %d bytes under RLIMIT_FSIZE=%d returned a file that does not hold the content: %s' % (c['size'], c['limit'], io)
    if op == 'write_to_tempfile':
        head, after, rest = _parse_world(io)
        before = {p: (k, content_of(cd).hex() if k == 'F' else '') for p, (k, cd) in world_entries(c).items()}
        suf, pre = ('', 'tmp') if c.get('defaults') else (c['suffix'], c['prefix'])
        d = c['path']
        if d is not None and not _clean(d): return None
        dirn = d if d else 'tmp'
        parts = dirn.split('/')
        blocked = any(before.get('/'.join(parts[:i + 1]), ('D',))[0] == 'F' for i in range(len(parts)))
        if blocked:
            # the directory cannot be created: the error of ensure_tree is re-raised, no file appears
            if not head.startswith('OSERR:'): return 'write_to_tempfile below a regular file gives %s' % head
            if after != before: return 'failed write_to_tempfile changed the tree'
            return None
        if not head.startswith('OK:'): return 'write_to_tempfile(path=%r) gives %s' % (d, head)
        newp = head[3:]
        content = content_of(c['content'])
        if newp in before: return 'write_to_tempfile returned an existing path %r' % newp
        if after.get(newp) != ('F', content.hex()): return 'the new file %r does not hold exactly the content' % newp
        dd, _, b = newp.rpartition('/')
        if dd != dirn: return 'the new file %r is not in the requested directory %r' % (newp, dirn)
        if not (b.startswith(pre) and b.endswith(suf) and len(b) >= len(pre) + len(suf)): return 'prefix/suffix not honoured: %r' % b
        if after.get(dirn, ('?',))[0] != 'D': return 'directory %r missing' % dirn
        for q, v in before.items():
            if after.get(q) != v: return 'write_to_tempfile changed %r' % q
        for q in after:
            if q not in before and q != newp and not (after[q][0] == 'D' and (dirn == q or dirn.startswith(q + '/'))):
                return 'write_to_tempfile created %r' % q
        return None
    return None

def classify(c, io):
    op = c['op']
    if op == 'seq': return 'seq:%d' % min(len(c['steps']), 9)
    if op == 'checksum': return 'checksum:' + ('exn' if not io.startswith('OK') else 'default' if c['chunk'] is None else 'chunk')
    if op == 'last_bytes': return 'last_bytes:' + ('exn' if not io.startswith('OK') else 'fallback' if c['num'] > len(content_of(c['content'])) else 'seek')
    return op + (':short' if c.get('wlimit') else '') + (':env' if c.get('stdin_enc') else '') + ':' + io.split(':', 1)[0].split(' ')[0]

def search(rng, budget):
    for _ in range(budget):
        yield from gen_cases(rng, 'quick')

# ------------------------------------------------------------------ contract tests on the real runtime

def extra_checks(rng, tier):
    """each clause of hash_contract / fs_contract / the file-object model, tested directly on hashlib / os / tempfile"""
    n = 40 if tier == 'quick' else 600
    # --- streaming-hash homomorphism and update(b'') = identity (observed through hexdigest, with a further suffix)
    algs = all_algs()
    for i in range(n):
        alg = algs[i % len(algs)]
        a = bytes(rng.randrange(256) for _ in range(rng.choice([0, 1, 5, 64, 1000])))
        b = bytes(rng.randrange(256) for _ in range(rng.choice([0, 1, 7, 128])))
        s = bytes(rng.randrange(256) for _ in range(rng.choice([0, 3])))
        def dig(h):
            try: return h.hexdigest()
            except TypeError: return h.hexdigest(16)
        h1 = hashlib.new(alg); h1.update(a); h1.update(b); h1.update(s)
        h2 = hashlib.new(alg); h2.update(a + b); h2.update(s)
        h3 = hashlib.new(alg); h3.update(a); h3.update(b''); h3.update(b); h3.update(s)
        msg = None
        if dig(h1) != dig(h2): msg = 'hash contract update_app fails for %s' % alg
        elif dig(h3) != dig(h2): msg = 'hash contract update_nil fails for %s' % alg
        elif dig(h2) != dig(hashlib.new(alg, a + b + s)): msg = 'hash contract: new(alg, data) differs from new(alg).update(data) for %s' % alg
        yield 'hash_contract', {'op': 'contract', 'what': 'hash', 'alg': alg, 'a': a.hex()[:40], 'b': b.hex()[:40]}, msg
    # --- file object: read(n) returns the next min(n, remaining) bytes; seek(-k, END) fails with EINVAL iff k > size; tell
    base = os.path.join(_root(), 'x%d' % next(_counter)); os.makedirs(base)
    try:
        for i in range(n):
            size = rng.choice([0, 1, 10, 5000])
            data = bytes(rng.randrange(256) for _ in range(size))
            p = os.path.join(base, 'f%d' % i)
            with open(p, 'wb') as f: f.write(data)
            msg = None
            with open(p, 'rb') as f:
                pos = 0
                for _ in range(6):
                    r = rng.random()
                    if r < 0.5:
                        k = rng.choice([0, 1, 3, size, size + 1, 10 ** 6, -1])
                        got = f.read(k)
                        want = data[pos:] if k == -1 else data[pos:pos + k]
                        if got != want: msg = 'read(%d) at %d of %d' % (k, pos, size); break
                        pos += len(want)
                    else:
                        k = rng.choice([0, 1, size - 1, size, size + 1, 2 ** 40, 2 ** 63, 2 ** 63 + 1])
                        try:
                            f.seek(-k, os.SEEK_END); ok = 'ok'; newpos = size - k
                        except OSError as e:
                            ok = 'OSERR:%d' % e.errno; newpos = pos
                        except ValueError:
                            ok = 'ValueError'; newpos = pos
                        want = 'ValueError' if k > 2 ** 63 else ('OSERR:%d' % errno.EINVAL if k > size else 'ok')
                        if ok != want: msg = 'seek(-%d, END) on size %d: %s, expected %s' % (k, size, ok, want); break
                        pos = newpos
                    if f.tell() != pos: msg = 'tell() = %d, expected %d' % (f.tell(), pos); break
            yield 'file_contract', {'op': 'contract', 'what': 'file', 'size': size}, msg
        # --- os.makedirs / os.path.isdir / os.unlink / mkstemp / os.write / os.close contracts
        for i in range(n):
            d = os.path.join(base, 'w%d' % i); os.makedirs(d)
            msg = None
            depth = rng.randint(1, 4)
            p = os.path.join(d, *['n%d' % j for j in range(depth)])
            try:
                os.makedirs(p, 0o777)
                if not os.path.isdir(p): msg = 'makedirs succeeded but isdir is false'
            except OSError as e:
                msg = 'makedirs of a missing path failed: %s' % e.errno
            for target in (p, None):
                if msg: break
                if target is None:
                    target = os.path.join(d, 'file'); open(target, 'wb').close()
                before = sorted(os.listdir(d))
                try:
                    os.makedirs(target, 0o777); msg = 'makedirs on an existing path succeeded'
                except OSError as e:
                    if e.errno != errno.EEXIST: msg = 'makedirs on an existing path: errno %s' % e.errno
                if sorted(os.listdir(d)) != before: msg = 'failed makedirs changed the directory'
            if not msg:
                fd, name = tempfile.mkstemp(suffix='.s', dir=p, prefix='pp')
                b = os.path.basename(name)
                if os.path.dirname(name) != p or not (b.startswith('pp') and b.endswith('.s')): msg = 'mkstemp name %r' % name
                elif os.path.getsize(name) != 0: msg = 'mkstemp file not empty'
                data = bytes(rng.randrange(256) for _ in range(rng.choice([0, 1, 100, 100000])))
                k = os.write(fd, data)
                if data and not (1 <= k <= len(data)): msg = 'os.write progress: %d of %d' % (k, len(data))
                while k < len(data):            # a short write is allowed; the rest is appended by the next calls
                    j = os.write(fd, data[k:])
                    if not (1 <= j <= len(data) - k): msg = 'os.write progress: %d of %d' % (j, len(data) - k); break
                    k += j
                os.close(fd)
                if open(name, 'rb').read() != data: msg = 'file content after write/close differs'
                fd2, name2 = tempfile.mkstemp(suffix='.s', dir=p, prefix='pp'); os.close(fd2)
                if name2 == name: msg = 'mkstemp returned an existing name'
                # unlink: removes; a second unlink reports ENOENT and changes nothing
                try:
                    os.unlink(name)
                    if os.path.lexists(name): msg = 'unlink succeeded but the file exists'
                except OSError as e:
                    msg = 'unlink failed: %s' % e.errno
                before = sorted(os.listdir(p))
                try:
                    os.unlink(name); msg = msg or 'second unlink succeeded'
                except OSError as e:
                    if e.errno != errno.ENOENT: msg = 'second unlink: errno %s' % e.errno
                if sorted(os.listdir(p)) != before: msg = 'failed unlink changed the directory'
            yield 'fs_contract', {'op': 'contract', 'what': 'fs', 'depth': depth}, msg
            shutil.rmtree(d, ignore_errors=True)
    finally:
        shutil.rmtree(base, ignore_errors=True)

LEVEL_TEXT = ('Theorems for every content, every chunk size >= 1 (and -1), every n with 0 <= n <= 2^63, every errno, every runtime satisfying the stated '
              'contracts: chunking independence of compute_file_checksum (by induction on the unread part), last_bytes = final min(n,size) bytes + count before them, '
              'errno filters of ensure_tree / delete_if_exists (total case analysis) and their idempotence, write_to_tempfile specification for every content under '
              'arbitrarily short writes (write loop, fuel excluded by the progress contract; repaired defect W1). The five function bodies are '
              'translated statement by statement from the source on every run and proved equal to the model; defaults and errno numbers are regenerated.')
LEVEL_NOTE = ('Trusted: Coq kernel; translator; the runtime contracts (hash streaming homomorphism, file-object model, makedirs/unlink/mkstemp/write/close clauses) — '
              'tested on the real runtime on every run; the concrete file-system model is only a witness/correspondence vehicle. Closed under the global context.')
