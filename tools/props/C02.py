"""C02 — safety check is fail-closed: unsafe or unverifiable images are never accepted
(oslo_utils/imageutils/format_inspector.py: SafetyCheck, FileInspector.safety_check, every check_* function;
oslo_utils/imageutils/cli.py: main).

Cases
  {'op':'safety','fmt','z','sizes','exp','why','k'}   image bytes z (zlib+base64) fed to a fresh inspector in chunks of the
        given sizes until the first exception, finish(), safety_check().  exp = ground truth known to the generator
        (True: clean image, must be accepted; False: built with an unsafe / unverifiable trait, must not be accepted;
        None: the property text is silent), why = the reasons.
  {'op':'spec','fmt','z','sizes','exp','why','k'}     same run; compared with the DECLARATIVE byte-level predicate of the
        theorems (static formats), evaluated by the extracted model on the whole byte string.
  {'op':'cli','fmt','z','verbose','how','exp','why','k'}   the image on disk through the command-line checker
        (`python -m oslo_utils.imageutils -i FILE [-v]`, how='sub': real subprocess, 'main': cli.main() in process).
The image generator is tools/imgbuild.py (trait_space/trait_image: ground truth from the property text, not from the code).
"""
import sys, os, io, random, struct, zlib, base64, subprocess, atexit, shutil, contextlib, logging
import gen_insp, gen_C02_cli, gen_C02_checks
sys.path.insert(0, os.path.dirname(os.path.dirname(os.path.abspath(__file__))))
import imgbuild as ib

ID = 'C02'
GEN = [('Gen/Insp_Consts.v', gen_insp.generate), ('Gen/Insp_Code.v', gen_insp.generate_code), ('Gen/C02_Cli.v', gen_C02_cli.generate),
       ('Gen/C02_Checks.v', gen_C02_checks.generate_guarded)]
EQUIV_FILES = ['Proofs/C02_Equiv.v']
EXTRACT = 'Extract/C02_x.v'
REPO = os.environ.get('VERIF_REPO', '/repo')
STATIC = ('raw', 'qcow2', 'qed', 'vhd', 'vdi', 'iso', 'gpt', 'luks')

# ------------------------------------------------------------------ helpers
def fi():
    from oslo_utils.imageutils import format_inspector
    logging.getLogger(format_inspector.__name__).disabled = True
    return format_inspector

def pack(data): return base64.b64encode(zlib.compress(bytes(data), 6)).decode()
_dc = {}
def data_of(c):
    z = c['z']
    d = _dc.get(z)
    if d is None:
        d = zlib.decompress(base64.b64decode(z))
        if len(_dc) > 32: _dc.clear()
        _dc[z] = d
    return d

def split(data, sizes):
    out = []; pos = 0
    for n in sizes:
        out.append(data[pos:pos + n]); pos = min(len(data), pos + n)
    if pos < len(data): out.append(data[pos:])
    return out

def q(f):
    try: return str(f())
    except Exception as e: return 'EXN:' + type(e).__name__

def safety_of(insp, m):
    try:
        insp.safety_check(); return 'pass'
    except m.SafetyCheckFailed as e: return 'fail:' + ','.join(e.failures.keys())
    except m.ImageFormatError: return 'refused'
    except Exception as e: return 'crash:' + type(e).__name__

def gate_of(insp, m, safety):
    """model-free restatement of the first sentence of the property on this very object: run every registered
    check's target function ourselves and compare with what safety_check() reported."""
    raised = []
    for name, chk in insp._safety_checks.items():
        try:
            r = chk.target_fn()
            if r is not None: raised.append(name + '(returned)')
        except Exception:
            raised.append(name)
    comp = q(lambda: insp.complete); mat = q(lambda: insp.format_match)
    if safety == 'pass':
        if comp != 'True': return 'passed-incomplete'
        if mat != 'True': return 'passed-nomatch'
        if raised: return 'passed-but-raises:' + ','.join(raised)
        if not insp._safety_checks: return 'passed-without-checks'
    elif safety.startswith('fail:'):
        if safety[5:].split(',') != raised: return 'reported %s raised %s' % (safety[5:], ','.join(raised))
    elif safety == 'refused':
        if comp == 'True' and mat == 'True': return 'refused-though-complete-and-matching'
    return 'ok'

_others = {}
def other_images():
    """small clean and dirty images fed to OTHER inspector objects between eat_chunk and safety_check of the one under test"""
    if not _others:
        r = random.Random(7)
        cl = {}
        for f in ('qcow2', 'vhd', 'vdi', 'qed', 'gpt', 'luks', 'vmdk', 'raw'):
            cl[f] = [ib.random_wellformed(f, r).data[:CAP]]
        cl['qcow2'] = [ib.build('qcow2', r, version=2, length=512).data, ib.build('qcow2', r, version=3, length=512).data]
        _others['clean'] = cl
        _others['dirty'] = [ib.build('qcow2', r, version=3, incompat=0xFFF0, backing_offset=104, length=512).data,
                            ib.build('qcow2', r, version=7, length=512).data, ib.build('luks', r, version=2).data[:CAP],
                            ib.build('vmdk', r, extents=[ib.L_extent('RW', 1, 'FLAT', '/etc/passwd', 0)]).data[:CAP]]
    return _others

def disturb(m, fmt, phase):
    """another inspector of the same class and a wrapper work on other streams (no object is shared with the one under test)"""
    o = other_images()
    imgs = (o['clean'].get(fmt, []) + o['dirty']) if phase == 0 else (o['dirty'] + o['clean'].get(fmt, []))
    for d in imgs:
        x = m.ALL_FORMATS[fmt]()
        try:
            x.eat_chunk(d); x.finish()
            try: x.safety_check()
            except Exception: pass
        except Exception: pass
    for d in (o['clean']['qcow2'] + o['dirty'][:2]) if phase == 0 else (o['dirty'][:2] + o['clean']['qcow2']):
        w = m.InspectWrapper(io.BytesIO(d))
        try:
            while w.read(4096): pass
            w.close()
        except Exception: pass

def run_inspector(fmt, data, sizes, interleave=None):
    m = fi()
    insp = m.ALL_FORMATS[fmt]()
    exn = '-'
    import insp_obs as _io
    feeder = _io.Feeder(_io.container_kind(bytes(data), list(sizes)))     # chunk container varies per case (bytes, bytearray, re-used buffer, memoryview)
    for ch in split(data, sizes):
        try: _io.eat(insp, ch, feeder)
        except Exception as e:
            exn = type(e).__name__; break
    insp.finish()
    if interleave is not None: disturb(m, fmt, interleave)
    s = safety_of(insp, m)
    return insp, ';'.join([exn, q(lambda: insp.format_match), q(lambda: insp.complete), s, ','.join(insp._safety_checks.keys())]), gate_of(insp, m, s)

# ------------------------------------------------------------------ command line
TMP = '/var/tmp/C02run-%d' % os.getpid()
def _cleanup(): shutil.rmtree(TMP, ignore_errors=True)
atexit.register(_cleanup)
_n = [0]
def tmpfile(data):
    os.makedirs(TMP, exist_ok=True)
    _n[0] += 1
    p = os.path.join(TMP, 'img%d' % _n[0])
    with open(p, 'wb') as f: f.write(data)
    return p

def run_cli(path, flags, how):
    """-> exit status of the command-line checker"""
    argv = ['-i', path] + list(flags)
    if how == 'sub':
        env = dict(os.environ, PYTHONPATH=REPO, PYTHONDONTWRITEBYTECODE='1')
        r = subprocess.run([sys.executable, '-m', 'oslo_utils.imageutils'] + argv, stdout=subprocess.DEVNULL, stderr=subprocess.DEVNULL, env=env, timeout=120)
        return r.returncode
    from oslo_utils.imageutils import cli
    old = sys.argv
    sys.argv = ['oslo.utils.imageutils'] + argv
    lvl = logging.root.level; hs = list(logging.root.handlers)
    try:
        with contextlib.redirect_stdout(io.StringIO()), contextlib.redirect_stderr(io.StringIO()):
            try:
                cli.main()
                return 0
            except SystemExit as e:
                c = e.code
                return 0 if c is None else (c & 0xFF if isinstance(c, int) else 1)
            except BaseException:
                return 1            # uncaught exception: traceback, exit status 1
    finally:
        sys.argv = old
        logging.root.handlers[:] = hs; logging.root.setLevel(lvl)

def library_view(path):
    """what the library calls made by main() do on this file (in process): detection, safety_check, virtual_size"""
    m = fi()
    if not (os.path.exists(path) and os.path.isfile(path)):
        return 'nopath', '-', '-'
    try:
        insp = m.detect_file_format(path)
    except Exception as e:
        return 'EXN:' + type(e).__name__, '-', '-'
    if insp is None: return 'None', '-', '-'
    s = safety_of(insp, m)
    try:
        insp.virtual_size; v = 'ok'
    except Exception as e:
        v = 'EXN:' + type(e).__name__
    return str(insp), s, v

# ------------------------------------------------------------------ generators
def some_chunkings(img, rng, k):
    n = len(img.data)
    if n > 150000:      # the list model is quadratic in the number of chunks inside a region: large streams get large chunks
        return ([[n], [65536] * (n // 65536) + ([n % 65536] if n % 65536 else []), [n // 3, n - n // 3], [262144] * (n // 262144 + 1)])[:k]
    out = [[n] if n else []]
    if n: out.append([4096] * (n // 4096) + ([n % 4096] if n % 4096 else []))      # what detect_file_format reads
    pool = []
    for i, ch in enumerate(ib.chunkings(n, img.boundaries, rng, 'quick', max_chunks=600 if n < 100000 else 64)):
        pool.append(ch)
        if i > 60: break
    rng.shuffle(pool)
    for ch in pool:
        if len(out) >= k: break
        if ch not in out: out.append(ch)
    return out[:k]

def why(img): return list(img.traits.get('reject', [])) + ['?' + u for u in img.traits.get('unspecified', [])]

def extra_truth(img):
    """ground truth this plugin adds to imgbuild's (which leaves these 'unspecified'): see notes/C02.md"""
    un = img.traits.get('unspecified', [])
    rej = []
    # the footer takes precedence over the header for the consumer: a footer that declares another capacity / grain /
    # flags ... contradicts the header
    rej += [x for x in un if x.startswith('vmdk_footer_differs_')]
    # a createType other than the two sparse types, shadowed by an earlier createType=" token
    rej += [x for x in un if x == 'vmdk_createtype_other_shadowed']
    return rej

CAP = 16384
def capped(img):
    """drop the payload behind what the inspector needs (keeps the ground truth: the verdict does not depend on it)"""
    t = img.traits
    ca = t.get('complete_at')
    if len(img.data) > CAP and img.fmt not in ('vhdx', 'iso') and not t.get('tail_sensitive') and ca is not None and ca <= CAP // 2 \
            and not (img.fmt == 'vmdk' and t.get('has_footer')):
        return img.replace(data=img.data[:CAP])
    return img

def mk(op, img, sizes, label, **kw):
    exp = img.expect_accept
    w = why(img)
    ex = extra_truth(img)
    if ex and exp is not False and not img.traits.get('reject'):
        exp = False; w = ex + w
    c = {'op': op, 'fmt': img.fmt, 'z': pack(img.data), 'sizes': list(sizes), 'exp': exp, 'why': w, 'k': label}
    if op == 'cli':
        # the image carries its format's signature and everything the inspector needs: whatever detection reports, an
        # unsafe one must not be accepted (e.g. as raw after its own inspector raised)
        rj = img.traits.get('reject', [])
        c['own'] = bool(ib.signature_present(img.fmt, img.data) is True and img.fmt != 'raw' and 'incomplete' not in rj and 'mismatch' not in rj)
    c.update(kw)
    return c

def trait_cases(rng, tier, fmts=ib.FORMATS):
    nch = 3 if tier == 'quick' else 7
    for fmt in fmts:
        for i, img in enumerate(ib.trait_images(fmt, rng, tier)):
            if fmt == 'vhdx' and tier == 'quick' and i % 2: continue        # 0.3 .. 1.2 MB each
            img = capped(img)
            chs = some_chunkings(img, rng, nch if fmt != 'vhdx' else 2)
            for ch in chs:
                yield mk('safety', img, ch, 'trait')
            if fmt in STATIC or fmt == 'vmdk':
                yield mk('spec', img, chs[-1], 'spec')
            # irrelevant fields / truncations of a sample
            if rng.random() < (0.08 if tier == 'quick' else 0.3) and fmt != 'vhdx':
                for t in list(ib.truncations(img))[:: 3 if tier == 'quick' else 1]:
                    c = mk('safety', t, some_chunkings(t, rng, 2)[-1], 'trunc')
                    if 'vmdk_footer_not_at_end' in img.traits.get('reject', []) or img.traits.get('unspecified'):
                        # cutting off what follows the end-of-stream marker restores a well-formed image; cuts of images
                        # the text is silent about stay unjudged
                        c['exp'] = None
                    yield c
    # every inspector on every other format's clean image: never accepted as that format unless it matches
    for src in ib.FORMATS:
        img = ib.random_wellformed(src, rng)
        for fmt in ib.FORMATS:
            if fmt != src and fmt != 'raw':
                c = mk('safety', img, [4096] * (len(img.data) // 4096 + 1), 'cross:' + src)
                c['fmt'] = fmt; c['exp'] = None; c['why'] = ['cross']
                yield c

def cli_cases(rng, tier):
    n_sub = 40 if tier == 'quick' else 400
    n_main = 260 if tier == 'quick' else 4000
    pool = []
    for fmt in ib.FORMATS:
        imgs = list(ib.trait_images(fmt, rng, 'quick'))
        if fmt == 'vhdx': imgs = imgs[:10]
        pool += imgs
    clean = [i for i in pool if i.expect_accept is True]
    unsafe = [i for i in pool if i.expect_accept is False or extra_truth(i)]
    other = [i for i in pool if i.expect_accept is None and not extra_truth(i)]
    def pick(k):
        sel = []
        for grp, share in ((clean, 0.3), (unsafe, 0.55), (other, 0.15)):
            sel += rng.sample(grp, min(len(grp), max(1, int(k * share))))
        return sel
    # one clean and one unsafe image of every format first, as real subprocess runs
    first = []
    for fmt in ib.FORMATS:
        for grp in (clean, unsafe):
            g = [i for i in grp if i.fmt == fmt]
            if g: first.append(rng.choice(g))
    for j, img in enumerate(first + pick(n_sub - len(first))):
        yield mk('cli', img, [], 'cli-sub', verbose=bool(j % 3 == 0), how='sub')
    for j, img in enumerate(pick(n_main)):
        yield mk('cli', img, [], 'cli-main', verbose=bool(rng.random() < 0.4), how='main')
    for how in ('sub', 'main'):
        yield {'op': 'cli', 'fmt': 'raw', 'z': pack(b''), 'sizes': [], 'exp': False, 'why': ['missing file'], 'k': 'cli-nofile', 'verbose': False, 'how': how, 'path': 'missing'}
        yield {'op': 'cli', 'fmt': 'raw', 'z': pack(b''), 'sizes': [], 'exp': False, 'why': ['directory'], 'k': 'cli-dir', 'verbose': True, 'how': how, 'path': 'dir'}

def f1_images(rng, tier):
    """text-descriptor VMDKs (zone F1): a clean head that fills the first read, an unsafe line behind it"""
    L = ib
    for pad in ((60, 200) if tier == 'quick' else (57, 60, 100, 200, 1000)):
        for tail in ([L.L_extent('RW', 1, 'FLAT', '/etc/passwd', 0)], [L.L_junk('this is not a descriptor line')],
                     [L.L_extent('RW', 1, 'FLAT', '/dev/sda', 0), L.L_ddb()]):
            yield ib.trait_image('vmdk', dict(subformat='text', create_type_pos=0,
                                              lines=[L.L_extent()] + [L.L_comment('# ' + 'x' * 70)] * pad + tail), rng)

def f1_cases(rng, tier):
    for img in f1_images(rng, tier):
        n = len(img.data)
        for sizes in ([n], [4096] * (n // 4096 + 1), [512] * (n // 512 + 1), [100, n - 100]):
            yield mk('safety', img, sizes, 'text-descriptor')
        yield mk('cli', img, [], 'cli-text-descriptor', verbose=False, how='main')

# ------------------------------------------------------------------ descriptors with an embedded NUL
CLEAN_HEAD = b'# Disk DescriptorFile\nversion=1\ncreateType="monolithicSparse"\nRW 2048 SPARSE "disk.vmdk"\n'
CLEAN_TAIL = b'createType="monolithicSparse"\nRW 2048 SPARSE "disk.vmdk"\nddb.adapterType = "ide"\n'
def nul_images(rng, tier):
    """the descriptor is the text up to the first NUL (the consumer reads a C string): whatever follows the NUL must not
    repair a defective head (ground truth: the head decides); a clean head with anything behind the NUL: text is silent"""
    heads = [(b'version=1\ncreateType="monolithicSparse"\n', 'vmdk_no_extent'),
             (b'version=1\nRW 2048 SPARSE "disk.vmdk"\n', 'vmdk_createtype_absent'),
             (b'createType="monolithicSparse"\nRW 2048 SPARSE "disk.vmdk"\nthis is junk', 'vmdk_unrecognised_line'),
             (b'createType="monolithicSparse"\nRW 2048 SPARSE "disk.vmdk"\njunk', 'vmdk_unrecognised_line'),
             (b'createType="monolithicFlat"\nRW 2048 FLAT "disk-flat.vmdk" 0\n', 'vmdk_createtype_other'),
             (b'createType="monolithicSparse"\nRW 1 FLAT "/etc/passwd" 0\n', 'vmdk_extent_path'),
             (b'', 'vmdk_descriptor_missing'), (b'\n\n', 'vmdk_createtype_absent'),
             (b'createType="monolithicSparse"\n# RW 1 SPARSE "a"', 'vmdk_no_extent')]
    tails = [CLEAN_TAIL, b'=1\n' + CLEAN_TAIL, b'\n' + CLEAN_TAIL, b'RW 1 SPARSE "x.vmdk"\n', b'\ncreateType="streamOptimized"\n',
             b' ok=1\nRW 1 SPARSE "b.vmdk"\n', b'\x00\x00' + CLEAN_TAIL, b'# c\n\nddb.x = "1"\nkey=v\nRDONLY 1 SPARSE "c"\n' + CLEAN_TAIL]
    subs = ('monolithicSparse', 'streamOptimized')
    for head, why_ in heads:
        for tail in (tails if tier != 'quick' else rng.sample(tails, 4)):
            sub = rng.choice(subs)
            yield ib.build('vmdk', rng, subformat=sub, descriptor=head + b'\x00' + tail, desc_reject=[why_, 'text_after_nul'],
                           desc_num=rng.choice([1, 2, 20]), body_len=rng.choice([0, 512]))
    for tail in [b'junk line\n', b'RW 1 FLAT "/etc/passwd" 0\n', b'createType="vmfs"\n', b'\xff\xfe']:
        yield ib.build('vmdk', rng, subformat=rng.choice(subs), descriptor=CLEAN_HEAD + b'\x00' + tail, desc_unspecified=['vmdk_text_after_nul'],
                       desc_num=2, body_len=0)

def nul_cases(rng, tier):
    for img in nul_images(rng, tier):
        for ch in some_chunkings(img, rng, 2):
            yield mk('safety', img, ch, 'nul')
        yield mk('spec', img, [len(img.data)], 'nul-spec')
        if rng.random() < 0.25: yield mk('cli', img, [], 'cli-nul', verbose=False, how='main')

# ------------------------------------------------------------------ every header field the verdict must not depend on
def _field_vals(f, rng):
    if f.kind == 'raw':
        return [bytes(f.size), b'\xff' * f.size, rng.randbytes(f.size), b'\x01' + bytes(f.size - 1)]
    mx = (1 << (8 * f.size)) - 1
    return [0, 1, mx, mx - 1, rng.getrandbits(8 * f.size), 1 << (8 * f.size - 1)]

def sweep_bases(fmt, rng, tier):
    """one clean image and unsafe images with distinct reasons (complete, matching)"""
    seen = {}
    lim = 14 if tier == 'quick' else 60
    for img in ib.trait_images(fmt, rng, 'quick'):
        r = img.traits.get('reject', [])
        if 'incomplete' in r or 'mismatch' in r or img.traits.get('zones'): continue
        key = 'clean' if img.expect_accept is True else (tuple(sorted(set(r))) if img.expect_accept is False else None)
        if key is None or key in seen: continue
        if fmt == 'vhdx' and (key != 'clean' or tier == 'quick'): continue
        seen[key] = capped(img)
    # the clean image, then single-reason images (each unsafe trait alone), then combinations
    keys = sorted(seen, key=lambda k: (k != 'clean', len(k) if k != 'clean' else 0, str(k)))
    return [seen[k] for k in keys[:lim]]

def sweep_cases(rng, tier):
    for fmt in ib.FORMATS:
        for base in sweep_bases(fmt, rng, tier):
            names = [n for n, f in base.fields.items() if f.role == 'irrelevant' and f.off + f.size <= len(base.data)]
            for n in names:
                vals = _field_vals(base.fields[n], rng)
                if tier == 'quick' and base.expect_accept is not True: vals = vals[:3]
                for v in vals:
                    img = ib.set_field(base, n, v)
                    k = len(img.data)
                    yield mk('safety', img, rng.choice([[k], [4096] * (k // 4096 + 1), [rng.randrange(1, k + 1)]]), 'field:' + n)
            # pairs of irrelevant fields at once
            for _ in range(4 if tier == 'quick' else 30):
                img = base
                for n in rng.sample(names, min(len(names), rng.randint(2, 4))):
                    img = ib.set_field(img, n, rng.choice(_field_vals(base.fields[n], rng)))
                yield mk('safety', img, [len(img.data)], 'fields')
                if fmt in STATIC or fmt == 'vmdk': yield mk('spec', img, [len(img.data)], 'fields-spec')

# ------------------------------------------------------------------ images that make their own inspector RAISE inside eat_chunk
def raising_images(rng, tier):
    for kw in (dict(desc_sec=0), dict(desc_sec=2), dict(desc_sec=1 << 55), dict(version=0), dict(version=4), dict(version=ib.U32),
               dict(desc_sec=2, subformat='streamOptimized'), dict(version=5, subformat='streamOptimized'), dict(desc_sec=3, version=3)):
        yield ib.trait_image('vmdk', kw, rng)
    for kw in (dict(region_sig=b'regj'), dict(region_count=2048), dict(meta_sig=b'metadatb'), dict(meta_count=2048)):
        yield ib.trait_image('vhdx', dict(kw, fill='zero'), rng)

def raising_cases(rng, tier):
    for j, img in enumerate(raising_images(rng, tier)):
        yield mk('cli', img, [], 'cli-raising', verbose=bool(j % 2), how='sub' if j % 4 == 0 else 'main')
        yield mk('safety', img, [4096] * (len(img.data) // 4096 + 1) if len(img.data) < 150000 else [65536] * (len(img.data) // 65536 + 1), 'raising')

# ------------------------------------------------------------------ two-signature polyglots whose second signature lies beyond the first 4096-byte read
def polyglot_cases(rng, tier):
    for head in ('qcow2', 'vhd', 'vdi', 'gpt', 'luks', 'vmdk', 'qed'):
        for ident in ((b'CD001', b'NSR02') if tier == 'quick' else ib.ISO_IDENTS):
            base = ib.random_wellformed(head, rng)
            d = bytearray(base.data[:CAP]) + bytearray(max(0, 36864 - min(len(base.data), CAP)))
            if head == 'vmdk' and base.traits.get('has_footer'): continue
            d[32768:32775] = b'\x01' + ident + b'\x01'
            d = bytes(d)
            if ib.signature_present(head, d) is not True or ib.signature_present('iso', d) is not True: continue
            for how, v in (('main', False), ('sub', True)) if ident == b'CD001' else (('main', False),):
                yield {'op': 'cli', 'fmt': head, 'z': pack(d), 'sizes': [], 'exp': False, 'why': ['polyglot:%s+iso' % head], 'k': 'cli-polyglot',
                       'verbose': v, 'how': how, 'own': True}

def gen_cases(rng, tier):
    yield from polyglot_cases(rng, tier)
    yield from nul_cases(rng, tier)
    yield from raising_cases(rng, tier)
    yield from sweep_cases(rng, tier)
    yield from f1_cases(rng, tier)
    yield from trait_cases(rng, tier)
    yield from cli_cases(rng, tier)

# ------------------------------------------------------------------ implementation side
def impl(c):
    if c['op'] in ('safety', 'spec'):
        insp, obs, gate = run_inspector(c['fmt'], data_of(c), c['sizes'])
        # for a share of the cases: the same run with other inspectors / a wrapper working on other streams in between
        # (inspector objects share no state: the verdict must be the same)
        h = zlib.crc32(repr((c['fmt'], c['sizes'][:4], len(c['z']))).encode())
        if h % 3 == 0 and c['fmt'] != 'vhdx' and len(data_of(c)) <= 70000:
            _, obs2, _ = run_inspector(c['fmt'], data_of(c), c['sizes'], interleave=(h // 3) % 2)
            if obs2 != obs: gate = 'interleaved:' + obs2
        return obs + '|' + gate
    if c['op'] == 'cli':
        if c.get('path') == 'missing': p = os.path.join(TMP, 'no-such-file')
        elif c.get('path') == 'dir':
            os.makedirs(TMP, exist_ok=True); p = TMP
        else: p = tmpfile(data_of(c))
        try:
            det, saf, vs = library_view(p)
            code = run_cli(p, ['-v'] if c.get('verbose') else [], c['how'])
        finally:
            if c.get('path') is None:
                try: os.remove(p)
                except OSError: pass
        c['lib'] = [det, saf, vs]       # the model of main() is a function of these library outcomes (see encode)
        return 'exit=%d;detect=%s;safety=%s;vsize=%s' % (code, det, saf, vs)
    raise KeyError(c['op'])

def fields(io):
    obs, _, gate = io.partition('|')
    f = obs.split(';')
    return f, gate

def encode(c):
    if c['op'] == 'safety': return ['safety', c['fmt'], data_of(c), list(c['sizes'])]
    if c['op'] == 'spec':
        if c['fmt'] in STATIC: return ['spec', c['fmt'], data_of(c)]
        if c['fmt'] == 'vmdk':
            d = data_of(c)      # the zone the sparse-VMDK theorem characterises (complement of F1 and of C01's F3)
            if len(d) >= 64 and d[:4] == b'KDMV' and le(d, 4, 4) in (1, 2, 3) and not (le(d, 56, 8) == GD_AT_END and len(d) < 1599):
                return ['spec', 'vmdk', d]
        return None
    if c['op'] == 'cli' and 'lib' in c:
        det, saf, vs = c['lib']
        det_ok = det not in ('nopath', 'None') and not det.startswith('EXN')
        s = saf if saf in ('pass', 'refused', '-') else ('fail' if saf.startswith('fail') else saf)
        return ['cli', det != 'nopath', det_ok, 'pass' if s == '-' else s, vs in ('ok', '-'), bool(c.get('verbose'))]
    return None

def cli_fields(io): return dict(kv.split('=', 1) for kv in io.split(';'))

def project(c, io):
    if c['op'] == 'safety': return io.partition('|')[0]
    if c['op'] == 'spec':
        f, _ = fields(io)
        return 'True' if (f[0] == '-' and f[3] == 'pass') else 'False'
    if c['op'] == 'cli': return cli_fields(io)['exit']
    return io

def accepted(io):
    f, _ = fields(io)
    return f[0] == '-' and f[3] == 'pass'

def oracle(c, io):
    if io.startswith('HARNESS-ERROR'): return io
    if c['op'] in ('safety', 'spec'):
        f, gate = fields(io)
        if gate.startswith('interleaved:'):
            return 'the verdict changes when OTHER inspector objects work on other streams between eat_chunk and safety_check (shared state): alone %s, interleaved %s' % (';'.join(f), gate[12:])
        if gate != 'ok':
            return 'safety_check() outcome %s contradicts the object it ran on: %s' % (f[3], gate)
        if f[3].startswith('crash'):
            return 'safety_check() let %s escape' % f[3]
        acc = accepted(io)
        if c['exp'] is False and acc:
            return 'an image built with an unsafe / unverifiable trait was accepted (%s)' % ','.join(c['why'])
        if c['exp'] is True and not acc and c['fmt'] != 'qed':
            return 'a clean %s image was rejected: %s' % (c['fmt'], io)
        if c['exp'] is False and f[3] == 'pass' and f[0] != '-':
            return 'safety_check() returns normally on an inspector that raised %s while parsing (%s)' % (f[0], ','.join(c['why']))
        if c['fmt'] == 'qed' and f[3] == 'pass':
            return 'a QED image was accepted'
        return None
    if c['op'] == 'cli':
        d = cli_fields(io)
        ex = int(d['exit'])
        ok_lib = d['detect'] not in ('nopath', 'None') and not d['detect'].startswith('EXN') and d['safety'] == 'pass'
        if ex == 0 and not ok_lib:
            return 'the command-line checker exits 0 although detection/safety_check did not both succeed: %s' % io
        if ex == 0 and c['exp'] is False and (d['detect'] == c['fmt'] or c.get('own')):
            return 'the command-line checker exits 0 on an image built with an unsafe / unverifiable trait (%s)' % ','.join(c['why'])
        if ex != 0 and c['exp'] is True and d['detect'] == c['fmt'] and c['fmt'] != 'qed':
            return 'the command-line checker rejects a clean %s image: %s' % (c['fmt'], io)
        if ex == 0 and c['fmt'] == 'qed' and d['detect'] == 'qed':
            return 'the command-line checker accepts a QED image'
        return None
    return None

# ------------------------------------------------------------------ zones of the known findings (predicates on the INPUT bytes)
def le(b, o, w): return int.from_bytes(b[o:o + w], 'little')
GD_AT_END = 0xffffffffffffffff
def _is_text(bs): return all(x < 128 and (chr(x).isprintable() or chr(x).isspace()) for x in bs)

def zone(c):
    if c.get('op') not in ('safety', 'spec', 'cli'): return None
    d = data_of(c)
    # a command-line case belongs to a zone only when detection actually chose the inspector the zone is about
    det = (c.get('lib') or [None])[0] if c['op'] == 'cli' else c['fmt']
    if det == 'vmdk':
        sparse = d[:4] == b'KDMV' and le(d, 4, 4) in (1, 2, 3)
        if not sparse:
            # F1: the descriptor region at offset 0 (min_length 4) is parsed once, from what the first chunk(s) delivered
            if b'createtype="' in d.split(b'\x00')[0].lower(): return 'F1'
            if len(d) >= 64 and d[:4] != b'KDMV' and _is_text(d[:64]): return 'F1'
        else:
            size = min(le(d, 36, 8) * 512, (1 << 20) - 1)
            text = d[512:512 + size].split(b'\x00')[0]
            low = text.lower()
            # F6: the first createtype=" token (case-insensitively, anywhere) is not the createType line itself
            i = low.find(b'createtype="')
            if i >= 0:
                line_start = low.rfind(b'\n', 0, i) + 1
                real = [l for l in text.split(b'\n') if l.strip().startswith(b'createType=')]
                if low[line_start:i].strip() != b'' or text[i:i + 12] != b'createType="' or len(real) > 1 or low.count(b'createtype="') > 1:
                    return 'F6'
            # F5: footer announced, present, agrees with the header in the compared fields, differs elsewhere
            if le(d, 56, 8) == GD_AT_END and len(d) >= 2048 + 512:
                fh = d[-1024:-512]; h = d[:512]
                same = lambda a, b: fh[a:b] == h[a:b]
                if same(0, 8) and same(28, 44) and fh[:72] != h[:56] + fh[56:64] + h[64:72]:
                    return 'F5'
    if det == 'vhdx':
        # F7: the VHDX inspector raises on the region table (signature / count) and is frozen complete and matching
        if d[:8] == b'vhdxfile' and len(d) >= 256 * 1024:
            t = d[192 * 1024:256 * 1024]
            if t[:4] != b'regi' or le(t, 8, 4) >= 2048: return 'F7'
            for i in range(le(t, 8, 4)):
                e = t[16 + 32 * i:48 + 32 * i]
                if e[:16] == ib.guid_bytes(ib.GUID_METAREGION):
                    mo = le(e, 16, 8)
                    if len(d[mo:mo + 32]) >= 32 and d[mo:mo + 8] != b'metadata': return 'F7'
                    break
    return None

def classify(c, io):
    if c['op'] == 'cli':
        d = cli_fields(io)
        return 'cli:%s:exit%s:%s' % (c['how'], d['exit'], d['safety'].split(':')[0])
    f, _ = fields(io)
    return '%s:%s:%s:exp=%s' % (c['op'], c['fmt'], f[3].split(':')[0] if f[0] == '-' else 'exn', c['exp'])

def trivial(c, io):
    return len(data_of(c)) == 0 and c['op'] != 'cli'

# ------------------------------------------------------------------ further model-free checks + the CLI correspondence
def extra_checks(rng, tier):
    m = fi()
    # (a) an exception of any class inside a check is a failure of that check, never a pass
    for fmt in ib.FORMATS:
        img = ib.random_wellformed(fmt, rng)
        for exc in (ValueError, KeyError, IndexError, struct.error, RuntimeError, m.ImageFormatError, ZeroDivisionError):
            insp = m.ALL_FORMATS[fmt]()
            for ch in split(img.data, [65536] * (len(img.data) // 65536 + 1)): insp.eat_chunk(ch)
            insp.finish()
            names = list(insp._safety_checks)
            victim = rng.choice(names)
            def boom(exc=exc): raise exc('injected')
            insp._safety_checks[victim].target_fn = boom
            s = safety_of(insp, m)
            bad = None
            if not s.startswith('fail:') or victim not in s[5:].split(','):
                bad = 'check %s of %s raised %s but safety_check() outcome is %s' % (victim, fmt, exc.__name__, s)
            yield 'check-exception', {'op': 'inject', 'fmt': fmt, 'exc': exc.__name__, 'check': victim}, bad
    # (b) every inspector class declares at least one check; a class that declares none cannot be constructed
    for fmt, cls in m.ALL_FORMATS.items():
        n = len(cls()._safety_checks)
        yield 'at-least-one-check', {'op': 'nchecks', 'fmt': fmt}, (None if n >= 1 else '%s registers no safety check' % fmt)
    class NoCheck(m.FileInspector):
        def _initialize(self): pass
        @property
        def format_match(self): return True
    try:
        NoCheck(); bad = 'an inspector without safety checks can be constructed'
    except RuntimeError:
        bad = None
    yield 'constructor-rule', {'op': 'nochecks'}, bad
    # (c) the options of the command-line checker: anything besides -i/-v/-h is run on unsafe images and must not exit 0
    import argparse
    from oslo_utils.imageutils import cli
    class Got(Exception): pass
    orig = argparse.ArgumentParser.parse_args
    def grab(self, *a, **k): raise Got(self)
    argparse.ArgumentParser.parse_args = grab
    lvl = logging.root.level; hs = list(logging.root.handlers)
    try:
        try: cli.main(); parser = None
        except Got as g: parser = g.args[0]
        except BaseException: parser = None
    finally:
        argparse.ArgumentParser.parse_args = orig
        logging.root.handlers[:] = hs; logging.root.setLevel(lvl)
    flags = []
    if parser is not None:
        for a in parser._actions:
            if isinstance(a, (argparse._HelpAction, argparse._VersionAction)): continue
            for o in a.option_strings:
                if o not in ('-h', '--help', '-v', '--verbose', '-i', '--image'):
                    flags.append((o, a.nargs == 0))
    yield 'cli-options', {'op': 'options', 'flags': [f for f, _ in flags]}, (None if parser is not None else 'cannot reach parse_args() of cli.main')
    unsafe = [ib.build('qed', rng), ib.build('qcow2', rng, backing_offset=104), ib.build('luks', rng, version=2),
              ib.trait_image('qcow2', dict(version=3, cut=100, length=600), rng)]
    for o, is_flag in flags:
        for img in unsafe:
            for val in ([[]] if is_flag else [['1'], ['x'], ['force']]):
                p = tmpfile(img.data)
                try: code = run_cli(p, [o] + val, 'main')
                finally: os.remove(p)
                c = mk('cli', img, [], 'cli-option', verbose=False, how='main', flags=[o] + val)
                yield 'cli-extra-option', c, ('the command-line checker exits 0 on an unsafe %s image with option %s' % (img.fmt, o) if code == 0 else None)

def search(rng, budget):
    n = 0
    r2 = random.Random(rng.random())
    while n < budget:
        for c in trait_cases(r2, 'thorough' if n > 4000 else 'quick'):
            n += 1
            yield c
            if n % 40 == 0:
                img_c = dict(c, op='cli', verbose=bool(n % 80 == 0), how='main', k='cli-search')
                yield img_c

RULE = ('tools/imgbuild.py trait_space per format (each of the 64 qcow2 incompatible-feature bits at v2 and v3, subsets of the known bits, random sets, '
        'versions 0..6/extremes, backing offsets, magics; LUKS versions; the bounded MBR family 2^4 x type x boot flag + protective-entry placements; '
        'VMDK header fields, createType spellings/cases/lengths 62..65, every descriptor line class, extents with paths, every footer/marker field '
        'perturbed, truncations; null-check formats) x chunkings (single, 4096, boundary cuts, random, empty chunks), truncations, every inspector on '
        'every other format\'s image; the same images on disk through the command-line checker (subprocess and in-process main()); '
        'distinct = distinct case JSON; trivial = empty stream')
TRUSTED = ['tools/imgbuild.py: ground truth (expect_accept) derived from the property text; this plugin adds two readings (footer differs in an uncompared field, shadowed createType): notes/C02.md',
           'CPython exit status conventions (uncaught exception -> 1, sys.exit(n) -> n, return from main -> 0) as modelled in Model/C02_Cli.v',
           'tools/gen/gen_C02_cli.py: statement-by-statement translation of cli.main into the statement language of Model/C02_Cli.v (fail-closed)']
ASSUMPTIONS = ['"accepted" = no exception escaped eat_chunk and safety_check() returned normally (an exception voids the inspection); acceptance of a frozen inspector is reported separately (finding F7)',
               'detection (InspectWrapper) is an input of the command-line model: exit status is a function of (path ok, detection outcome, safety_check outcome, virtual_size outcome, -v)',
               'VHDX: state level only (null check: Pass <-> complete and match in every reachable state); byte level for all chunkings for the eight static formats and for sparse VMDK outside the zones F1 (no valid sparse header) and F3 (footer announced, stream shorter than 63+1536 bytes)']
LEVEL_TEXT = ('safety_check() gate proved for every format and state; Pass characterised on the bytes for all chunkings (qcow2, luks, gpt/mbr, qed, vhd, vdi, iso, raw, '
              'and sparse VMDK: both directions, frozen inspectors included; VHDX through the C01 refinement outside its zones, with finding F7 stated as a theorem); every check_* function, SafetyCheck.__call__ and safety_check translated statement by statement and proved equal to the model (12 equivalence lemmas); cli.main translated and exit status 0 characterised; F1 refuted by witness.')
LEVEL_NOTE = 'Byte-level VHDX/VMDK statements rest on the C01 refinement theorems (zones F1-F4); VMDK text-descriptor mode is finding F1, footer/createType/frozen-VHDX acceptance are findings F5-F7; see notes/C02.md'
