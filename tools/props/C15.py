"""C15 — EUI-64, host:port and URL helpers round-trip (oslo_utils/netutils.py)"""
import sys, os, random, re, ipaddress
from urllib import parse as _uparse
import gen_C15
import gen_C11

ID = 'C15'
# the text-level model reuses C11's models of IPNetwork / is_valid_ipv4 / is_valid_ipv6 (Model/C11.v over Gen/C11_Netutils.v)
GEN = [('Gen/C15_Netutils.v', gen_C15.generate), ('Gen/C11_Netutils.v', gen_C11.generate), ('Gen/C11_Code.v', gen_C11.generate_code)]
EQUIV_FILES = ['Proofs/C15.v']
EXTRACT = 'Extract/C15_x.v'

TRUSTED = [
    'No parsing oracle is left for text arguments: netaddr.IPNetwork(text) (value, prefix length, first), is_valid_ipv4, is_valid_ipv6 are the '
    'Coq models of C11 (Model/C11.v, extended in Model/C15_Text.v), netaddr.EUI(text) is the Coq recogniser of Model/C15_Text.v '
    '(RE_MAC_FORMATS / RE_EUI64_FORMATS / int() fall-back), str(EUI) the printer there; all tied to netaddr 1.3.0 / glibc by correspondence '
    '(ops euitext, euiparse, net, mactext, hosttext) — that the libraries behave like these models is tested, not proved',
    'still oracle inputs: the exception CLASS netaddr raises for NON-TEXT arguments (None, float, list, bytes prefix/MAC) of get_ipv6_addr_by_EUI64; '
    'urllib.parse.urlsplit (contract: no "?" in the returned path, no "#" when fragments are allowed) and urllib.parse.parse_qsl (contract: a list '
    'of (str, str) pairs) — both contracts are premises of the theorems and are tested on every generated URL / query',
    'CPython int()/str() modelled in Base/PyInt.v (+ C11_Lib.py_int_str); str.split/rsplit/count/in modelled in Base/Str.v, Base/C15_PyVal.v',
]
ASSUMPTIONS = [
    'parse_host_port: None and "" are identified (both falsy); int() digit-count limit (4300) not modelled',
    'get_mac_addr_by_ipv6: argument is a netaddr.IPAddress (v6 or v4) or a plain non-negative int',
    'urlsplit: str URLs only (bytes URLs raise TypeError in oslo\'s post-processing: observation, outside the quantifier)',
]
RULE = ('48-bit MACs {0, 2^48-1, single bits, U/L bit set/clear, random} in five netaddr dialects, EUI-64 and int MACs, malformed/non-str MACs x '
        'IPv6 prefixes /0../64, /96, /127, /128 and bare addresses, with and without host bits, compressed/exploded/upper-case text, IPv4 '
        'addresses (strict and inet_aton forms), IPv4 CIDRs, malformed and non-str prefixes; interface-identifier addresses built independently '
        'for the inverse; hosts (names, IPv4, IPv6 +- scope, hostile strings) x ports {0,1,80,65535,65536,-1,random} x default ports; raw '
        'address strings for parse_host_port; URLs from a component grammar x allow_fragments x default scheme; query strings with repeated '
        'names; call SEQUENCES (statelessness: every helper repeated after other calls, urlsplit with all allow_fragments/scheme combinations on the '
        'same and on equal-but-not-identical URLs, params() repeatedly on one object, calls that raise in between) run on a fresh module '
        'instance and compared call by call with the same call alone on its own fresh instance; distinct = distinct case JSON; trivial = none')

M64 = (1 << 64) - 1

def _nu():
    from oslo_utils import netutils
    return netutils

def S(s):
    return 'S' + '.'.join(str(ord(c)) for c in s)
def OS(s):
    return 'None' if s is None else S(s)
def _cls(e):
    n = type(e).__name__
    return 'EXN:' + (n if n in ('ValueError', 'TypeError', 'IndexError', 'KeyError', 'AttributeError', 'OverflowError') else 'OtherError')

# ------------------------------------------------------------------ generators

def mac_text(rng, v):
    h = '%012x' % v
    b = [h[i:i + 2] for i in range(0, 12, 2)]
    k = rng.randrange(7)
    if k == 0: return ':'.join(b)
    if k == 1: return '-'.join(b).upper()
    if k == 2: return '.'.join(h[i:i + 4] for i in range(0, 12, 4))
    if k == 3: return h
    if k == 4: return ':'.join(x.lstrip('0') or '0' for x in b)
    if k == 5: return '-'.join(b)
    return ':'.join(b).upper()

def rand_mac48(rng):
    r = rng.random()
    if r < 0.08: return rng.choice([0, (1 << 48) - 1, 1 << 41, ((1 << 48) - 1) ^ (1 << 41), 1 << 40, 0xFFFFFF, 0xFFFFFF000000, 0x00163e334455])
    if r < 0.25: return 1 << rng.randrange(48)
    if r < 0.35: return ((1 << 48) - 1) ^ (1 << rng.randrange(48))
    if r < 0.45: return rng.getrandbits(48) | (1 << 41)
    if r < 0.55: return rng.getrandbits(48) & ~(1 << 41)
    return rng.getrandbits(48)

BAD_MACS = ['', 'zz', '00:16:3e:33:44', '00:16:3e:33:44:5g', '00:16:3e:33:44:55:66', 'g0:16:3e:33:44:55', ' 00:16:3e:33:44:55',
            '00:16:3e:33:44:55 x', '00;16;3e;33;44;55', '0016.3e33', '::', '00:16:3e:33:44:555', 'mac', '00-16-3e-33-44-', '٠٠:16:3e:33:44:55']
NONSTR = ['none', 'float', 'list', 'bytes', 'negint', 'bigint']
def nonstr_value(tag, what):
    return {'none': None, 'float': 1.5, 'list': [1], 'bytes': (b'00:16:3e:33:44:55' if what == 'mac' else b'2001:db8::/64'),
            'negint': -1, 'bigint': 1 << 130}[tag]

def v6_text(rng, v):
    a = ipaddress.IPv6Address(v)
    k = rng.randrange(5)
    if k == 0: return a.compressed
    if k == 1: return a.exploded
    if k == 2: return a.compressed.upper()
    if k == 3 and (v >> 32) in (0xFFFF, 0): return '::' + ('ffff:' if v >> 32 else '') + str(ipaddress.IPv4Address(v & 0xFFFFFFFF))
    return a.compressed

def rand_v6(rng):
    r = rng.random()
    if r < 0.1: return rng.choice([0, 1, (1 << 128) - 1, 0x20010db8 << 96, 0xfe80 << 112, (1 << 64) - 1, 1 << 64, ((1 << 128) - 1) ^ M64, 1 << 127])
    if r < 0.5: return ((0x20010db8 << 96) | (rng.getrandbits(32) << 64) | (rng.getrandbits(64) if rng.random() < 0.5 else 0))
    if r < 0.6: return rng.getrandbits(64) << 64
    if r < 0.7: return rng.getrandbits(128) & ~(rng.getrandbits(128))
    return rng.getrandbits(128)

def rand_prefix(rng):
    """-> dict(prefix=text, fam_p=..., addr=int, plen=int)"""
    r = rng.random()
    if r < 0.70:
        addr = rand_v6(rng)
        q = rng.random()
        plen = 64 if q < 0.45 else rng.choice([0, 1, 8, 10, 32, 48, 56, 63, 65, 96, 120, 127, 128]) if q < 0.8 else rng.randint(0, 128)
        if rng.random() < 0.5: addr &= ~((1 << (128 - plen)) - 1)      # no host bits
        t = v6_text(rng, addr)
        if rng.random() < 0.08:
            return {'prefix': t, 'fam_p': 'v6net', 'addr': addr, 'plen': 128}
        return {'prefix': '%s/%d' % (t, plen), 'fam_p': 'v6net', 'addr': addr, 'plen': plen}
    if r < 0.80:
        return {'prefix': str(ipaddress.IPv4Address(rng.choice([0, 0x0a000001, 0xffffffff, rng.getrandbits(32)]))), 'fam_p': 'v4addr'}
    if r < 0.85:
        return {'prefix': rng.choice(['10.1', '1234', '0x7f.1', '127.1', '010.0.0.1', '1.2.3', '0xa.0.0.1', '4294967295', '0']), 'fam_p': 'v4loose'}
    if r < 0.90:
        return {'prefix': '%s/%d' % (ipaddress.IPv4Address(rng.getrandbits(32)), rng.randint(0, 32)), 'fam_p': 'v4cidr'}
    if r < 0.97:
        return {'prefix': rng.choice(['', 'x', '2001:db8::/129', '2001:db8::/-1', '2001:db8::/x', '2001:db8:::/64', '2001:db8::/64/64', 'fe80::1%eth0/64',
                                      '2001:db8::g/64', ':/64', '/64', '1::2::3/64', '2001:db8/32', 'prefix', '12345::/64', '::/', ' ', '2001:db8::/64\x00',
                                      '10.0.0.0/33', '10.0.0.256', '1.2.3.4.5', '300.1.1.1/8']), 'fam_p': 'bad'}
    return {'prefix': rng.choice(NONSTR), 'fam_p': 'nonstr'}

def rand_mac(rng):
    r = rng.random()
    if r < 0.72:
        v = rand_mac48(rng)
        return {'mac': mac_text(rng, v), 'fam_m': 'mac48', 'macv': v}
    if r < 0.78:
        v = rng.getrandbits(64)
        h = '%016x' % v
        if rng.random() < 0.15: return {'mac': rng.choice(['1.2.3.4', '1-2-3-4-5-6', '1234567', '0001.0002.0003.0004']), 'fam_m': 'eui64s'}
        return {'mac': rng.choice([':', '-']).join(h[i:i + 2] for i in range(0, 16, 2)), 'fam_m': 'eui64s'}
    if r < 0.84:
        return {'mac': rng.choice([0, 1, (1 << 48) - 1, 1 << 48, (1 << 64) - 1, 1 << 57, rng.getrandbits(48), rng.getrandbits(64)]), 'fam_m': 'int'}
    if r < 0.95:
        return {'mac': rng.choice(BAD_MACS), 'fam_m': 'bad'}
    return {'mac': rng.choice(NONSTR), 'fam_m': 'nonstr'}

LABEL = 'abcdefghijklmnopqrstuvwxyz0123456789'
def rand_name(rng):
    labs = []
    for _ in range(rng.randint(1, 4)):
        l = ''.join(rng.choice(LABEL) for _ in range(rng.randint(1, 8)))
        if rng.random() < 0.2 and len(l) > 2: l = l[:1] + rng.choice('-_') + l[1:]
        if rng.random() < 0.1: l = l.upper()
        labs.append(l)
    return '.'.join(labs)

SCOPE_SANE = 'abcdefghijklmnopqrstuvwxyz0123456789'
def rand_host(rng):
    r = rng.random()
    if r < 0.25: return rand_name(rng), 'name'
    if r < 0.40: return str(ipaddress.IPv4Address(rng.choice([0, 0x7f000001, 0xffffffff, rng.getrandbits(32)]))), 'ipv4'
    if r < 0.62: return v6_text(rng, rand_v6(rng)), 'ipv6'
    if r < 0.82:
        n = rng.choice([1, 1, 2, 4, 4, 8, 15, 15])
        sc = ''.join(rng.choice(SCOPE_SANE + '._-') if rng.random() < 0.85 else rng.choice(']:[ /%@#?') for _ in range(n))
        return v6_text(rng, rand_v6(rng) | (0xfe80 << 112)) + '%' + sc, 'ipv6scope'
    # hostile / out-of-family strings
    return rng.choice(['', '[', ']', ':', 'a:b', 'a:b:c', '[::1]', '[::1', '::1]', 'h]', '[h', 'a b', 'fe80::1%', 'fe80::1%' + 'x' * 16, '::1%a%b',
                       'h\n', ' h', 'h:', ':h', '1::2::3', 'g::1', '::g', 'h%eth0', '[h]', 'a]b:c', 'éè.example', 'x' * 70,
                       ''.join(rng.choice('ab:[]%.1 ') for _ in range(rng.randint(1, 8)))]), 'hostile'

PORTS = [0, 1, 80, 443, 8080, 65535, 65536, -1, 10 ** 6, 10 ** 25]
def rand_default(rng):
    r = rng.random()
    if r < 0.4: return ['N', 0]
    if r < 0.85: return ['I', rng.choice([0, 1, 80, 1234, 65535, 65536, -7, rng.randint(0, 70000)])]
    return ['S', rng.choice(['8080', ' 80 ', 'x', '', '8_0', '+7', '٣٤'])]

def rand_address(rng):
    r = rng.random()
    if r < 0.05: return rng.choice([None, '', '[', ']', ':', '[]', '[]:', '[:', '[]]', '[]:1:2'])
    if r < 0.45:
        h, _ = rand_host(rng)
        br = rng.random()
        if br < 0.4: h = '[' + h + ']'
        elif br < 0.45: h = '[' + h
        elif br < 0.5: h = h + ']'
        p = rng.random()
        port = '' if p < 0.25 else ':' + rng.choice(['80', '0', '65535', '65536', '', ' 80', '80 ', '8_0', '+80', '-1', 'x', '80:90', '0x50', '٨٠', '1e3', '080', '__1', '8__0', '\n80'])
        mid = rng.choice(['', '', '', '', 'x', ' ']) if br < 0.4 else ''
        return h + mid + port
    return ''.join(rng.choice('[]:%.-_ a1b٣]:[') for _ in range(rng.randint(1, 10)))

SCHEMES = ['http', 'https', 'ftp', 'svn+ssh', 'file', 'mailto', 'HTTP', 'x-y.z', '1ab', 'rbd', 'ws', '']
def rand_url(rng):
    sch = rng.choice(SCHEMES)
    u = ''
    if sch: u += sch + ':'
    if rng.random() < 0.8:
        nl = ''
        if rng.random() < 0.3:
            nl += rng.choice(['user', 'u%40x', 'user:pw', 'user:p:w', ':pw', 'u@v', '']) + '@'
        h, fam = rand_host(rng)
        if fam == 'hostile' and rng.random() < 0.8: h, fam = rand_name(rng), 'name'
        if fam in ('ipv6', 'ipv6scope') and rng.random() < 0.9: h = '[' + h.replace('%', '%25' if rng.random() < 0.5 else '%') + ']'
        nl += h
        if rng.random() < 0.5: nl += ':' + rng.choice(['80', '0', '65535', '65536', '', 'x', '8_0', ' 80', '-1', '٨٠'])
        u += '//' + nl
    if rng.random() < 0.85:
        segs = [rng.choice(['a', 'b.c', 'v2.0', '%20', ';p=1', 'x;y', '', '..', 'a b', 'é', 'q:r', 'a@b', '[', ']', 'a\tb', '~']) for _ in range(rng.randint(0, 4))]
        u += '/' + '/'.join(segs)
    if rng.random() < 0.6:
        u += '?' + rand_query(rng)
    if rng.random() < 0.5:
        u += '#' + rng.choice(['', 'frag', 'a?b', 'a#b', 'x=1&y=2', '/p', '?', '#', 'fr ag'])
    if rng.random() < 0.08:
        u = rng.choice([' ', '\n', '\x00', '\t']) + u
    if rng.random() < 0.05:
        u = rng.choice(['#', '?', '?#', '#?', '//', '///', ':', 'a:', '//[', '//]', 'http://[::1', 'http://::1]', 'a?b?c#d#e', 'p#f?q', '//h?q/p#f', 'http:?q', 'http:#f'])
    return u

NAMES = ['a', 'b', 'name', 'x', '', 'a b', 'k%3D', '%26', 'A', 'é']
def rand_query(rng):
    parts = []
    for _ in range(rng.randint(0, 6)):
        k = rng.choice(NAMES if rng.random() < 0.8 else ['a', 'a', 'b'])
        r = rng.random()
        if r < 0.7: parts.append(k + '=' + rng.choice(['1', '2', 'v', 'x+y', '%20', 'a%3Db', '', 'é', '1=2', 'a;b']))
        elif r < 0.8: parts.append(k)
        elif r < 0.9: parts.append(k + '=')
        else: parts.append('')
    return rng.choice(['&', '&', '&', ';']).join(parts) if rng.random() < 0.95 else rng.choice(['', '&', '=', '&&', 'a', '=&=', 'a=1&a=2&a=3&a=4'])

def case_eui(rng):
    c = {'op': 'eui'}
    c.update(rand_prefix(rng)); c.update(rand_mac(rng))
    return c

HEXD = '0123456789abcdefABCDEF'
def rand_eui_text(rng):
    r = rng.random()
    if r < 0.30: return mac_text(rng, rand_mac48(rng))
    if r < 0.40:
        v = rng.getrandbits(64); h = '%016x' % v
        k = rng.randrange(4)
        if k == 0: return ':'.join(h[i:i + 2] for i in range(0, 16, 2))
        if k == 1: return '-'.join(h[i:i + 4] for i in range(0, 16, 4)).upper()
        if k == 2: return '.'.join(h[i:i + 4].lstrip('0') or '0' for i in range(0, 16, 4))
        return h
    if r < 0.60:
        # word grids: n words of len lo..hi with a separator (all RE_MAC/RE_EUI64 shapes and near misses)
        sep = rng.choice([':', '-', '.', ':', '-', '', ';'])
        n = rng.choice([1, 2, 3, 4, 5, 6, 7, 8, 9])
        L = rng.choice([(1, 2), (1, 4), (5, 6), (1, 6), (2, 2), (4, 4), (6, 6), (1, 3)])
        ws = [''.join(rng.choice(HEXD) for _ in range(rng.randint(*L))) for _ in range(n)]
        t = sep.join(ws)
        if rng.random() < 0.15: t += rng.choice(['\n', '\n\n', ' ', '\r\n', 'g'])
        if rng.random() < 0.08: t = rng.choice(['\n', ' ', 'x']) + t
        return t
    if r < 0.72:
        n = rng.choice([10, 11, 12, 13, 15, 16, 17])
        return ''.join(rng.choice(HEXD if rng.random() < 0.7 else '0123456789') for _ in range(n))
    if r < 0.90:
        return rng.choice(['0', '1', ' 12 ', '1234567', '٣', '-1', '+5', '1_0', '281474976710655', '281474976710656', '18446744073709551615',
                           '18446744073709551616', '99999999999999999999999', '12\x1f', '\t7\n', '0x10', '1e3', '00', '007', '٠٠:16:3e:33:44:55',
                           str(rng.getrandbits(rng.choice([8, 40, 47, 48, 49, 63, 64, 65])))])
    return rng.choice(BAD_MACS + ['1.2.3.4', '1-2-3-4-5-6', 'aa:bb:cc:dd:ee:ff\n', 'AA-BB-CC-DD-EE-FF', 'aabb.ccdd.eeff', 'aabbcc-ddeeff', 'aabbc:ddeef',
                                  'aa:bb:cc:dd:ee:ff:00:11', 'ſa:bb:cc:dd:ee:ff', 'Aa:bB:cc:dd:ee:ff', 'a:b:c:d:e:f', 'a-b-c', 'a.b.c', 'a.b.c.d', ''])

def rand_net_text(rng):
    r = rng.random()
    if r < 0.45: return rand_prefix(rng)['prefix'] if rng.random() < 0.9 else 'x'
    a6 = v6_text(rng, rand_v6(rng)); a4 = str(ipaddress.IPv4Address(rng.getrandbits(32)))
    if r < 0.60:
        j = rng.randint(0, 128); m = rng.choice([(1 << 128) - (1 << j), (1 << j) - 1, rng.getrandbits(128), ((1 << 128) - (1 << j)) ^ (1 << rng.randrange(128))]) % (1 << 128)
        return a6 + '/' + v6_text(rng, m)
    if r < 0.72:
        j = rng.randint(0, 32); m = rng.choice([(1 << 32) - (1 << j), (1 << j) - 1, rng.getrandbits(32)]) % (1 << 32)
        return a4 + '/' + str(ipaddress.IPv4Address(m))
    if r < 0.90:
        a = rng.choice([a6, a4])
        return a + '/' + rng.choice(['0', '1', '32', '33', '64', '128', '129', ' 64', '64 ', '+64', '-0', '-1', '6_4', '٦٤', '064', '', ' ', '0x40', '64/64', '1e1', '\t8\n', '8\x1f', str(rng.randint(0, 140))])
    return rng.choice([a4 + '/' + a6, a6 + '/' + a4, a6 + '%eth0', a6 + '%eth0/64', '/' + a6, a6 + '//64', a4 + '\x00', a6.replace(':', '.', 1), '::/::', '::/ffff::', '0.0.0.0/0.0.0.0',
                       '1.2.3.4/255.255.255.255', '1.2.3.4/0.0.0.255', '1.2.3.4/255.0.255.0', '01.2.3.4/8', '1.2.3/8', '::ffff:1.2.3.4/120', '1::2::3', ':::', '::', '1:2:3:4:5:6:7:8:9'])

SEQ_URLS = ['http://h/p#f', 'http://h/p?q=1#f?x', 'http://u:p@[::1]:80/a;b?x=1&x=2#frag', '//h/p#a#b', 'p#f?q', 'http://h/#', 'svn+ssh://h/p?a=1&a=2#x=1',
            'http://h/p', 'http://h/p?a=1&b=2&a=3', '#', 'x#y', 'http://[fe80::1%25eth0]:8080/v2.0#top']
def rand_seq(rng):
    """a call sequence for the statelessness oracle: the same urlsplit arguments with every allow_fragments / scheme
    combination in varying order, on the same and on equal-but-not-identical strings, interleaved with the other helpers
    (repeated, also after calls that raise)"""
    u = rng.choice(SEQ_URLS) if rng.random() < 0.6 else rand_url(rng)
    if '#' not in u and rng.random() < 0.7: u += '#' + rng.choice(['f', 'a?b', '', 'x#y'])
    combos = [(sc, al) for sc in ('', 'http', 'x') for al in (True, False)]
    rng.shuffle(combos)
    calls = []
    for sc, al in combos[:rng.randint(2, 6)]:
        calls.append({'op': 'url', 'url': u, 'scheme': sc, 'allow': al, 'copy': rng.random() < 0.4})
    for _ in range(rng.randint(0, 2)):   # exact repeats
        calls.append(dict(rng.choice(calls), copy=rng.random() < 0.5))
    others = []
    h, _f = rand_host(rng)
    hp = {'op': 'hostport', 'host': h, 'port': rng.choice(PORTS), 'd': rand_default(rng)}
    others += [hp, dict(hp, port=rng.choice(PORTS)), hp]
    a = rand_address(rng)
    others += [{'op': 'parse', 'addr': a, 'd': ['I', 1]}, {'op': 'parse', 'addr': a, 'd': ['N', 0]}, {'op': 'parse', 'addr': '[a', 'd': ['N', 0]}]
    e = case_eui(rng)
    others += [e, dict(e, mac='zz', fam_m='bad'), e, dict(e, prefix='10.0.0.1', fam_p='v4addr'), e]
    m = case_inv(rng)
    others += [m, {'op': 'mac', 'ver': 4, 'v': 1}, m]
    q = rand_query(rng)
    others += [{'op': 'params2', 'q': q}, {'op': 'params', 'q': q, 'via': False}, {'op': 'params2', 'q': q}]
    others += [{'op': 'url', 'url': 'http://[::1', 'scheme': '', 'allow': True}]          # raises
    rng.shuffle(others)
    k = rng.randint(2, 7)
    for o in others[:k]:
        calls.insert(rng.randint(0, len(calls)), o)
    return {'op': 'seq', 'calls': calls}

def case_inv(rng):
    """an interface-identifier based address built without the implementation"""
    r = rng.random()
    if r < 0.7:
        m = rand_mac48(rng)
        return {'op': 'mac', 'ver': 6, 'v': (rng.choice([0, 0xfe80 << 48, 0x20010db8 << 32, rng.getrandbits(64)]) << 64) | meui64(m), 'from_mac': m}
    if r < 0.85: return {'op': 'mac', 'ver': 6, 'v': rand_v6(rng) if rng.random() < 0.7 else rng.getrandbits(128) | (1 << 32)}
    if r < 0.93: return {'op': 'mac', 'ver': 0, 'v': rng.choice([0, 1, rng.getrandbits(64), rng.getrandbits(128), rng.getrandbits(140)])}
    return {'op': 'mac', 'ver': 4, 'v': rng.getrandbits(32)}

def gen_cases(rng, tier):
    k = 1 if tier == 'quick' else 30
    # boundary values first
    for m in [0, (1 << 48) - 1, 1 << 41, 1 << 40, 0x00163e334455]:
        for p, a, l in [('2001:db8::/64', 0x20010db8 << 96, 64), ('fe80::/64', 0xfe80 << 112, 64), ('::/0', 0, 0), ('2001:db8::1/64', (0x20010db8 << 96) | 1, 64),
                        ('2001:db8::', 0x20010db8 << 96, 128), ('2001:db8::1/128', (0x20010db8 << 96) | 1, 128),
                        ('ffff:ffff:ffff:ffff:ffff:ffff:ffff:ffff/128', (1 << 128) - 1, 128), ('ffff:ffff:ffff:ffff::/64', ((1 << 128) - 1) ^ M64, 64)]:
            yield {'op': 'eui', 'prefix': p, 'fam_p': 'v6net', 'addr': a, 'plen': l, 'mac': '%02x:%02x:%02x:%02x:%02x:%02x' % tuple((m >> s) & 255 for s in range(40, -1, -8)), 'fam_m': 'mac48', 'macv': m}
    yield {'op': 'eui', 'prefix': '::/64', 'fam_p': 'v6net', 'addr': 0, 'plen': 64, 'mac': '02-00-00-00-00-00-00-00', 'fam_m': 'eui64s'}
    yield {'op': 'eui', 'prefix': '%s/128' % ipaddress.IPv6Address((1 << 57) - 0xFFFE000000), 'fam_p': 'v6net', 'addr': (1 << 57) - 0xFFFE000000, 'plen': 128, 'mac': '00:00:00:00:00:00', 'fam_m': 'mac48', 'macv': 0}
    for h in ['server01', '10.0.0.1', '::1', '2001:db8:85a3::8a2e:370:7334', 'fe80::1%eth0', 'fe80::1%a]b', 'fe80::1%]', 'fe80::1%eth0/64', 'a:b', '']:
        for p in [0, 80, 65535, 65536]:
            yield {'op': 'hostport', 'host': h, 'port': p, 'd': ['I', 1234]}
    for a in [None, '', 'server01:80', 'server01', '[::1]:80', '[::1]', '2001:db8:85a3::8a2e:370:7334', '[::1]:80:90', '[::1]x', 'h:80:90', '[a]b]:1', '[a]b]', '[a]:1]:2', '[a', 'a]:1']:
        for d in (['N', 0], ['I', 1234]):
            yield {'op': 'parse', 'addr': a, 'd': d}
    for _ in range(2500 * k): yield case_eui(rng)
    for _ in range(800 * k): yield case_inv(rng)
    # statelessness: the answer to a call does not depend on earlier calls
    yield {'op': 'seq', 'calls': [{'op': 'url', 'url': 'http://h/p#f', 'scheme': '', 'allow': a} for a in (True, False, True)]}
    yield {'op': 'seq', 'calls': [{'op': 'url', 'url': 'http://h/p?q#f', 'scheme': '', 'allow': a, 'copy': cp} for a, cp in ((False, False), (True, True), (False, True))]}
    for _ in range(300 * k): yield rand_seq(rng)
    for _ in range(200 * k): yield {'op': 'params2', 'q': rand_query(rng)}
    for _ in range(1500 * k): yield {'op': 'euiparse', 'm': rand_eui_text(rng)}
    for _ in range(1500 * k): yield {'op': 'net', 'p': rand_net_text(rng)}
    for _ in range(400 * k):
        yield {'op': 'mactext', 'v': ((rng.getrandbits(64) << 64) | meui64(rand_mac48(rng))) if rng.random() < 0.7 else (rng.getrandbits(128) | (1 << 33))}
    for _ in range(2500 * k):
        h, fam = rand_host(rng)
        yield {'op': 'hostport', 'host': h, 'port': rng.choice(PORTS) if rng.random() < 0.6 else rng.randint(0, 65535), 'd': rand_default(rng)}
    for _ in range(1500 * k):
        yield {'op': 'parse', 'addr': rand_address(rng), 'd': rand_default(rng)}
    for _ in range(2000 * k):
        yield {'op': 'url', 'url': rand_url(rng), 'scheme': rng.choice(['', '', 'http', 'x']), 'allow': rng.random() < 0.6}
    for _ in range(1200 * k):
        yield {'op': 'params', 'q': rand_query(rng), 'via': rng.random() < 0.3}
    if tier == 'thorough':
        for p in range(0, 65536):
            yield {'op': 'hostport', 'host': rng.choice(['server01', '10.0.0.1', '::1', 'fe80::1%eth0']), 'port': p, 'd': ['N', 0]}
        for i in range(48):
            for j in range(i, 48):
                m = (1 << i) | (1 << j)
                yield {'op': 'eui', 'prefix': '2001:db8:1:2::/64', 'fam_p': 'v6net', 'addr': 0x20010db800010002 << 64, 'plen': 64, 'mac': mac_text(rng, m), 'fam_m': 'mac48', 'macv': m}

# ------------------------------------------------------------------ implementation side

def _pyvals(c):
    p = c['prefix'] if c['fam_p'] != 'nonstr' else nonstr_value(c['prefix'], 'prefix')
    m = c['mac'] if c['fam_m'] != 'nonstr' else nonstr_value(c['mac'], 'mac')
    return p, m

def _dflt(d):
    return None if d[0] == 'N' else d[1]

def _hp(f, *a):
    try:
        h, p = f(*a)
    except Exception as e:
        return _cls(e)
    return '%s %s' % (OS(h), 'None' if p is None else str(p))

def _split5(r):
    return ' '.join(S(x) for x in (r.scheme, r.netloc, r.path, r.query, r.fragment))

def _acc(r):
    out = []
    for a in ('username', 'password', 'hostname', 'port'):
        try: out.append(repr(getattr(r, a)))
        except Exception as e: out.append(_cls(e))
    out.append(repr(r.geturl()))
    return '|'.join(out)

def _params_text(d):
    def pv(v): return S(v) if isinstance(v, str) else '[' + ','.join(S(x) for x in v) + ']'
    return ';'.join('%s=%s' % (S(k), pv(v)) for k, v in d.items())

def _fresh_nu():
    """a FRESH copy of oslo_utils/netutils.py (own module-level state), not registered in sys.modules"""
    import importlib.util
    repo = os.environ.get('VERIF_REPO', '/repo')
    spec = importlib.util.spec_from_file_location('oslo_utils._verif_fresh_netutils', os.path.join(repo, 'oslo_utils', 'netutils.py'))
    m = importlib.util.module_from_spec(spec)
    spec.loader.exec_module(m)
    return m

def _copy_str(x):
    """an equal but not identical str object"""
    return ''.join(list(x)) if isinstance(x, str) and len(x) > 1 else x

def _impl_seq(c):
    """the calls of c['calls'] in order on ONE fresh module instance, and each call alone on its own fresh instance"""
    import json
    nu = _fresh_nu()
    ins, alone = [], []
    for sub in c['calls']:
        try: ins.append(_impl(sub, nu))
        except Exception as e: ins.append('HARNESS:' + type(e).__name__)
    for sub in c['calls']:
        try: alone.append(_impl(sub, _fresh_nu()))
        except Exception as e: alone.append('HARNESS:' + type(e).__name__)
    return json.dumps({'seq': ins, 'alone': alone})

def impl(c):
    if c['op'] == 'seq': return _impl_seq(c)
    return _impl(c, _nu())

def _impl(c, nu):
    import netaddr
    op = c['op']
    if op == 'params2':
        # one object: collapse True, False, (the returned containers are then vandalised), True, False again
        r = nu._ModifiedSplitResult('http', 'h', '/p', c['q'], '')
        out = []
        for coll in (True, False, True, False):
            try:
                d = r.params(collapse=coll); out.append(_params_text(d))
                for v in list(d.values()):
                    if isinstance(v, list): v.append('vandal')
                d['vandal'] = 'x'
            except Exception as e: out.append(_cls(e))
        return ' | '.join(out)
    if op == 'url' and c.get('copy'):
        c = dict(c, url=_copy_str(c['url']), scheme=_copy_str(c['scheme']))
    if op == 'eui':
        p, m = _pyvals(c)
        try:
            r = nu.get_ipv6_addr_by_EUI64(p, m)
        except Exception as e:
            return 'F:%s R:-' % _cls(e)
        f = '%d %d' % (r.version, int(r))
        try:
            e = nu.get_mac_addr_by_ipv6(r)
            back = '%d %d' % (e.version, int(e))
        except Exception as e:
            back = _cls(e)
        return 'F:%s R:%s' % (f, back)
    if op == 'mac':
        arg = c['v'] if c['ver'] == 0 else netaddr.IPAddress(c['v'], c['ver'])
        try:
            e = nu.get_mac_addr_by_ipv6(arg)
        except Exception as e:
            return _cls(e)
        return '%d %d' % (e.version, int(e))
    if op == 'euiparse':
        try:
            e = netaddr.EUI(c['m'])
        except Exception as ex:
            return _cls2(ex)
        return '%d %d' % (e.version, int(e))
    if op == 'net':
        try:
            n_ = netaddr.IPNetwork(c['p'])
        except Exception as ex:
            return _cls2(ex)
        return '%d %d %d %d' % (n_.version, n_.value, n_.prefixlen, n_.first)
    if op == 'mactext':
        try:
            return S(str(nu.get_mac_addr_by_ipv6(netaddr.IPAddress(c['v'], 6))))
        except Exception as ex:
            return _cls2(ex)
    if op == 'parse':
        return _hp(nu.parse_host_port, c['addr'], _dflt(c['d']))
    if op == 'hostport':
        esc = nu.escape_ipv6(c['host'])
        return '%s %s %s' % (S(esc), _hp(nu.parse_host_port, esc + ':' + str(c['port'])), _hp(nu.parse_host_port, esc, _dflt(c['d'])))
    if op == 'url':
        try:
            o = nu.urlsplit(c['url'], c['scheme'], c['allow'])
            O = _split5(o) + ' ' + _acc(o) + ' ' + type(o).__name__
        except Exception as e:
            O = _cls(e)
        try:
            l = _uparse.urlsplit(c['url'], c['scheme'], c['allow'])
            L = _split5(l) + ' ' + _acc(l)
        except Exception as e:
            L = _cls(e)
        return 'O:%s L:%s' % (O, L)
    if op == 'params':
        q = c['q']
        r = nu.urlsplit('http://h/p?' + q, '', False) if c.get('via') else nu._ModifiedSplitResult('http', 'h', '/p', q, '')
        out = []
        for coll in (True, False):
            try: out.append(_params_text(r.params(collapse=coll)))
            except Exception as e: out.append(_cls(e))
        try: dflt = _params_text(r.params())
        except Exception as e: dflt = _cls(e)
        return '%s %s D:%s' % (out[0], out[1], 'same' if dflt == out[0] else dflt)
    raise KeyError(op)

def _cls2(e):
    import netaddr
    if isinstance(e, netaddr.AddrFormatError): return 'EXN:AddrFormatError'
    return _cls(e)

def _libtag(e):
    import netaddr
    if isinstance(e, netaddr.AddrFormatError): return 'A'
    if type(e) is ValueError or isinstance(e, ValueError): return 'V'
    if isinstance(e, TypeError): return 'T'
    return 'O'

def encode(c):
    if c['op'] in ('seq', 'params2'): return None
    nu = _nu()
    import netaddr
    op = c['op']
    if op == 'eui':
        p, m = _pyvals(c)
        is_str = isinstance(p, str)
        # text prefix and text / int MAC: the model works end to end on the text (no oracle input)
        if is_str and isinstance(m, str): return ['euitext', p, 'S', m]
        if is_str and isinstance(m, int) and not isinstance(m, bool): return ['euitext', p, 'I', m]
        # non-text arguments (None, float, list, bytes): the class netaddr raises is passed in
        def flag(strict):
            try: return bool(nu.is_valid_ipv4(p, strict))
            except Exception: return False
        try:
            e = netaddr.EUI(m); mt, mv = str(e.version), int(e)
        except Exception as ex:
            mt, mv = _libtag(ex), 0
        try:
            nt, nv = 'ok', netaddr.IPNetwork(p).first
        except Exception as ex:
            nt, nv = _libtag(ex), 0
        return ['eui64', is_str, flag(False), flag(True), mt, mv, nt, nv]
    if op == 'mac':
        if c['v'] < 0: return None
        return ['mac', c['ver'], c['v']]
    if op == 'parse':
        return ['parse', c['addr'] or '', c['d'][0], c['d'][1]]
    if op == 'hostport':
        return ['hosttext', c['host'], c['port'], c['d'][0], c['d'][1]]
    if op == 'euiparse': return ['euiparse', c['m']]
    if op == 'net': return ['net', c['p']]
    if op == 'mactext': return ['mactext', c['v']]
    if op == 'url':
        try:
            l = _uparse.urlsplit(c['url'], c['scheme'], c['allow'])
        except Exception:
            return None
        return ['urlpost', c['allow'], l.scheme, l.netloc, l.path, l.query, l.fragment]
    if op == 'params':
        q = c['q']
        if c.get('via'): q = _nu().urlsplit('http://h/p?' + q, '', False).query
        pairs = _uparse.parse_qsl(q)
        flat = []
        for k, v in pairs: flat += [k, v]
        return ['params', q] + flat
    return None

def project(c, io):
    op = c['op']
    if op == 'eui': return io[2:io.index(' R:')]
    if op == 'url':
        o = io[2:io.index(' L:')]
        return o if o.startswith('EXN') else ' '.join(o.split(' ')[:5])
    if op == 'params': return io[:io.index(' D:')]
    return io

# ------------------------------------------------------------------ oracle (model-free)

def meui64(m):
    """modified EUI-64 interface identifier of a 48-bit MAC, from the RFC 4291 reading: U/L bit inverted, ff:fe inserted"""
    b = list(m.to_bytes(6, 'big'))
    b[0] ^= 0x02
    return int.from_bytes(bytes(b[:3] + [0xff, 0xfe] + b[3:]), 'big')

HOSTNAME = re.compile(r'[A-Za-z0-9_]([A-Za-z0-9_.-]*[A-Za-z0-9_])?\Z')
def host_family(h):
    """name / ipv4 / ipv6 (with or without a 1..15 character scope) as the property names them; None = not in the quantifier"""
    try:
        a = ipaddress.ip_address(h)
        if a.version == 4: return 'ipv4'
        sc = a.scope_id
        if sc is None: return 'ipv6'
        # a scope id is 1..15 characters and contains no '/' (what is_valid_ipv6 accepts since f40316e)
        return 'ipv6scope' if 1 <= len(sc) <= 15 and '/' not in sc else None
    except ValueError:
        pass
    if HOSTNAME.match(h): return 'name'
    return None

def _oracle_seq(c, io):
    import json
    d = json.loads(io)
    for i, sub in enumerate(c['calls']):
        a, b = d['seq'][i], d['alone'][i]
        if a != b:
            return ('the answer depends on earlier calls: call #%d %s gives %s after %s, but %s on a fresh module'
                    % (i, short_call(sub), a[:160], [short_call(x) for x in c['calls'][:i]], b[:160]))
        msg = oracle(sub, a)
        if msg and not zone(sub): return 'call #%d of the sequence: %s' % (i, msg)
    return None

def short_call(sub):
    op = sub['op']
    if op == 'url': return 'urlsplit(%r, %r, %r)%s' % (sub['url'], sub['scheme'], sub['allow'], ' [copy]' if sub.get('copy') else '')
    if op == 'params2': return 'params x4(%r)' % sub['q']
    if op == 'params': return 'params(%r)' % sub['q']
    if op == 'parse': return 'parse_host_port(%r, %r)' % (sub['addr'], _dflt(sub['d']))
    if op == 'hostport': return 'escape_ipv6/parse_host_port(%r, %r)' % (sub['host'], sub['port'])
    if op == 'eui': return 'get_ipv6_addr_by_EUI64(%r, %r)' % (sub['prefix'], sub['mac'])
    if op == 'mac': return 'get_mac_addr_by_ipv6(%r)' % sub['v']
    return op

def oracle(c, io):
    op = c['op']
    if op == 'seq': return _oracle_seq(c, io)
    if op == 'params2':
        q = c['q']
        qs = _uparse.parse_qs(q)
        w1 = _params_text({k: v[-1] for k, v in qs.items()})
        w2 = _params_text({k: (v[0] if len(v) == 1 else v) for k, v in qs.items()})
        want = ' | '.join([w1, w2, w1, w2])
        return None if io == want else 'params() called repeatedly on one object for %r: %s, expected %s' % (q, io[:200], want[:200])
    if op == 'eui':
        f = io[2:io.index(' R:')]; back = io[io.index(' R:') + 3:]
        exn_ok = f in ('EXN:ValueError', 'EXN:TypeError')
        if c['fam_p'] == 'v4addr' or c['fam_p'] == 'v4loose':
            if c['fam_p'] == 'v4addr' or _inet_aton_ok(c['prefix']):
                return None if exn_ok else 'IPv4 address %r given as prefix: %s' % (c['prefix'], f)
            return None
        if c['fam_p'] in ('bad', 'nonstr') or c['fam_m'] in ('bad', 'nonstr'):
            return None if exn_ok else 'malformed prefix/MAC (%r, %r) gives %s' % (c['prefix'], c['mac'], f)
        if c['fam_p'] == 'v6net' and c['fam_m'] == 'mac48':
            net = c['addr'] & ~((1 << (128 - c['plen'])) - 1)
            if net & M64 == 0:
                want = '6 %d' % (net | meui64(c['macv']))
                if f != want: return 'get_ipv6_addr_by_EUI64(%r, %r) = %s, expected %s' % (c['prefix'], c['mac'], f, want)
                if back != '48 %d' % c['macv']: return 'get_mac_addr_by_ipv6 of %s gives %s, not the MAC %d' % (f, back, c['macv'])
            elif f.startswith('EXN') and not exn_ok:
                return 'unexpected exception class %s' % f
        return None
    if op == 'mac':
        if 'from_mac' in c and io != '48 %d' % c['from_mac']:
            return 'get_mac_addr_by_ipv6(%d) = %s, MAC was %d' % (c['v'], io, c['from_mac'])
        return None
    if op == 'hostport':
        fam = host_family(c['host'])
        if fam is None: return None
        esc, rest = io.split(' ', 1)
        want = '%s %d' % (S(c['host']), c['port'])
        if not rest.startswith(want + ' '):
            return 'parse_host_port(escape_ipv6(%r) + ":%d") gives %s' % (c['host'], c['port'], rest)
        d = c['d']
        if d[0] != 'S':
            wantd = '%s %s' % (S(c['host']), 'None' if d[0] == 'N' else str(d[1]))
            if rest[len(want) + 1:] != wantd:
                return 'parse_host_port(escape_ipv6(%r), default_port=%r) gives %s' % (c['host'], _dflt(d), rest[len(want) + 1:])
        return None
    if op == 'url':
        o = io[2:io.index(' L:')]; l = io[io.index(' L:') + 3:]
        if l.startswith('EXN'):
            return None if o == l else 'stdlib raises %s, oslo gives %s' % (l, o[:80])
        if o.startswith('EXN'): return 'oslo urlsplit raises %s where the stdlib returns' % o
        if o.rsplit(' ', 1)[0] != l: return 'urlsplit(%r, %r, %r) differs from urllib.parse: %s vs %s' % (c['url'], c['scheme'], c['allow'], o[:200], l[:200])
        # stdlib post-condition contract used by the theorem
        path = l.split(' ')[2]
        if '63' in path[1:].split('.') or (c['allow'] and '35' in path[1:].split('.')):
            return 'contract: urllib.parse.urlsplit left ?/# in the path of %r' % c['url']
        return None
    if op == 'params':
        q = c['q']
        if c.get('via'): q = _uparse.urlsplit('http://h/p?' + q, '', False).query
        pairs = _uparse.parse_qsl(q)
        if not (isinstance(pairs, list) and all(isinstance(p, tuple) and len(p) == 2 and isinstance(p[0], str) and isinstance(p[1], str) for p in pairs)):
            return 'contract: parse_qsl(%r) is not a list of str pairs' % q
        qs = _uparse.parse_qs(q)
        w1 = _params_text({k: v[-1] for k, v in qs.items()})
        w2 = _params_text({k: (v[0] if len(v) == 1 else v) for k, v in qs.items()})
        want = '%s %s D:same' % (w1, w2)
        if io != want: return 'params of %r: %s, expected %s' % (q, io[:200], want[:200])
        return None
    return None

_ATON = re.compile(r'(0[xX][0-9a-fA-F]+|[0-9]+)(\.(0[xX][0-9a-fA-F]+|[0-9]+)){0,3}\Z')
def _inet_aton_ok(s):
    import socket
    if not _ATON.match(s): return False
    try: socket.inet_aton(s); return True
    except OSError: return False

def zone(c):
    # no open finding (H1 — scope id containing ']' — is repaired by 03fda28 and replayed as a `fixed:` regression)
    return None

def classify(c, io):
    op = c['op']
    if op == 'seq': return 'seq:%d' % len(c['calls'])
    if op == 'eui': return 'eui:%s/%s%s' % (c['fam_p'], c['fam_m'], ':exn' if 'F:EXN' in io else '')
    if op == 'hostport': return 'hostport:%s' % (host_family(c['host']) or 'other')
    if op == 'mac': return 'mac:v%d%s' % (c['ver'], ':exn' if 'EXN' in io else '')
    return op + (':exn' if 'EXN' in io else '')

def search(rng, budget):
    for _ in range(budget):
        yield from gen_cases(rng, 'quick')

LEVEL_TEXT = ('End to end on TEXT (prefix text through C11\'s IPNetwork/is_valid_ipv4 models, MAC text through a netaddr.EUI recogniser, escape_ipv6 through C11\'s '
              'is_valid_ipv6): value, MAC round trip through the printed text, exception clause, host:port round trip for every RFC 4291 text with optional scope. '
              'Theorems for all 48-bit MACs and all prefixes: the value get_ipv6_addr_by_EUI64 returns (network address + modified EUI-64 when the low 64 '
              'bits of the network address are clear; arithmetic + otherwise), the MAC round trip through get_mac_addr_by_ipv6, the exception clause for '
              'oslo\'s guards/handlers; exact characterisation (iff) of the hosts for which parse_host_port(escape_ipv6(h) + ":" + port) and the default-port '
              'form round-trip, for every integer port; params() last-wins / all-values over any list of pairs; urlsplit post-processing is the '
              'identity under the stdlib post-condition. The guards, except clauses, combine expression, masks/shifts, parse_host_port and the '
              'urlsplit post-processing are regenerated from the AST on every run (py2gal + extensions) and proved equal to the hand model.')
LEVEL_NOTE = ('Trusted: Coq kernel; translator tools/gen/gen_C15.py; netaddr text parsing, is_valid_ipv4/6, urllib.parse.urlsplit and parse_qsl as '
              'oracles/contracts (tested); CPython int()/str()/str methods as modelled in Base/. Closed under the global context (no axioms).')
