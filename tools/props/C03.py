"""C03 — format detection is exclusive, conservative about raw, and total
(oslo_utils/imageutils/format_inspector.py: InspectWrapper.formats/format/__init__, every inspector's
format_match/complete, ALL_FORMATS, detect_file_format).

A case is
  {'op':'wrap', 'd':<data spec>, 'kind':'f'|'i'|'g', 'exp':None|name, 'allowed':None|[names], 'oseed':int,
   'lens':[chunk lengths of an iterator source], 'ops':[...], 'k':label}
     ops: 0 next(), 1 close(), 9 read(-1), 10+n read(n), 2 = from here on the reader stops at the first exception (only close is still done); after EVERY op the observation is
       <B<len>.<cksum> | E<Class> | N>@<source position>|<formats>|<format>|name:complete:format_match,...
  {'op':'detect', 'd':<data spec>, 'k':label}        detect_file_format(path of a file with that content)
Data specs are reproducible from the case alone (seeds inside):
  {'g':'overlay','sigs':[..],'bg':..,'n':..,'seed':..,'iso':hex,'late':k|None,'pl':bool}   imgbuild.overlay
  {'g':'valid','fmt':..,'seed':..[, 'cut':n][, 'ext':n]}                                     imgbuild.random_wellformed
  {'g':'unstr','kind':..,'n':..,'seed':..}                                                   imgbuild.unstructured
  {'g':'patch','n':..,'bg':'z'|'r<seed>'|'t<seed>','p':[[off,hex],..]}                      background + patches

Correspondence: the REAL InspectWrapper over the REAL inspectors against the extracted model
(generic wrapper Model/Wrap.v instantiated with the shared inspector model, coq/Model/C03.v).
The iteration order of the wrapper's inspector set is chosen by the case (any order is a possible
CPython behaviour; it matters only when an exception of the expected format's inspector surfaces).

Oracle (model-free, demands what the property text states): see oracle().

  {'op':'indep','a':<wrap case>,'b':<wrap case>,['pres':[<wrap case>...]],'bfirst':bool,['post':1]}   the session a alone, and again while a
     second live wrapper runs b interleaved call by call (a third one, pre, is created, fed and discarded before): every observation of a
     must be identical (detection depends on the content handed to THAT wrapper only).  {'op':'detect2','d','o'}: detect_file_format(d)
     alone and after detect_file_format(o).  Not modelled (the model has no state outside a wrapper); model-free oracle only.
"""
import sys, os, io, json, random, struct, tempfile, logging
import gen_insp, gen_C06
sys.path.insert(0, os.path.dirname(os.path.dirname(os.path.abspath(__file__))))
import imgbuild
logging.disable(logging.CRITICAL)

ID = 'C03'
GEN = [('Gen/Insp_Consts.v', gen_insp.generate), ('Gen/Insp_Code.v', gen_insp.generate_code),
       ('Gen/C06_Wrapper.v', gen_C06.generate)]
EQUIV_FILES = []
THEOREM_FILES = ['Properties/C03.v']
EXTRACT = 'Extract/C03_x.v'

FORMATS = list(imgbuild.FORMATS)          # ALL_FORMATS order on the pinned tree (the model takes it from Gen/)
NONRAW = [f for f in FORMATS if f != 'raw']
KI = 1024
MI = 1024 * 1024
EXN_NAMES = ['ImageFormatError', 'SafetyViolation', 'SafetyCheckFailed', 'error', 'KeyError', 'AttributeError', 'IndexError',
             'ValueError', 'TypeError', 'RuntimeError', 'UnicodeDecodeError', 'OverflowError', 'StopIteration', 'OSError']

def _fi():
    from oslo_utils.imageutils import format_inspector
    return format_inspector

def canon(e):
    n = type(e).__name__
    return n if n in EXN_NAMES else 'OtherError'

def ck(b):
    return sum(b) + 257 * sum(b[1::2])

# ------------------------------------------------------------------ data
_cache = {}
def _background(bg, n):
    if bg == 'z': return bytearray(n)
    r = random.Random(int(bg[1:]))
    if bg[0] == 'r': return bytearray(r.randbytes(n))
    if bg[0] == 't': return imgbuild._fill(r, n, 'text')
    raise KeyError(bg)

def data_of(spec):
    key = json.dumps(spec, sort_keys=True)
    d = _cache.get(key)
    if d is not None: return d
    g = spec['g']
    if g == 'overlay':
        img = imgbuild.overlay(tuple(spec['sigs']), spec['bg'], spec['n'], random.Random(spec['seed']),
                               iso_ident=bytes.fromhex(spec.get('iso', '4344303031')), late_nonascii=spec.get('late'),
                               plausible=bool(spec.get('pl')))
        d = img.data
    elif g == 'valid':
        d = imgbuild.random_wellformed(spec['fmt'], random.Random(spec['seed'])).data
        if 'cut' in spec: d = d[:spec['cut']]
        if 'ext' in spec: d = d + random.Random(spec['seed'] + 1).randbytes(spec['ext'])
    elif g == 'unstr':
        d = imgbuild.unstructured(random.Random(spec['seed']), spec['kind'], spec['n']).data
    elif g == 'patch':
        b = _background(spec['bg'], spec['n'])
        for off, hx in spec['p']:
            v = bytes.fromhex(hx)
            if off < spec['n']:
                v = v[:spec['n'] - off]
                b[off:off + len(v)] = v
        d = bytes(b)
    else:
        raise KeyError(g)
    if len(_cache) > 48: _cache.clear()
    _cache[key] = d
    return d

# ------------------------------------------------------------------ sources
class FSrc(io.BytesIO):
    def __init__(self, data):
        super().__init__(data); self.pos = 0
    def read(self, size=-1):
        c = super().read(size)
        self.pos += len(c)
        return c
    def where(self): return self.pos

class LSrc:
    """an iterator without close()"""
    def __init__(self, chunks):
        self.chunks = list(chunks); self.i = 0
    def __iter__(self): return self
    def __next__(self):
        if self.i >= len(self.chunks): raise StopIteration
        c = self.chunks[self.i]; self.i += 1
        return c
    def where(self): return len(self.chunks) - self.i

class GSrc(LSrc):
    """generator-like: close() exhausts it"""
    def close(self):
        self.i = len(self.chunks)

class OSet(set):
    """a set with a chosen iteration order (CPython iterates the wrapper's set of inspector objects in an
    address-dependent order; every order is a possible behaviour)."""
    def __iter__(self):
        return iter(self._order)

def order_of(c):
    al = c.get('allowed')
    names = [k for k in FORMATS if not al or k in al]
    random.Random(c.get('oseed', 0)).shuffle(names)
    return names

def reorder(fi, w, oseed):
    names = list(fi.ALL_FORMATS)
    insps = sorted(set.__iter__(w._inspectors), key=lambda i: names.index(i.NAME) if i.NAME in names else 99)
    random.Random(oseed).shuffle(insps)
    if isinstance(w._inspectors, (set, frozenset)):
        s = OSet(insps); s._order = insps
        w._inspectors = s

def split_lens(data, lens):
    out = []; pos = 0
    for n in lens:
        out.append(data[pos:pos + n]); pos = min(len(data), pos + n)
    return out

# ------------------------------------------------------------------ observation
def q(f):
    try:
        return f()
    except Exception as e:
        return 'EXN:' + canon(e)

def show_formats(v):
    if isinstance(v, str): return v
    if v is None: return 'None'
    names = [str(i) for i in v]
    return '+'.join(sorted(names, key=lambda n: FORMATS.index(n) if n in FORMATS else 99))

def show_format(v):
    if isinstance(v, str): return v
    return 'None' if v is None else str(v)

def state(w):
    insps = list(w._inspectors)
    per = ','.join('%s:%s:%s' % (i.NAME, q(lambda: i.complete), q(lambda: i.format_match)) for i in insps)
    return '%s|%s|%s|%s' % (show_formats(q(lambda: w.formats)), show_format(q(lambda: w.format)), per, 'True' if w._finished else 'False')

class Sess:
    """one InspectWrapper session driven op by op (so that several can be interleaved in one process)"""
    def __init__(self, c):
        fi = _fi()
        data = data_of(c['d'])
        kind = c['kind']
        if kind == 'f': self.src = FSrc(data)
        elif kind == 'i': self.src = LSrc(split_lens(data, c['lens']))
        else: self.src = GSrc(split_lens(data, c['lens']))
        self.w = fi.InspectWrapper(self.src, expected_format=c.get('exp'), allowed_formats=c.get('allowed'))
        reorder(fi, self.w, c.get('oseed', 0))
        self.recs = [state(self.w)]
        self.stopping = self.stopped = False
    def do(self, op):
        w = self.w
        if op == 2:
            self.stopping = True; return
        if self.stopping and self.stopped and op != 1: return
        try:
            if op == 1:
                w.close(); out = 'N'
            elif op == 0:
                r = next(w); out = 'B%d.%d' % (len(r), ck(r))
            else:
                r = w.read(-1 if op == 9 else op - 10); out = 'B%d.%d' % (len(r), ck(r))
        except Exception as e:
            out = 'E' + canon(e); self.stopped = True
        self.recs.append('%s@%d|%s' % (out, self.src.where(), state(w)))
    def result(self):
        return ';'.join(self.recs)

def run_wrap(c):
    s = Sess(c)
    for op in c['ops']: s.do(op)
    return s.result()

def run_indep(c):
    """the case c['a'] alone, and again while a second wrapper reads c['b'] interleaved call by call (a third wrapper
    is created, fed and discarded before): every observation of the first must be identical"""
    alone = run_wrap(c['a'])
    fresh_table()
    for pc in c.get('pres', ([c['pre']] if 'pre' in c else [])):
        p = Sess(pc)                                   # constructed ...
        for op in pc['ops']: p.do(op)                  # ... fed (ops may be empty: discarded without reading)
        del p
    if c.get('bfirst'):
        B = Sess(c['b']); A = Sess(c['a'])
    else:
        A = Sess(c['a']); B = Sess(c['b'])
    bops = list(c['b']['ops'])
    for i, op in enumerate(c['a']['ops']):
        if c.get('bfirst') and i < len(bops): B.do(bops[i])
        A.do(op)
        if not c.get('bfirst') and i < len(bops): B.do(bops[i])
    for op in bops[len(c['a']['ops']):]: B.do(op)
    inter = A.result()
    if 'post' in c:                       # queries of the first wrapper once more after the second one is done
        inter2 = state(A.w); alone_last = alone.split(';')[-1].split('|', 1)[1] if ';' in alone else alone
        if inter2 != alone_last: return 'DIFF|' + alone + '|#|' + inter + ';LATE:' + inter2
    return ('SAME|' + alone) if inter == alone else ('DIFF|' + alone + '|#|' + inter)

_tmpdir = None
def run_detect(c):
    global _tmpdir
    fi = _fi()
    data = data_of(c['d'])
    if _tmpdir is None:
        import atexit, shutil
        _tmpdir = tempfile.mkdtemp(prefix='C03_', dir='/var/tmp')
        atexit.register(shutil.rmtree, _tmpdir, True)
    path = os.path.join(_tmpdir, 'img%d' % os.getpid())
    with open(path, 'wb') as f: f.write(data)
    seen = []
    Orig = fi.InspectWrapper
    class Spy(Orig):
        def __init__(self, *a, **k):
            super().__init__(*a, **k); self.c03_read = 0; seen.append(self)
        def read(self, size):
            r = super().read(size); self.c03_read += len(r); return r
    fi.InspectWrapper = Spy
    try:
        try:
            r = fi.detect_file_format(path)
            res = 'None' if r is None else str(r)
        except Exception as e:
            res = 'EXN:' + canon(e)
    finally:
        fi.InspectWrapper = Orig
        try: os.remove(path)
        except OSError: pass
    if len(seen) != 1: return res + '@?'
    w = seen[0]
    names = list(fi.ALL_FORMATS)
    insps = sorted(set.__iter__(w._inspectors), key=lambda i: names.index(i.NAME) if i.NAME in names else 99)
    s = OSet(insps); s._order = insps; w._inspectors = s
    return '%s@%d|%s|%s' % (res, w.c03_read, 'True' if getattr(w._source, 'closed', False) else 'False', state(w))

def run_detect2(c):
    """detect_file_format on c['d'] alone, and after a call on another file c['o'] (and after wrappers with restricted
    allowed_formats were constructed): same answer"""
    alone = run_detect({'op': 'detect', 'd': c['d']})
    fresh_table()
    for pc in c.get('pres', []):
        p = Sess(pc)
        for op in pc['ops']: p.do(op)
        del p
    run_detect({'op': 'detect', 'd': c['o']})
    after = run_detect({'op': 'detect', 'd': c['d']})
    return ('SAME|' + alone) if after == alone else ('DIFF|' + alone + '|#|' + after)

# the module-level table as it was when the module was imported (before any wrapper existed)
_TABLE = None
def fresh_table():
    """put ALL_FORMATS back to its import-time content (a case must not inherit damage done by an earlier one)"""
    global _TABLE
    fi = _fi()
    if _TABLE is None: _TABLE = list(fi.ALL_FORMATS.items())
    if list(fi.ALL_FORMATS.items()) != _TABLE:
        fi.ALL_FORMATS.clear(); fi.ALL_FORMATS.update(_TABLE)

def table_damage():
    fi = _fi()
    now = list(fi.ALL_FORMATS.items())
    if now != _TABLE:
        return 'ALL_FORMATS=' + '+'.join(k for k, _ in now)
    bad = [k for k, v in _TABLE if fi.get_inspector(k) is not v]
    if bad: return 'get_inspector:' + '+'.join(bad)
    return None

def impl(c):
    fresh_table()
    if c['op'] == 'wrap': out = run_wrap(c)
    elif c['op'] == 'detect': out = run_detect(c)
    elif c['op'] == 'indep': out = run_indep(c)
    elif c['op'] == 'detect2': out = run_detect2(c)
    else: raise KeyError(c['op'])
    d = table_damage()
    fresh_table()
    return out + ('|!TABLE:' + d if d else '')

def project(c, io_):
    return io_.split('|!TABLE:')[0]

def encode(c):
    if c['op'] in ('indep', 'detect2'): return None        # model-free family (the model has no shared state by construction)
    if c['op'] == 'detect':
        return ['detect', data_of(c['d'])]
    al = c.get('allowed')
    return ['wrap', c['kind'], ('S' + c['exp']) if c.get('exp') is not None else 'N',
            'N' if al is None else 'L' + ''.join(',' + a for a in al),
            ''.join(',' + n for n in order_of(c)), data_of(c['d']), list(c.get('lens', [])), list(c['ops'])]

# ------------------------------------------------------------------ oracle (model-free)
def parse(io_):
    """-> list of (out, pos, formats, format, {name:(complete, match)})  ; the first entry has out=None"""
    recs = []
    for i, r in enumerate(io_.split(';')):
        if i == 0:
            out, pos, rest = None, None, r
        else:
            head, _, rest = r.partition('|')
            out, _, pos = head.partition('@')
        f = rest.split('|')
        per = {}
        if len(f) > 2 and f[2]:
            for it in f[2].split(','):
                nm, cm, mt = it.split(':', 2)
                per[nm] = (cm, mt)
        recs.append((out, pos, f[0], f[1], per))
    return recs

def delivered_bytes(c, recs, ex=None):
    """the content the reader obtained (None when a call raised: the stream was not read through)"""
    data = data_of(c['d'])
    total = 0
    for (out, pos, fs, fm, per), op in zip(recs[1:], ex if ex is not None else c['ops']):
        if out.startswith('E'):
            if out == 'EStopIteration' and op == 0: continue       # end of an iterator
            return None
        if out.startswith('B'):
            total += int(out[1:].split('.')[0])
    return data[:total]

def check_answer(where, fs, fm, allowed):
    """clauses that hold for every single observation of formats / format"""
    for v, what in ((fs, 'formats'), (fm, 'format')):
        if v.startswith('EXN:') and v != 'EXN:ImageFormatError':
            return '%s raised %s %s (only ImageFormatError is allowed)' % (what, v[4:], where)
    if fs == 'EXN:ImageFormatError':
        pass
    elif fs != 'None':
        names = fs.split('+') if fs else []
        if 'raw' in names and len(names) > 1:
            return 'formats reports raw together with %s %s' % ([n for n in names if n != 'raw'], where)
        if allowed:
            bad = [n for n in names if n not in allowed]
            if bad: return 'formats reports %s, outside allowed_formats=%r, %s' % (bad, allowed, where)
        if fm not in ('None', 'EXN:ImageFormatError') and fm not in names:
            return 'format %s is not among formats %s %s' % (fm, names, where)
        if len(names) > 1 and fm != 'EXN:ImageFormatError':
            return 'formats reports %s but format is %s instead of raising ImageFormatError %s' % (names, fm, where)
    if allowed and fm not in ('None', 'EXN:ImageFormatError') and fm not in allowed:
        return 'format reports %s, outside allowed_formats=%r, %s' % (fm, allowed, where)
    return None

def first_diff(io_):
    a, _, b = io_[5:].partition('|#|')
    ra, rb = a.split(';'), b.split(';')
    for i, (x, y) in enumerate(zip(ra, rb)):
        if x != y:
            fx, fy = x.split('|'), y.split('|')
            d = [(u, v) for u, v in zip(','.join(fx).split(','), ','.join(fy).split(',')) if u != v][:4]
            return 'observation %d: alone %s / with the other wrapper %s; differing items %r' % (i, '|'.join(fx[:3]), '|'.join(fy[:3]), d)
    return 'observations %d vs %d' % (len(ra), len(rb)) if len(ra) != len(rb) else (rb[-1][:120] if rb else '')

def oracle(c, io_):
    if io_.startswith('HARNESS-ERROR'): return io_
    if '|!TABLE:' in io_:
        io_, _, dmg = io_.partition('|!TABLE:')
        m = oracle(c, io_) if c['op'] in ('indep', 'detect2') and io_.startswith('DIFF|') else None
        return ((m + '; ' if m else '') +
                'the module-level format table was changed by this case (%s; it had %s): allowed_formats must restrict THIS wrapper only'
                % (dmg, '+'.join(FORMATS)))
    if c['op'] == 'indep':
        if io_.startswith('DIFF|'):
            return ('detection depends on ANOTHER wrapper in the same process: content A %s (allowed_formats=%r) gives different format/formats/exceptions when '
                    'wrappers %r were used before and a second wrapper (allowed_formats=%r) reads content B %s interleaved (%s)'
                    % (json.dumps(c['a']['d']), c['a'].get('allowed'), [(p.get('allowed'), len(p['ops'])) for p in c.get('pres', [])], c['b'].get('allowed'),
                       json.dumps(c['b']['d']), first_diff(io_)))
        return oracle(c['a'], io_[5:])
    if c['op'] == 'detect2':
        if io_.startswith('DIFF|'):
            return ('detect_file_format(%s) answers differently after detect_file_format(%s): %s' % (json.dumps(c['d']), json.dumps(c['o']), first_diff(io_)))
        return oracle({'op': 'detect', 'd': c['d']}, io_[5:])
    if c['op'] == 'detect':
        res = io_.split('@')[0]
        if res.startswith('EXN:') and res != 'EXN:ImageFormatError':
            return 'detect_file_format raised %s (only ImageFormatError is allowed)' % res[4:]
        data = data_of(c['d'])
        return check_content(res, None, data, None, 'by detect_file_format')
    recs = parse(io_)
    allowed = c.get('allowed') or None
    # (a) every observation: exception class, raw never with others, allowed_formats respected
    for i, (out, pos, fs, fm, per) in enumerate(recs):
        m = check_answer('after call %d' % i, fs, fm, allowed)
        if m: return m
    # (b) a decision reported after some read is not revised by reading further, nor by close()
    ex = executed_ops(c, recs)
    decided = None
    for i, (out, pos, fs, fm, per) in enumerate(recs):
        if decided is not None and fm != decided[1]:
            return 'decision revised: format was %s after call %d and is %s after call %d' % (decided[1], decided[0], fm, i)
        if decided is None and fm not in ('None',) and not fm.startswith('EXN:') and not closed_at(c, i, ex):
            decided = (i, fm)
    # (c') a reader that stops at the first exception (expected-format abort, ...) and closes: a specific format
    #      reported then has its signature in the bytes TAKEN from the source (file sources: the position)
    if c['ops'] and c['ops'][0] == 2 and c['kind'] == 'f' and c['ops'][-1] == 1:
        last = recs[-1]
        taken = data_of(c['d'])[:int(last[1])]
        for (out, pos, fs, fm, per) in recs[-2:]:
            if fm in NONRAW and imgbuild.signature_present(fm, taken) is False:
                return '%s reported after a stopped run but its signature is not in the %d bytes taken from the source' % (fm, len(taken))
    # (c) after the stream has been read through and closed
    if ex and ex[-1] == 1 and ex.count(1) == 1:
        content = delivered_bytes(c, recs, ex)
        if content is not None:
            out, pos, fs, fm, per = recs[-1]
            return check_content(fm, fs, content, allowed, 'after close()')
    return None

def executed_ops(c, recs):
    """the ops that produced the observations recs[1:] (op 2 and the ops skipped by a stopping reader removed)"""
    out = []; stopping = stopped = False; k = 1
    for op in c['ops']:
        if op == 2: stopping = True; continue
        if stopping and stopped and op != 1: continue
        out.append(op)
        if k < len(recs) and recs[k][0].startswith('E'): stopped = True
        k += 1
    return out

def closed_at(c, i, ex=None):
    """observation i (0 = fresh wrapper) was taken after a close()"""
    return 1 in (ex if ex is not None else c['ops'])[:i]

def check_content(fm, fs, content, allowed, where):
    considered = [f for f in NONRAW if not allowed or f in allowed]
    em = {f: imgbuild.signature_present(f, content) for f in considered}
    present = [f for f in considered if em[f] is True]
    undecided = [f for f in considered if em[f] is None]
    if fm not in ('None', 'EXN:ImageFormatError') and not fm.startswith('EXN:'):
        if fm == 'raw':
            if allowed and 'raw' not in allowed:
                return 'raw reported %s although allowed_formats=%r' % (where, allowed)
            if present:
                return 'raw reported %s although the content carries the signature of %s' % (where, present)
        else:
            if fm in NONRAW and imgbuild.signature_present(fm, content) is False:
                return '%s reported %s but its signature is not present in the content (%d bytes)' % (fm, where, len(content))
            others = [f for f in present if f != fm]
            if others:
                return '%s reported %s although %s match(es) as well' % (fm, where, others)
    if len(present) >= 2 and fm != 'EXN:ImageFormatError':
        return 'the content carries the signatures of %s but format is %s %s (ImageFormatError expected)' % (present, fm, where)
    return None

# ------------------------------------------------------------------ generators
ALLOW_FAMILY = [None, None, None, [], ['raw'], ['qcow2'], ['qcow2', 'raw'], ['vhdx'], ['vhdx', 'raw'], ['vhd', 'vhdx'], ['vmdk', 'raw'],
                ['iso', 'gpt'], ['iso', 'gpt', 'raw'], ['gpt'], ['luks', 'vdi', 'qed'], NONRAW, ['foo'], ['foo', 'raw'], ['RAW', 'vhd']]
ALLOW_OTHER = [None, ['raw'], ['qcow2'], ['vhd'], ['vhd', 'raw'], ['vmdk', 'vhdx'], ['iso', 'gpt', 'raw'], ['luks', 'vdi', 'qed'], ['qcow2', 'raw'], list(FORMATS), NONRAW, []]
SIGNAMES = list(imgbuild.SIGNATURES)
DECISION = [4, 6, 8, 32, 64, 512, 592, 32768, 34816, 192 * KI, 256 * KI]

def file_ops(rng, n, style):
    """read sizes for a file-like source, then close (the reads go past the end: the last ones return b'')"""
    if style == 'detect': sz = 4096
    elif style == 'mib': sz = MI
    elif style == 'one': sz = max(n, 1)
    elif style == 'k64': sz = 65536
    elif style == 'small': sz = rng.choice([512, 1000, 1024]) if n <= 70000 else 16384
    else: sz = None
    if sz is not None:
        k = n // sz + 1 + rng.choice([0, 1, 2])
        ops = [10 + sz] * k
    elif style == 'cuts':
        pts = sorted({min(n, max(0, b + d)) for b in rng.sample(DECISION, 3) for d in (-1, 0, 1)} | {n})
        ops = [10 + (b - a) for a, b in zip([0] + pts, pts)] + [10 + 4096]
    elif style == 'all':
        ops = [9, 9]
    else:
        ops, left = [], n
        for _ in range(rng.randint(1, 8)):
            s = rng.choice([0, 1, 4, 63, 64, 65, 511, 512, 513, 4096, 40000, 300000, rng.randint(0, max(1, n))])
            ops.append(10 + s); left -= s
        if left > 0: ops.append(9)
        ops.append(10 + 7)
    return ops + [1]

def iter_lens(rng, n):
    k = rng.randint(1, 9)
    cuts = sorted(rng.randint(0, n) for _ in range(k))
    if rng.random() < 0.4:
        cuts = sorted(set(cuts) | {min(n, max(0, rng.choice(DECISION) + rng.choice([-1, 0, 1])))})
    lens = [b - a for a, b in zip([0] + cuts, cuts + [n])]
    if rng.random() < 0.3: lens = [x for s in lens for x in ([0, s] if rng.random() < 0.3 else [s])]
    return lens

def mk_case(rng, d, n, label, style=None, allowed='?', exp='?', kind=None, stop_early=False):
    kind = kind or rng.choice(['f'] * 6 + ['i', 'g'])
    if allowed == '?': allowed = rng.choice(ALLOW_FAMILY)
    if exp == '?': exp = None if rng.random() < 0.85 else rng.choice(FORMATS + ['foo'])
    c = {'op': 'wrap', 'd': d, 'kind': kind, 'exp': exp, 'allowed': allowed, 'oseed': rng.randrange(1000), 'k': label}
    if kind == 'f':
        big = n > 70000
        style = style or rng.choice(['detect', 'mib', 'one', 'k64', 'cuts', 'rand', 'all'] + ([] if big else ['small']))
        c['ops'] = file_ops(rng, n, style)
    else:
        c['lens'] = iter_lens(rng, n)
        c['ops'] = [0] * (len(c['lens']) + 1) + [1]
        if rng.random() < 0.15: c['ops'] = c['ops'][:-2] + [1]          # closed before the iterator is exhausted
    if rng.random() < 0.06: c['ops'] = c['ops'] + [c['ops'][0]]         # a call after close()
    elif exp is not None and rng.random() < 0.5: c['ops'] = [2] + c['ops']    # a reader that stops at the first exception
    return c

def overlay_specs(rng, tier):
    """any subset of the nine signatures + the FAT look-alike on zero/random/text backgrounds, lengths on both sides of
    every decision point"""
    names = SIGNAMES
    combos = [()] + [(a,) for a in names] + [(a, b) for a in names for b in names if a != b]
    combos += [tuple(rng.sample(names, 3)) for _ in range(12 if tier == 'quick' else 150)]
    combos += [tuple(rng.sample(names, rng.randint(4, len(names)))) for _ in range(6 if tier == 'quick' else 60)]
    L = imgbuild.OVERLAY_LENGTHS
    for cmb in combos:
        if tier == 'quick':
            lens = rng.sample(L, 2) + [rng.choice([512, 513, 592, 34816, 34817, 262145])]
        else:
            lens = rng.sample(L, 8) + [512, 34816, 262145]
        for n in lens:
            bg = rng.choice(imgbuild.BACKGROUNDS)
            late = rng.randrange(0, n) if (bg == 'text' and n > 600 and rng.random() < 0.4) else None
            yield {'g': 'overlay', 'sigs': list(cmb), 'bg': bg, 'n': n, 'seed': rng.randrange(10**6),
                   'iso': rng.choice(imgbuild.ISO_IDENTS).hex(), 'late': late, 'pl': rng.random() < 0.3}, n, 'overlay:%d' % len(cmb)

def valid_specs(rng, tier):
    per = 6 if tier == 'quick' else 40
    for fmt in FORMATS:
        for _ in range(per if fmt != 'vhdx' else max(3, per // 2)):
            spec = {'g': 'valid', 'fmt': fmt, 'seed': rng.randrange(10**6)}
            n = len(data_of(spec))
            r = rng.random()
            lab = 'valid:' + fmt
            if r < 0.2 and n > 0:
                spec['cut'] = max(0, min(n, rng.choice(DECISION + [n - 1, n // 2]) + rng.choice([-1, 0, 1]))); lab += '+cut'
            elif r < 0.3:
                spec['ext'] = rng.choice([1, 512, 5000]); lab += '+ext'
            if n > 3 * MI: continue
            yield spec, len(data_of(spec)), lab

def unstr_specs(rng, tier):
    for kind in imgbuild.UNSTRUCTURED_KINDS:
        for n in ([0, 1, 4, 63, 64, 65, 511, 512, 513, 600, 4096, 5000, 40000] + ([300000] if tier != 'quick' or kind in ('text', 'text_late_nonascii') else [])):
            if tier == 'quick' and rng.random() < 0.45 and n not in (600, 4096, 5000): continue
            yield {'g': 'unstr', 'kind': kind, 'n': n, 'seed': rng.randrange(10**6)}, n, 'unstr:' + kind

def targeted(rng, tier):
    """cases aimed at the known trouble spots: text with a late non-ASCII byte (D2), VHDX under 1 MiB reads (D1),
    look-alikes, allow-lists whose names are substrings of one another"""
    P = lambda off, b: [off, bytes(b).hex()]
    for n in (513, 600, 4096, 5000, 70000):
        for late in (512, n - 1, n // 2 + 256):
            if late >= n: continue
            d = {'g': 'patch', 'n': n, 'bg': 't%d' % rng.randrange(10**6), 'p': [P(late, b'\xff')]}
            for style in ('detect', 'mib', 'one'):
                yield mk_case(rng, d, n, 'text-late-nonascii', style=style, allowed=None, exp=None, kind='f')
    for _ in range(3 if tier == 'quick' else 30):
        spec = {'g': 'valid', 'fmt': 'vhdx', 'seed': rng.randrange(10**6)}
        n = len(data_of(spec))
        if n > 3 * MI: continue
        for style in ('mib', 'one', 'detect', 'k64'):
            yield mk_case(rng, spec, n, 'vhdx-reads', style=style, allowed=rng.choice([None, ['vhdx'], ['vhdx', 'raw']]), exp=None, kind='f')
    d = {'g': 'patch', 'n': 600, 'bg': 'z', 'p': [P(0, b'conectix')]}
    for al in (['vhdx'], ['vhdx', 'raw'], ['vhd'], ['vhdx', 'vhd']):
        yield mk_case(rng, d, 600, 'substring-names', style='detect', allowed=al, exp=None, kind='f')
    d = {'g': 'patch', 'n': 600, 'bg': 'z', 'p': [P(0, b'QED\x00')]}
    for al in (['qed'], ['raw'], ['qcow2', 'raw'], []):
        yield mk_case(rng, d, 600, 'allow', style='detect', allowed=al, exp=None, kind='f')
    # short files that stop before an inspector can decide; FAT look-alike; pairs not involving ISO
    for sig, n in ((b'QFI\xfb', 511), (b'QFI\xfb', 512), (b'QED\x00', 511), (b'LUKS\xba\xbe', 6), (b'LUKS\xba\xbe', 5), (b'conectix', 8),
                   (b'vhdxfile', 8), (b'vhdxfile', 31), (b'KDMV', 4), (b'KDMV', 63), (b'KDMV', 64)):
        d = {'g': 'patch', 'n': n, 'bg': 'z', 'p': [P(0, sig)]}
        yield mk_case(rng, d, n, 'short', style=rng.choice(['detect', 'one', 'rand']), allowed=None, exp=None, kind='f')
    for extra in ([], [P(0x10, b'\x02'), P(0x15, b'\xf8')], [P(0x10, b'\x02')], [P(0x40, struct.pack('<I', 0xbeda107f))], [P(0, b'LUKS\xba\xbe')]):
        for n in (511, 512, 600):
            d = {'g': 'patch', 'n': n, 'bg': rng.choice(['z', 'r%d' % rng.randrange(10**6)]), 'p': [P(510, b'\x55\xaa')] + extra}
            yield mk_case(rng, d, n, 'mbr', style=rng.choice(['detect', 'one', 'cuts']), allowed=rng.choice([None, None, ['gpt', 'raw'], ['vdi', 'gpt']]), exp=None, kind='f')

def partner_spec(rng, data):
    """a content that differs from `data` in every format's signature: the signatures data lacks (one of the offset-0
    ones, and every one that lives elsewhere), on zeros, long enough for all of them"""
    em = imgbuild.expected_matches(data)
    absent = [f for f in NONRAW if em.get(f) is not True]
    zero_off = [f for f in absent if f in ('qcow2', 'qed', 'vhd', 'vhdx', 'vmdk', 'luks')]
    sigs = [f for f in absent if f in ('vdi', 'iso', 'gpt')] + ([rng.choice(zero_off)] if zero_off else [])
    return {'g': 'overlay', 'sigs': sigs, 'bg': 'zero', 'n': rng.choice([600, 34816, 40000]), 'seed': rng.randrange(10**6),
            'iso': '4344303031', 'late': None, 'pl': True}

def indep_cases(rng, tier):
    """independence of other wrappers: the same session alone and interleaved with a second live wrapper"""
    P = lambda off, b: [off, bytes(b).hex()]
    base = []
    # contents with and without each signature, small enough to keep this family cheap
    for sig in (b'QFI\xfb', b'QED\x00', b'conectix', b'vhdxfile', b'KDMV', b'LUKS\xba\xbe', b''):
        for n in (600, 4096):
            base.append(({'g': 'patch', 'n': n, 'bg': 'z', 'p': [P(0, sig)] if sig else []}, n, 'indep:sig0'))
    base.append(({'g': 'patch', 'n': 600, 'bg': 'z', 'p': [P(0x40, struct.pack('<I', 0xbeda107f))]}, 600, 'indep:vdi'))
    base.append(({'g': 'patch', 'n': 600, 'bg': 'z', 'p': [P(510, b'\x55\xaa')]}, 600, 'indep:gpt'))
    base.append(({'g': 'patch', 'n': 34816, 'bg': 'z', 'p': [P(32769, b'CD001')]}, 34816, 'indep:iso'))
    for fmt in FORMATS:
        spec = {'g': 'valid', 'fmt': fmt, 'seed': rng.randrange(10**6)}
        n = len(data_of(spec))
        if n <= 2 * MI: base.append((spec, n, 'indep:valid:' + fmt))
    specs = list(overlay_specs(rng, 'quick'))
    for spec, n, lab in rng.sample(specs, min(len(specs), 40 if tier == 'quick' else 300)):
        base.append((spec, n, 'indep:' + lab))
    reps = 2 if tier == 'quick' else 4
    for spec, n, lab in base:
        for _ in range(reps):
            a = mk_case(rng, spec, n, lab, style=rng.choice(['detect', 'small', 'one', 'k64', 'cuts']) if n <= 70000 else rng.choice(['detect', 'k64', 'mib']),
                        exp=None if rng.random() < 0.9 else rng.choice(FORMATS), kind='f')
            r = rng.random()
            if r < 0.6: bspec = partner_spec(rng, data_of(spec))
            elif r < 0.8: bspec = {'g': 'valid', 'fmt': rng.choice(FORMATS[1:]), 'seed': rng.randrange(10**6)}
            else: bspec = rng.choice(base)[0]
            bn = len(data_of(bspec))
            if bn > 2 * MI: continue
            b = mk_case(rng, bspec, bn, 'partner', style=rng.choice(['detect', 'small', 'one', 'k64']) if bn <= 70000 else 'k64',
                        allowed=rng.choice(ALLOW_OTHER), exp=None, kind='f')
            c = {'op': 'indep', 'a': a, 'b': b, 'bfirst': rng.random() < 0.5, 'k': lab}
            # wrappers used and discarded before: allow-lists chosen independently of a's (restricted subset first, then
            # None / a disjoint subset / the full list); some are constructed and dropped without a single read
            pres = []
            for _ in range(rng.choice([0, 1, 1, 2, 3])):
                pspec = rng.choice(base)[0]
                if len(data_of(pspec)) > 70000: continue
                pc = mk_case(rng, pspec, len(data_of(pspec)), 'discarded', style='one', allowed=rng.choice(ALLOW_OTHER), exp=None, kind='f')
                if rng.random() < 0.4: pc['ops'] = []
                pres.append(pc)
            if pres: c['pres'] = pres
            if rng.random() < 0.5: c['post'] = 1
            yield c
    for spec, n, lab in rng.sample(base, min(len(base), 16 if tier == 'quick' else 60)):
        other = rng.choice([partner_spec(rng, data_of(spec)), rng.choice(base)[0]])
        if n <= 2 * MI and len(data_of(other)) <= 2 * MI:
            c = {'op': 'detect2', 'd': spec, 'o': other, 'k': 'detect2:' + lab}
            if rng.random() < 0.6:
                pspec = rng.choice(base)[0]
                if len(data_of(pspec)) <= 70000:
                    pc = mk_case(rng, pspec, len(data_of(pspec)), 'discarded', style='one', allowed=rng.choice(ALLOW_OTHER[1:]), exp=None, kind='f')
                    if rng.random() < 0.4: pc['ops'] = []
                    c['pres'] = [pc]
            yield c

LITERAL_SIGS = {'qcow2': (0, b'QFI\xfb'), 'qed': (0, b'QED\x00'), 'vhd': (0, b'conectix'), 'vhdx': (0, b'vhdxfile'), 'vmdk': (0, b'KDMV'),
                'vdi': (0x40, b'\x7f\x10\xda\xbe'), 'iso': (32769, b'CD001'), 'luks': (0, b'LUKS\xba\xbe'), 'gpt': (510, b'\x55\xaa')}

def near_miss_cases(rng, tier):
    """for every format: its signature with the last byte altered (to a text byte, to 0x00/0xff, to last+1), and the whole
    signature shifted by one byte, on zero and text backgrounds at lengths past the decision point: no format may be named"""
    P = lambda off, b: [off, bytes(b).hex()]
    for fmt, (off, sig) in LITERAL_SIGS.items():
        variants = []
        for last in {0x2e, 0x00, 0xff, (sig[-1] + 1) & 0xff, ord('A')} - {sig[-1]}:
            variants.append(('last', [P(off, sig[:-1] + bytes([last]))]))
        variants.append(('shift+1', [P(off, b'\x01'), P(off + 1, sig)]))
        if off > 0: variants.append(('shift-1', [P(off - 1, sig), P(off + len(sig) - 1, b'\x01')]))
        for isoid in ((b'NSR02', b'NSR03') if fmt == 'iso' else ()):
            variants.append(('last', [P(off, isoid[:-1] + b'4')]))
        lens = (34816, 40000) if fmt == 'iso' else (512, 600, 4096)
        for lab, patches in variants:
            for bg in ('z', 't%d' % rng.randrange(10**6)):
                n = rng.choice(lens)
                d = {'g': 'patch', 'n': n, 'bg': bg, 'p': patches}
                yield mk_case(rng, d, n, 'near-miss:%s:%s' % (fmt, lab), style=rng.choice(['detect', 'one', 'mib']), allowed=rng.choice([None, None, [fmt], [fmt, 'raw']]),
                              exp=None, kind='f')
                if rng.random() < (0.25 if tier == 'quick' else 1.0):
                    yield {'op': 'detect', 'd': d, 'k': 'detect:near-miss:' + fmt}

def gen_cases(rng, tier):
    yield from near_miss_cases(rng, tier)
    single = list(gen_cases_single(rng, tier))
    yield from indep_cases(rng, tier)        # first: their failures name a concrete PAIR of contents / allow-lists
    yield from single

def gen_cases_single(rng, tier):
    reps = 3 if tier == 'quick' else 4
    for spec, n, lab in overlay_specs(rng, tier):
        for _ in range(reps):
            yield mk_case(rng, spec, n, lab)
    for spec, n, lab in valid_specs(rng, tier):
        for _ in range(2 * reps):
            yield mk_case(rng, spec, n, lab)
        fmt = spec['fmt']
        yield mk_case(rng, spec, n, lab + ':expected', exp=fmt, allowed=rng.choice([None, [fmt], [fmt, 'raw']]))
        yield mk_case(rng, spec, n, lab + ':unexpected', exp=rng.choice([f for f in FORMATS if f != fmt]), allowed=None)
    for spec, n, lab in unstr_specs(rng, tier):
        for _ in range(reps):
            yield mk_case(rng, spec, n, lab)
    yield from targeted(rng, tier)
    # detect_file_format on files
    dets = []
    for spec, n, lab in overlay_specs(rng, 'quick'):
        if rng.random() < (0.25 if tier == 'quick' else 1.0): dets.append((spec, lab))
    for spec, n, lab in valid_specs(rng, 'quick'):
        if rng.random() < (0.5 if tier == 'quick' else 1.0): dets.append((spec, lab))
    for spec, n, lab in unstr_specs(rng, 'quick'):
        if rng.random() < (0.5 if tier == 'quick' else 1.0): dets.append((spec, lab))
    for spec, lab in dets:
        yield {'op': 'detect', 'd': spec, 'k': 'detect:' + lab}
    # decisions reached INSIDE the 4096-byte read loop (every inspector complete before EOF): early return, and
    # ImageFormatError raised by wrapper.format inside the loop (the finally clause must still close and finish)
    P = lambda off, b: [off, bytes(b).hex()]
    for p in ([P(0, b'QFI\xfb'), P(510, b'\x55\xaa')], [P(0, b'conectix')], [P(0x40, struct.pack('<I', 0xbeda107f)), P(32769, b'CD001')], []):
        for n in (262144, 262145, 300000):
            yield {'op': 'detect', 'd': {'g': 'patch', 'n': n, 'bg': 'z', 'p': p}, 'k': 'detect:in-loop'}

def classify(c, io_):
    if io_.startswith('HARNESS'): return 'harness-error'
    if c['op'] in ('indep', 'detect2'): return c['op'] + ':' + io_[:4]
    if c['op'] == 'detect':
        res = io_.split('@')[0]
        return 'detect:' + (res if res.startswith('EXN') or res in ('None', 'raw') else 'specific')
    recs = parse(io_)
    fm = recs[-1][3]
    ex = executed_ops(c, recs)
    early = any(r[3] not in ('None',) and not r[3].startswith('EXN') and not closed_at(c, i, ex) for i, r in enumerate(recs))
    return 'wrap:%s:%s:%s%s' % (c['kind'], 'exp' if c.get('exp') else 'noexp',
                                fm if fm.startswith('EXN') or fm in ('None', 'raw') else 'specific', ':early' if early else '')

def trivial(c, io_):
    return len(data_of(c['a']['d'] if c['op'] == 'indep' else c['d'])) == 0

def search(rng, budget):
    n = 0
    while n < budget:
        for c in gen_cases(rng, 'quick'):
            n += 1
            yield c

RULE = ('signature-overlay generator (imgbuild.overlay: every single signature, every ordered pair, random triples and larger subsets of the nine '
        'signatures + the FAT look-alike, on zero/random/text backgrounds, lengths on both sides of every decision point 4, 64, 512, 592, 34816, 256 KiB; '
        'text backgrounds with a late non-ASCII byte), valid images of every format (also truncated/extended), unstructured text/binary; x allowed_formats '
        'family (None, [], single, with/without raw, names that are substrings of one another, unknown names) x expected_format x read sizes (4096, 1 MiB, '
        'one read, 64 KiB, cuts at +-1 of decision points, random, read(-1)) x file / iterator / generator sources; format, formats and every inspector\'s '
        'complete/format_match observed after EVERY call; detect_file_format on files; distinct = distinct case JSON; trivial = empty content')
TRUSTED = ['the shared inspector model coq/Model/Insp_*.v (tied by the C01 correspondence, every chunk, all ten inspectors) and the generic wrapper model '
           'coq/Model/Wrap.v (C06); this plugin ties their composition to the real InspectWrapper / detect_file_format after every call',
           'tools/imgbuild.py signature_present(): the reference reading of "the format\'s signature is present in the content" used by the oracle']
ASSUMPTIONS = ['inspector instances (and wrappers) share no mutable state: an inspector is a value in the model; tested by the model-free indep/detect2 family (two live wrappers interleaved)',
               'the iteration order of the Python set of inspectors is modelled as a list; every theorem holds for every order, the correspondence picks one per case',
               'the order in which formats evaluates format_match over the set matters only for WHICH exception escapes when several queries raise; none raises in a reachable state (C03_queries_total)',
               'allowed_formats=[] (like None) means all formats (DESIGN O2); names are compared with ==']
LEVEL_TEXT = ('Proved (Coq, unbounded: all contents, all read-size sequences, all expected_format / allowed_formats) on the model = generic InspectWrapper model '
              '(C06) instantiated with the ten concrete inspectors (C01 model): (1) queries_total: in every reachable state of every inspector format_match returns '
              '(complete is total) - the statement D2 broke; hence format / formats / detect_file_format with the RAISING queries coincide with the boolean ones and '
              'yield a result or ImageFormatError, nothing else, on every wrapper reachable by any call sequence; (2) after read-through and close, format = f (not raw) '
              'implies the declarative signature predicate of f on the content (all ten formats; for the eight static ones format_match IS the predicate; vmdk: KDMV or the '
              'F1 text zone); no other allowed non-raw inspector matches; two matching inspectors (two static signatures in the content) => ImageFormatError; raw only when '
              'allowed and nothing else matches, never with others; a non-empty allowed_formats restricts the inspectors and every reported format; [] means all; '
              '(3) decision_stable: a non-None format after some reads is not revised by ANY further reads nor by close() - per inspector (all ten, vhdx and vmdk without any '
              'zone hypothesis): complete at a chunk boundary => every further chunk leaves regions and attributes untouched; (4) C01 wrapper verdict: static slots = spec_state(content), '
              'whole wrapper a function of the content when only static formats are allowed.  Content-level clauses are stated for runs in which every chunk was delivered.')
LEVEL_NOTE = ('Trusted: Coq kernel; the shared inspector model (tied by the C01 every-chunk correspondence) and the generic wrapper model (C06), whose composition is tied here to the '
              'real InspectWrapper / detect_file_format after every call; generators gen_insp / gen_C06 (fail-closed); the Python set of inspectors modelled as a list (every theorem '
              'holds for every order); tools/imgbuild.signature_present as the oracle\'s reading of "signature present".  Closed under the global context.')
