"""C09 — exception-handling helpers never lose, replace or invent an exception
(oslo_utils/excutils.py: save_and_reraise_exception, exception_filter, raise_with_cause;
 oslo_utils/fileutils.py: remove_path_on_error)"""
import sys, os, itertools
import gen_C09
sys.path.insert(0, os.path.dirname(os.path.abspath(__file__)))
import C09_prog as P

ID = 'C09'
GEN = [('Gen/C09_Excutils.v', gen_C09.generate)]
EQUIV_FILES = ['Proofs/C09.v']
EXTRACT = 'Extract/C09_x.v'

def _mods():
    from oslo_utils import excutils, fileutils
    return excutils, fileutils

# ---------------------------------------------------------------- bodies

N = ['noop']
USES = [0, 1, 2, 4, 5, 6, 7, 8]
NCLS = len(P.CLASSES)

def leaves(i=0):
    """core leaves; the class / kind of raise is rotated by the caller"""
    return [['noop'], ['raise', 0, 0, 0], ['set', 0], ['set', 1], ['force', 0], ['capture', 0]]

_cache = {}
def bodies(depth):
    """all core bodies of depth <= depth (labels 0: assigned later)"""
    if depth in _cache: return _cache[depth]
    if depth == 1:
        r = leaves()
    else:
        sub = bodies(depth - 1)
        r = list(leaves())
        for a in sub:
            r.append(['nested', 0, 0, a]); r.append(['nested', 1, 0, a])
        for a in sub:
            for b in sub:
                r.append(['seq', a, b]); r.append(['try', a, b])
    _cache[depth] = r
    return r

def relabel(b, ctr, pick):
    """fresh copy with preorder labels; pick(n) chooses class/kind for raise nodes"""
    t = b[0]
    if t in ('noop',): return ['noop']
    if t == 'set': return ['set', b[1]]
    if t == 'raise':
        ctr[0] += 1; c, k = pick(ctr[0]); return ['raise', c, k, ctr[0]]
    if t in ('seq', 'try'):
        a = relabel(b[1], ctr, pick); return [t, a, relabel(b[2], ctr, pick)]
    if t == 'nested':
        ctr[0] += 1; l = ctr[0]; return ['nested', b[1], l, relabel(b[3], ctr, pick)]
    if t in ('force', 'capture'):
        ctr[0] += 1; return [t, ctr[0]]
    if t == 'filter':
        ctr[0] += 1; l = ctr[0]; return ['filter', b[1], l, relabel(b[3], ctr, pick)]
    if t == 'fcall':
        ctr[0] += 1; return ['fcall', b[1], b[2], ctr[0]]
    if t == 'withctx':
        ctr[0] += 1; l = ctr[0]; return ['withctx', l, relabel(b[2], ctr, pick)]
    if t == 'tamper': return ['tamper']
    raise ValueError(t)

def lab(b, seed=0):
    return relabel(b, [9], lambda n: ((seed + n * 7) % NCLS, (seed // NCLS + n) % 3))

def rand_body(rng, depth, ctxfree=False, rich=True):
    """random body; ctxfree: no statement that refers to `ctx` at the outermost level"""
    r = rng.random()
    if depth <= 1 or r < 0.25:
        ch = ['noop', 'raise', 'raise', 'fcall', 'tamper'] if ctxfree else ['noop', 'raise', 'raise', 'set', 'set', 'force', 'capture', 'fcall', 'tamper']
        if not rich: ch = [c for c in ch if c not in ('fcall', 'tamper')]
        t = rng.choice(ch)
        if t == 'noop': return ['noop']
        if t == 'tamper': return ['tamper']
        if t == 'raise': return ['raise', 0, 0, 0]
        if t == 'set': return ['set', rng.randrange(2)]
        if t == 'fcall': return ['fcall', rng.randrange(len(P.PREDS)), rng.randrange(5), 0]
        return [t, 0]
    r = rng.random()
    if r < 0.3: return ['seq', rand_body(rng, depth - 1, ctxfree, rich), rand_body(rng, depth - 1, ctxfree, rich)]
    if r < 0.6: return ['try', rand_body(rng, depth - 1, ctxfree, rich), rand_body(rng, depth - 1, ctxfree, rich)]
    if r < 0.85 or not rich: return ['nested', rng.randrange(2), 0, rand_body(rng, depth - 1, False, rich)]
    return ['filter', rng.randrange(len(P.PREDS)), 0, rand_body(rng, depth - 1, ctxfree, rich)]

def has_direct0(b):
    """does the body call force_reraise()/capture() on the context it is the block of?"""
    t = b[0]
    if t in ('force', 'capture', 'withctx'): return True
    if t in ('seq', 'try'): return has_direct0(b[1]) or has_direct0(b[2])
    if t == 'filter': return has_direct0(b[3])
    return False

def has_tamper(b):
    t = b[0]
    if t == 'tamper': return True
    if t in ('seq', 'try'): return has_tamper(b[1]) or has_tamper(b[2])
    if t in ('nested', 'filter'): return has_tamper(b[3])
    if t == 'withctx': return has_tamper(b[2])
    return False

def depth_of(b):
    t = b[0]
    if t in ('seq', 'try'): return 1 + max(depth_of(b[1]), depth_of(b[2]))
    if t in ('nested', 'filter'): return 1 + depth_of(b[3])
    if t == 'withctx': return 1 + depth_of(b[2])
    return 1

# ---------------------------------------------------------------- cases

def gen_cases(rng, tier):
    quick = tier == 'quick'
    # boundary cases first
    for oc in range(NCLS):
        for ok in range(3):
            for r0 in (0, 1):
                for mode in ('with', 'direct', 'noactive'):
                    yield {'op': 'sare', 'mode': mode, 'r0': r0, 'oc': oc, 'ok': ok, 'body': ['noop']}
    # exhaustive: every core body up to depth 3 x initial flag; class / kind rotate with the index
    n = 0
    for b in bodies(3):
        for r0 in (0, 1):
            n += 1
            yield {'op': 'sare', 'mode': 'with', 'r0': r0, 'oc': n % NCLS, 'ok': (n // NCLS) % 3, 'body': lab(b, n)}
    if not quick:
        # every core body up to depth 3 x every class x kind of the original exception
        for oc in range(NCLS):
            for ok in range(3):
                if (oc, ok) == (0, 0): continue
                for i, b in enumerate(bodies(3)):
                    yield {'op': 'sare', 'mode': 'with', 'r0': (i + oc) % 2, 'oc': oc, 'ok': ok, 'body': lab(b, i + oc)}
    # depth 2 exhaustively for the other two ways of using the helper
    for mode in ('direct', 'noactive'):
        for b in bodies(2 if quick else 3):
            for r0 in (0, 1):
                n += 1
                yield {'op': 'sare', 'mode': mode, 'r0': r0, 'oc': n % NCLS, 'ok': (n // NCLS) % 3, 'body': lab(b, n)}
    # the context object used again after its with block: force_reraise() / capture(); force_reraise()
    for post in (1, 2):
        for oc in range(NCLS):
            for r0 in (0, 1):
                yield {'op': 'sare', 'mode': 'post', 'post': post, 'r0': r0, 'oc': oc, 'ok': (oc + post) % 3, 'body': ['noop']}
        for b in bodies(2 if quick else 3):
            for r0 in (0, 1):
                n += 1
                yield {'op': 'sare', 'mode': 'post', 'post': post, 'r0': r0, 'oc': n % NCLS, 'ok': (n // NCLS) % 3, 'body': lab(b, n)}
    for i in range(1500 if quick else 60000):
        yield {'op': 'sare', 'mode': 'post', 'post': 1 + i % 2, 'r0': rng.randrange(2), 'oc': rng.randrange(NCLS), 'ok': rng.randrange(3),
               'body': lab(rand_body(rng, rng.randint(3, 5), rich=(i % 4 == 0)), rng.randrange(1000))}
    # bodies that tamper with the saved exception's __traceback__ (set it to None; re-raise-and-catch the same
    # object elsewhere: through a rejecting filter call, through a nested context)
    detours = [['tamper'], ['try', ['fcall', 0, 0, 0], ['noop']], ['try', ['nested', 1, 0, ['noop']], ['noop']],
               ['try', ['fcall', 0, 3, 0], ['tamper']], ['try', ['nested', 1, 0, ['tamper']], ['noop']]]
    for d1 in detours:
        for d2 in [['noop'], ['set', 1], ['set', 0]] + detours:
            for r0 in (0, 1):
                for mode in ('with', 'direct', 'post'):
                    n += 1
                    c = {'op': 'sare', 'mode': mode, 'r0': r0, 'oc': n % NCLS, 'ok': (n // NCLS) % 3, 'body': lab(['seq', d1, d2], n)}
                    if mode == 'post': c['post'] = 1 + n % 2
                    yield c
    for i, b in enumerate(bodies(2)):
        yield {'op': 'sare', 'mode': 'with', 'r0': i % 2, 'oc': i % NCLS, 'ok': i % 3, 'body': lab(['seq', ['tamper'], b], i)}
        yield {'op': 'sare', 'mode': 'with', 'r0': (i + 1) % 2, 'oc': i % NCLS, 'ok': i % 3, 'body': lab(['seq', b, ['tamper']], i)}
    # tamper, then a context (nested / re-entered / filter) that saves or logs the tampered exception: the logged traceback is
    # the (empty) one captured after the tampering, whatever the exception's __context__/__cause__ chain shows
    tpre = [['tamper'], ['filter', 0, 0, ['tamper']], ['try', ['nested', 1, 0, ['tamper']], ['noop']]]
    tpost = [['nested', 1, 0, ['raise', 0, 0, 0]], ['nested', 0, 0, ['raise', 0, 0, 0]], ['nested', 1, 0, ['noop']],
             ['nested', 1, 0, ['seq', ['capture', 0], ['raise', 0, 0, 0]]], ['nested', 1, 0, ['fcall', 2, 2, 0]],
             ['filter', 0, 0, ['nested', 1, 0, ['raise', 0, 0, 0]]], ['raise', 0, 0, 0], ['fcall', 0, 0, 0]]
    for a in tpre:
        for b in tpost:
            for ok in range(3):
                for r0 in (0, 1):
                    n += 1
                    core = ['seq', a, b]
                    yield {'op': 'sare', 'mode': 'with', 'r0': r0, 'oc': n % NCLS, 'ok': ok, 'body': lab(core, n)}
                    yield {'op': 'sare', 'mode': 'with', 'r0': r0, 'oc': n % NCLS, 'ok': ok,
                           'body': lab(['try', ['raise', 0, 0, 0], core], n)}
                    yield {'op': 'sare', 'mode': 'with', 'r0': r0, 'oc': n % NCLS, 'ok': ok,
                           'body': lab(['try', ['nested', 1, 0, ['seq', ['capture', 0], ['raise', 0, 0, 0]]], core], n)}
                    yield {'op': 'sare', 'mode': 'reuse', 'r0': r0, 'oc': n % NCLS, 'ok': ok,
                           'pre': lab(['try', ['raise', 0, 0, 0], ['seq', a, ['try', ['withctx', 0, b], ['noop']]]], n),
                           'body': relabel(core, [499], lambda m: ((n + m) % NCLS, m % 3))}
            yield {'op': 'filter', 'p': n % len(P.PREDS), 'use': n % 3, 'body': lab(['try', ['raise', 0, 0, 0], ['seq', a, b]] if b[0] != 'nested' or True else b, n)}
            yield {'op': 'rpoe', 'rm': 1 + n % 6, 'body': lab(['try', ['raise', 0, 0, 0], ['seq', a, b]], n)}
    # ONE context object entered more than once: earlier rounds under other exceptions (with blocks whose outcome is
    # caught - a loop unrolled -, or an explicit capture()), then the with block under the original exception
    def rounds(k, bs, caps):
        out = []
        for j in range(k):
            first = ['capture', 0] if caps[j] else ['try', ['withctx', 0, bs[j]], ['noop']]
            out.append(['try', ['raise', 0, 0, 0], first])
        r = out[-1]
        for x in reversed(out[:-1]): r = ['seq', x, r]
        return r
    small = bodies(1) + [['tamper'], ['try', ['raise', 0, 0, 0], ['noop']], ['seq', ['set', 1], ['noop']], ['seq', ['set', 0], ['noop']]]
    for b1 in small:
        for cap in (0, 1):
            for b2 in small:
                for r0 in (0, 1):
                    n += 1
                    yield {'op': 'sare', 'mode': 'reuse', 'r0': r0, 'oc': n % NCLS, 'ok': (n // NCLS) % 3,
                           'pre': lab(rounds(1, [b1], [cap]), n), 'body': relabel(b2, [499], lambda m: ((n + m) % NCLS, m % 3))}
    for i in range(1200 if quick else 50000):
        k = rng.randint(1, 3)
        pre = rounds(k, [rand_body(rng, rng.randint(1, 3), rich=False) for _ in range(k)], [rng.random() < 0.3 for _ in range(k)])
        sd = rng.randrange(1000)
        yield {'op': 'sare', 'mode': 'reuse', 'r0': rng.randrange(2), 'oc': rng.randrange(NCLS), 'ok': rng.randrange(3),
               'pre': lab(pre, sd), 'body': relabel(rand_body(rng, rng.randint(1, 4), rich=(i % 3 == 0)), [499], lambda m: ((sd + m) % NCLS, m % 3))}
    # random deeper bodies, filters and direct calls mixed in
    for i in range(3000 if quick else 250000):
        d = 4 if i % 3 else rng.randint(5, 7)
        yield {'op': 'sare', 'mode': rng.choice(['with', 'with', 'with', 'direct', 'noactive']), 'r0': rng.randrange(2),
               'oc': rng.randrange(NCLS), 'ok': rng.randrange(3), 'body': lab(rand_body(rng, d, rich=(i % 2 == 0)), rng.randrange(1000))}
    # exception_filter as a context manager: plain instance / decorator-made / bound method
    # uses: 0 plain / 1 decorator-made / 2 bound method / 4 filter of a filter / 5 stacked decorators / 6 bound method of a
    # doubly decorated method / 7 filter of a filter of a callable instance (K14) / 8 filter of a callable instance
    for p in range(len(P.PREDS)):
        for use in USES:
            yield {'op': 'filter', 'p': p, 'use': use, 'body': ['noop']}
            for c in range(NCLS):
                for k in range(3):
                    yield {'op': 'filter', 'p': p, 'use': use, 'body': ['raise', c, k, 10]}
    # bound-method filter on a class with several instances whose predicates differ through instance state
    for p in range(len(P.PREDS)):
        for p2 in range(len(P.PREDS)):
            if p2 == p: continue
            for c in range(NCLS):
                yield {'op': 'filter', 'p': p, 'use': 3, 'p2': p2, 'body': ['raise', c, (p + p2 + c) % 3, 10]}
                yield {'op': 'call', 'p': p, 'use': 3, 'p2': p2, 'a': 0, 'active': 1, 'oc': c, 'ok': (p + p2 + c) % 3}
    for i in range(300 if quick else 10000):
        yield {'op': 'filter', 'p': rng.randrange(len(P.PREDS)), 'use': 3, 'p2': rng.randrange(len(P.PREDS)),
               'body': lab(rand_body(rng, rng.randint(2, 4), ctxfree=True), rng.randrange(1000))}
    for i in range(1500 if quick else 40000):
        yield {'op': 'filter', 'p': rng.randrange(len(P.PREDS)), 'use': rng.choice(USES),
               'body': lab(rand_body(rng, rng.randint(2, 4), ctxfree=True), rng.randrange(1000))}
    # direct call
    for p in range(len(P.PREDS)):
        for use in USES:
            for a in range(4):
                for active in (0, 1):
                    for oc in range(NCLS if use < 3 else 3):
                        yield {'op': 'call', 'p': p, 'use': use, 'a': a, 'active': active, 'oc': oc, 'ok': (p + use + a + oc) % 3}
    # direct call with a STORED exception (raised and caught earlier: it has a traceback) that is not the one being
    # handled: (i) no active exception, (ii) inside an unrelated except block; (iii) = a == 0 above
    for p in range(len(P.PREDS)):
        for use in [0, 1, 2, 3, 4, 5, 6, 7, 8]:
            for active in (0, 1):
                for sc in range(NCLS):
                    yield {'op': 'call', 'p': p, 'use': use, 'p2': (p + 1 + sc) % len(P.PREDS), 'a': 4, 'active': active,
                           'oc': (sc + p) % NCLS, 'ok': (p + use + sc) % 3, 'sc': sc}
    # remove_path_on_error; removers 2.. FAIL (2, 3: program exceptions; 4-6: OSError with ENOTEMPTY / EACCES / ENOENT)
    for rm in range(7):
        yield {'op': 'rpoe', 'rm': rm, 'body': ['noop']}
        for c in range(NCLS):
            for k in range(3):
                yield {'op': 'rpoe', 'rm': rm, 'body': ['raise', c, k, 10]}
    for i in range(300 if quick else 10000):
        yield {'op': 'rpoe', 'rm': rng.randrange(1, 7) if i % 8 else 0,
               'body': lab(rand_body(rng, rng.randint(2, 4), ctxfree=True), rng.randrange(1000))}
    # raise_with_cause
    for cc in (0, 1):
        for given in (0, 1, 2):
            for active in (0, 1):
                for oc in range(NCLS):
                    yield {'op': 'cause', 'cc': cc, 'given': given, 'active': active, 'oc': oc, 'ok': (cc + given + oc) % 3}

# ---------------------------------------------------------------- implementation side

def run_case(c):
    ex, fu = _mods()
    r = P.Run(c, ex, fu)
    r.execute()
    return r

import json
def impl(c):
    r = run_case(c)
    return P.canonical(r) + ' #' + json.dumps(P.facts(r), sort_keys=True)

def project(c, io):
    return io.split(' #', 1)[0]

def verdict_of(p, cls_index):
    """what the predicate table says for an object of that class (None: not one of the program's classes)"""
    return P.PRED_NONE[p] if cls_index is None else P.PREDS[p][cls_index]

def oracle(c, io):
    """the property statement, checked on the implementation's observations only"""
    if ' #' not in io: return 'harness: ' + io[:200]
    f = json.loads(io.split(' #', 1)[1])
    op = c['op']
    if op == 'sare':
        mode = c['mode']
        if mode in ('with', 'post', 'reuse'):
            post = mode == 'post'
            if post and not f['with_finished']: return 'harness: with statement not finished'
            o_is_entry, o_none, o_is_body, tb_kept, nlog = ((f['w_is_entry'], f['w_none'], f['w_is_body_exc'], f['w_tb_kept'], f['w_logs2']) if post
                                                          else (f['out_is_entry'], f['out_none'], f['out_is_body_exc'], f['entry_tb_kept'], f['logs2']))
            if f['completed']:
                if f['flag']:
                    if not o_is_entry: return 'body completed with reraise on, but what came out is not the exception active on entry (%s)' % io.split(' ')[0]
                    if not tb_kept: return 'the re-raised exception lost the traceback of its original raise'
                else:
                    if not o_none: return 'body completed with reraise off, but an exception was raised (%s)' % io.split(' ')[0]
            else:
                if not o_is_body: return 'the body raised, but what came out is not the exception the body raised (%s)' % io.split(' ')[0]
                want = 1 if f['flag'] else 0
                if nlog != want: return 'body raised with reraise %s: %d log calls, expected %d' % (f['flag'], nlog, want)
                if want and not all(f['log2_names_entry'][:1]): return 'the log entry does not show the original exception'
            if post and c['post'] == 2 and not f['captured']:
                return 'capture() with an exception active did not save it but raised (%s)' % io.split(' ')[0]
            if post:
                # the saved exception must still be the one force_reraise() raises afterwards
                if not f['out_is_entry']:
                    return 'force_reraise() after the with block did not raise the exception saved on entry (%s)' % io.split(' ')[0]
                # capture() after the block saves the traceback the exception has THEN: if the program itself wiped it,
                # there is nothing the helper could restore
                if not f['entry_tb_kept'] and not (c['post'] == 2 and has_tamper(c['body'])):
                    return 'force_reraise() after the with block lost the traceback of the original raise'
        elif mode == 'noactive':
            if not f['completed'] and f['flag'] is not None:
                if not f['out_is_body_exc']: return 'the body raised, but what came out is not the exception the body raised'
        else:
            if not f['captured']: return 'capture() with an exception active did not save it but raised (%s)' % io.split(' ')[0]
            if f['completed']:
                if not f['out_is_entry']: return 'capture(); ...; force_reraise() did not raise the captured exception (%s)' % io.split(' ')[0]
                if not f['entry_tb_kept']: return 'force_reraise() lost the traceback of the original raise'
    elif op == 'filter':
        if f['completed']:
            if not f['out_none']: return 'block completed but the filter raised'
        else:
            v = verdict_of(c['p'], f['body_exc_class'])
            if v == 1 and not f['out_none']: return 'predicate accepted the exception but it was not suppressed'
            if v == 0 and not f['out_is_body_exc']: return 'predicate rejected the exception but it did not propagate as the same object'
            if v == 2 and f['out_label'] != 1002: return 'predicate raised but its exception did not come out'
    elif op == 'call':
        v = verdict_of(c['p'], f['arg_class'])
        if v == 1 and not f['out_none']: return 'predicate accepted the exception but the call raised'
        if v == 0 and not f['arg_none']:
            if not f['out_is_arg']: return 'predicate rejected the exception but the call did not raise that same object'
            if f['arg_is_cur'] and not f['cur_tb_kept']: return 're-raised current exception lost its traceback'
            if not f['arg_tb_kept']: return 'the rejected exception came out without the traceback of its own original raise'
        if v == 0 and f['arg_none'] and f['out_none']: return 'predicate rejected None and nothing was raised'
        if v == 2 and f['out_label'] != 1002: return 'predicate raised but its exception did not come out'
    elif op == 'rpoe':
        if f['completed']:
            if not f['out_none'] or f['rm']: return 'block completed, yet path removed / exception raised'
        elif f['body_exc_is_exception']:
            if f['rm'] != 1: return 'block raised an Exception but the path was not removed exactly once (%d)' % f['rm']
            if c['rm'] in (0, 1):
                if not f['out_is_body_exc']: return 'the original exception was not re-raised after removing the path'
            else:
                if f['out_label'] != 3000: return 'remove() raised but its exception did not propagate'
                if f['logs9'] != 1 or not all(f['log9_names_body_exc']): return 'remove() raised: the original must be logged once'
        else:
            # BaseException that is not an Exception: not caught by the helper (observation, see notes); it must still
            # come out unchanged
            if not f['out_is_body_exc']: return 'a BaseException passing through remove_path_on_error was replaced'
    elif op == 'cause':
        if f['out_none'] or f['out_registered']: return 'raise_with_cause did not raise a new exception'
        want_cls = ['CausedByException', 'CausedSub'][c['cc']]
        if f['out_class'] != want_cls: return 'raise_with_cause raised %s' % f['out_class']
        if c['given'] == 1:
            if not (f['cause_is_given'] and f['dunder_is_given']): return 'explicit cause not used'
        elif c['given'] == 2:
            if not (f['cause_none'] and f['dunder_none']): return 'explicit cause=None not respected'
        elif c['active']:
            if not (f['cause_is_orig'] and f['dunder_is_orig']): return 'cause not taken from the active exception'
        else:
            if not (f['cause_none'] and f['dunder_none']): return 'a cause was invented'
    return None

def zone(c):
    """K13: force_reraise()/capture() called on the context inside its own block, or force_reraise() invoked a
    second time on a context whose __exit__ already re-raised (decided by running the program: the with statement
    re-raises exactly when the block completes with the flag on)"""
    # K14: a filter wrapped around a filter whose innermost predicate is a callable without the functools wrapper
    # attributes (use 7)
    if c['op'] in ('filter', 'call') and c.get('use') == 7: return 'K14'
    if c['op'] == 'sare' and has_direct0(c['body']): return 'K13'
    if c['op'] == 'sare' and c['mode'] == 'post' and c['post'] == 1:
        f = json.loads(impl(c).split(' #', 1)[1])
        if f['completed'] and f['flag']: return 'K13'
    return None

def toks(b):
    t = b[0]
    if t == 'noop': return [0]
    if t == 'raise': return [1, b[1], b[2], b[3]]
    if t == 'set': return [2, b[1]]
    if t == 'seq': return [3] + toks(b[1]) + toks(b[2])
    if t == 'try': return [4] + toks(b[1]) + toks(b[2])
    if t == 'nested': return [5, b[1], b[2]] + toks(b[3])
    if t == 'force': return [6, b[1]]
    if t == 'capture': return [7, b[1]]
    if t == 'filter': return [8, b[1], b[2]] + toks(b[3])
    if t == 'fcall': return [9, b[1], b[2], b[3]]
    if t == 'withctx': return [10, b[1]] + toks(b[2])
    if t == 'tamper': return [11]
    raise ValueError(t)

def encode(c):
    op = c['op']
    if op == 'sare':
        if c['mode'] == 'reuse':
            return ['sare', 5, c['r0'], c['oc'], c['ok']] + toks(c['pre']) + toks(c['body'])
        m = {'with': 0, 'direct': 1, 'noactive': 2, 'post': 2}[c['mode']] + c.get('post', 0)
        return ['sare', m, c['r0'], c['oc'], c['ok']] + toks(c['body'])
    if op == 'filter': return ['filter', c['p'], c['use']] + toks(c['body'])
    if op == 'call': return ['call', c['p'], c['use'], c['a'], c['active'], c['oc'], c['ok'], c.get('sc', 2)]
    if op == 'rpoe': return ['rpoe', c['rm']] + toks(c['body'])
    if op == 'cause': return ['cause', c['cc'], c['given'], c['active'], c['oc'], c['ok']]
    return None

def classify(c, io):
    op = c['op']
    if op == 'sare':
        out = io.split(' ')[0]
        kind = 'none' if out == 'out=None' else 'orig' if out.startswith('out=s0:') else 'new' if out.startswith('out=new') else 'other'
        return 'sare:%s:%s:%s' % (c['mode'] + str(c.get('post', '')), 'direct-calls' if has_direct0(c['body']) else 'plain', kind)
    if op == 'filter':
        return 'filter:use%d:%s' % (c['use'], 'suppressed' if io.startswith('out=None') and 'done=0' in io else 'done' if 'done=1' in io else 'propagated')
    return op

def search(rng, budget):
    n = 0
    while n < budget:
        for c in gen_cases(rng, 'quick'):
            n += 1
            yield c
            if n >= budget: return

TRUSTED = ['CPython exception machinery (object identity, __traceback__ growth on raise/propagation, sys.exc_info() stack, '
           'what a with statement does with __exit__\'s result, try/except) is MODELLED in coq/Model/C09.v, not verified; '
           'contextlib.contextmanager\'s __exit__ is modelled for remove_path_on_error; tie = correspondence over generated programs',
           'translator tools/gen/gen_C09.py: statement-level translation of __init__/capture/__enter__/__exit__/force_reraise, '
           'exception_filter.__exit__/__call__ into the helper language of coq/Base/C09_HL.v; shape checks (fail-closed) for '
           'exception_filter.__init__/__get__/__enter__, raise_with_cause and remove_path_on_error',
           'harness compiler tools/props/C09_prog.py (DSL term -> Python source) and its class / predicate tables, mirrored in coq/Extract/C09_x.v']
ASSUMPTIONS = ['logging is observed as calls of logger.error with their arguments (fake logger / root-logger handler); message text is not modelled',
               '__context__ / __cause__ chaining of exceptions raised while another is handled is not modelled (except raise_with_cause\'s cause)',
               'traceback identity (`is not`) is modelled by structural equality of frame lists; every labelled statement of a generated program runs at most once',
               'exhaustive enumeration covers bodies up to depth 3; depth 4 and deeper are sampled (the depth-4 space has ~5e8 terms)',
               'remove_path_on_error does not remove the path for BaseException-only exceptions (except Exception): stated as a theorem clause, treated as an observation']
RULE = ('every body over {noop, raise new (6 classes x plain/chained/pre-existing traceback), reraise on/off, seq, try/except, nested '
        'save_and_reraise_exception, force_reraise, capture} up to depth 3 x initial flag, compiled to Python source and executed; random bodies of '
        'depth 4-7 incl. exception_filter blocks and direct filter calls; three ways of using the helper (with / capture..force_reraise / no active '
        'exception); exception_filter as plain instance, decorator-made and bound method x 6 predicate tables (truthy/falsy of several types, raising) '
        'x classes; direct calls x 4 kinds of argument x active or not; remove_path_on_error x 4 removers (real file + default remover, callback, raising '
        'callbacks); raise_with_cause; distinct = distinct case JSON')
LEVEL_TEXT = ('Theorems for every handler body (induction on the body, no depth bound): normal exit re-raises the same object with its entry traceback '
              'plus the re-raise frames iff the flag is on, nothing otherwise; a raising body\'s exception propagates untouched and the original is logged '
              'exactly when the flag is on; exception_filter suppresses exactly what its predicate accepts (context manager, bound method, direct call, '
              'no current exception, raising predicate); remove_path_on_error removes then re-raises the original. The helper bodies are translated '
              'statement by statement from the source on every run and proved equal to the hand model (6 *_equiv lemmas). K13 (force_reraise called '
              'and caught inside the block) refutes the unrestricted statement: witness theorem + zone; the universal theorems carry the decidable '
              'hypothesis direct_free0 on the body.')
LEVEL_NOTE = ('Trusted: Coq kernel; the AST-to-helper-language translator; the Coq model of CPython\'s exception machinery and of contextlib (tied by '
              'correspondence over ~39k (quick) generated programs: exception identity, class, every traceback frame, every logger call with the '
              'traceback it was given, reraise flag). Closed under the global context (no axioms).')
