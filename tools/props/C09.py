"""C09 — exception-handling helpers never lose, replace or invent an exception
(oslo_utils/excutils.py: save_and_reraise_exception, exception_filter, raise_with_cause;
 oslo_utils/fileutils.py: remove_path_on_error)"""
import sys, os, itertools
import gen_C09
sys.path.insert(0, os.path.dirname(os.path.abspath(__file__)))
import C09_prog as P

ID = 'C09'
GEN = [('Gen/C09_Excutils.v', gen_C09.generate)]
EXTRACT = 'Extract/C09_x.v'

def _mods():
    from oslo_utils import excutils, fileutils
    return excutils, fileutils

# ---------------------------------------------------------------- bodies

N = ['noop']
NCLS = len(P.CLASSES)

def leaves(i=0):
    """core leaves; the class / kind of raise is rotated by the caller"""
    return [['noop'], ['raise', 0, 0, 0], ['set', 0], ['set', 1], ['force', 0], ['capture', 0]]

_cache = {}
def bodies(depth):
    """all core bodies of depth <= depth (labels 0: assigned later)"""
    if depth in _cache: return _cache[depth]
    if depth == 1:
        r = leaves()
    else:
        sub = bodies(depth - 1)
        r = list(leaves())
        for a in sub:
            r.append(['nested', 0, 0, a]); r.append(['nested', 1, 0, a])
        for a in sub:
            for b in sub:
                r.append(['seq', a, b]); r.append(['try', a, b])
    _cache[depth] = r
    return r

def relabel(b, ctr, pick):
    """fresh copy with preorder labels; pick(n) chooses class/kind for raise nodes"""
    t = b[0]
    if t in ('noop',): return ['noop']
    if t == 'set': return ['set', b[1]]
    if t == 'raise':
        ctr[0] += 1; c, k = pick(ctr[0]); return ['raise', c, k, ctr[0]]
    if t in ('seq', 'try'):
        a = relabel(b[1], ctr, pick); return [t, a, relabel(b[2], ctr, pick)]
    if t == 'nested':
        ctr[0] += 1; l = ctr[0]; return ['nested', b[1], l, relabel(b[3], ctr, pick)]
    if t in ('force', 'capture'):
        ctr[0] += 1; return [t, ctr[0]]
    if t == 'filter':
        ctr[0] += 1; l = ctr[0]; return ['filter', b[1], l, relabel(b[3], ctr, pick)]
    if t == 'fcall':
        ctr[0] += 1; return ['fcall', b[1], b[2], ctr[0]]
    raise ValueError(t)

def lab(b, seed=0):
    return relabel(b, [9], lambda n: ((seed + n * 7) % NCLS, (seed // NCLS + n) % 3))

def rand_body(rng, depth, ctxfree=False, rich=True):
    """random body; ctxfree: no statement that refers to `ctx` at the outermost level"""
    r = rng.random()
    if depth <= 1 or r < 0.25:
        ch = ['noop', 'raise', 'raise', 'fcall'] if ctxfree else ['noop', 'raise', 'raise', 'set', 'set', 'force', 'capture', 'fcall']
        if not rich: ch = [c for c in ch if c != 'fcall']
        t = rng.choice(ch)
        if t == 'noop': return ['noop']
        if t == 'raise': return ['raise', 0, 0, 0]
        if t == 'set': return ['set', rng.randrange(2)]
        if t == 'fcall': return ['fcall', rng.randrange(len(P.PREDS)), rng.randrange(4), 0]
        return [t, 0]
    r = rng.random()
    if r < 0.3: return ['seq', rand_body(rng, depth - 1, ctxfree, rich), rand_body(rng, depth - 1, ctxfree, rich)]
    if r < 0.6: return ['try', rand_body(rng, depth - 1, ctxfree, rich), rand_body(rng, depth - 1, ctxfree, rich)]
    if r < 0.85 or not rich: return ['nested', rng.randrange(2), 0, rand_body(rng, depth - 1, False, rich)]
    return ['filter', rng.randrange(len(P.PREDS)), 0, rand_body(rng, depth - 1, ctxfree, rich)]

def has_direct0(b):
    """does the body call force_reraise()/capture() on the context it is the block of?"""
    t = b[0]
    if t in ('force', 'capture'): return True
    if t in ('seq', 'try'): return has_direct0(b[1]) or has_direct0(b[2])
    if t == 'filter': return has_direct0(b[3])
    return False

def depth_of(b):
    t = b[0]
    if t in ('seq', 'try'): return 1 + max(depth_of(b[1]), depth_of(b[2]))
    if t in ('nested', 'filter'): return 1 + depth_of(b[3])
    return 1

# ---------------------------------------------------------------- cases

def gen_cases(rng, tier):
    quick = tier == 'quick'
    # boundary cases first
    for oc in range(NCLS):
        for ok in range(3):
            for r0 in (0, 1):
                for mode in ('with', 'direct', 'noactive'):
                    yield {'op': 'sare', 'mode': mode, 'r0': r0, 'oc': oc, 'ok': ok, 'body': ['noop']}
    # exhaustive: every core body up to depth 3 x initial flag; class / kind rotate with the index
    n = 0
    for b in bodies(3):
        for r0 in (0, 1):
            n += 1
            yield {'op': 'sare', 'mode': 'with', 'r0': r0, 'oc': n % NCLS, 'ok': (n // NCLS) % 3, 'body': lab(b, n)}
    if not quick:
        # every core body up to depth 3 x every class x kind of the original exception
        for oc in range(NCLS):
            for ok in range(3):
                if (oc, ok) == (0, 0): continue
                for i, b in enumerate(bodies(3)):
                    yield {'op': 'sare', 'mode': 'with', 'r0': (i + oc) % 2, 'oc': oc, 'ok': ok, 'body': lab(b, i + oc)}
    # depth 2 exhaustively for the other two ways of using the helper
    for mode in ('direct', 'noactive'):
        for b in bodies(2 if quick else 3):
            for r0 in (0, 1):
                n += 1
                yield {'op': 'sare', 'mode': mode, 'r0': r0, 'oc': n % NCLS, 'ok': (n // NCLS) % 3, 'body': lab(b, n)}
    # random deeper bodies, filters and direct calls mixed in
    for i in range(3000 if quick else 250000):
        d = 4 if i % 3 else rng.randint(5, 7)
        yield {'op': 'sare', 'mode': rng.choice(['with', 'with', 'with', 'direct', 'noactive']), 'r0': rng.randrange(2),
               'oc': rng.randrange(NCLS), 'ok': rng.randrange(3), 'body': lab(rand_body(rng, d, rich=(i % 2 == 0)), rng.randrange(1000))}
    # exception_filter as a context manager: plain instance / decorator-made / bound method
    for p in range(len(P.PREDS)):
        for use in range(3):
            yield {'op': 'filter', 'p': p, 'use': use, 'body': ['noop']}
            for c in range(NCLS):
                for k in range(3):
                    yield {'op': 'filter', 'p': p, 'use': use, 'body': ['raise', c, k, 10]}
    for i in range(1500 if quick else 40000):
        yield {'op': 'filter', 'p': rng.randrange(len(P.PREDS)), 'use': rng.randrange(3),
               'body': lab(rand_body(rng, rng.randint(2, 4), ctxfree=True), rng.randrange(1000))}
    # direct call
    for p in range(len(P.PREDS)):
        for use in range(3):
            for a in range(4):
                for active in (0, 1):
                    for oc in range(NCLS):
                        yield {'op': 'call', 'p': p, 'use': use, 'a': a, 'active': active, 'oc': oc, 'ok': (p + use + a + oc) % 3}
    # remove_path_on_error
    for rm in range(4):
        yield {'op': 'rpoe', 'rm': rm, 'body': ['noop']}
        for c in range(NCLS):
            for k in range(3):
                yield {'op': 'rpoe', 'rm': rm, 'body': ['raise', c, k, 10]}
    for i in range(300 if quick else 10000):
        yield {'op': 'rpoe', 'rm': rng.randrange(1, 4) if i % 8 else 0,
               'body': lab(rand_body(rng, rng.randint(2, 4), ctxfree=True), rng.randrange(1000))}
    # raise_with_cause
    for cc in (0, 1):
        for given in (0, 1, 2):
            for active in (0, 1):
                for oc in range(NCLS):
                    yield {'op': 'cause', 'cc': cc, 'given': given, 'active': active, 'oc': oc, 'ok': (cc + given + oc) % 3}

# ---------------------------------------------------------------- implementation side

def run_case(c):
    ex, fu = _mods()
    r = P.Run(c, ex, fu)
    r.execute()
    return r

_last = {}
def impl(c):
    r = run_case(c)
    _last['case'] = c; _last['run'] = r
    return P.canonical(r)

def toks(b):
    t = b[0]
    if t == 'noop': return [0]
    if t == 'raise': return [1, b[1], b[2], b[3]]
    if t == 'set': return [2, b[1]]
    if t == 'seq': return [3] + toks(b[1]) + toks(b[2])
    if t == 'try': return [4] + toks(b[1]) + toks(b[2])
    if t == 'nested': return [5, b[1], b[2]] + toks(b[3])
    if t == 'force': return [6, b[1]]
    if t == 'capture': return [7, b[1]]
    if t == 'filter': return [8, b[1], b[2]] + toks(b[3])
    if t == 'fcall': return [9, b[1], b[2], b[3]]
    raise ValueError(t)

def encode(c):
    op = c['op']
    if op == 'sare':
        return ['sare', {'with': 0, 'direct': 1, 'noactive': 2}[c['mode']], c['r0'], c['oc'], c['ok']] + toks(c['body'])
    if op == 'filter': return ['filter', c['p'], c['use']] + toks(c['body'])
    if op == 'call': return ['call', c['p'], c['use'], c['a'], c['active'], c['oc'], c['ok']]
    if op == 'rpoe': return ['rpoe', c['rm']] + toks(c['body'])
    if op == 'cause': return ['cause', c['cc'], c['given'], c['active'], c['oc'], c['ok']]
    return None

def classify(c, io):
    op = c['op']
    if op == 'sare':
        out = io.split(' ')[0]
        kind = 'none' if out == 'out=None' else 'orig' if out.startswith('out=s0:') else 'new' if out.startswith('out=new') else 'other'
        return 'sare:%s:%s:%s' % (c['mode'], 'direct-calls' if has_direct0(c['body']) else 'plain', kind)
    if op == 'filter':
        return 'filter:use%d:%s' % (c['use'], 'suppressed' if io.startswith('out=None') and 'done=0' in io else 'done' if 'done=1' in io else 'propagated')
    return op
