"""C18 — process-state independence of specs_matcher.match.

match(value, spec) is documented as a function of its two arguments.  Nothing that happened earlier in the
process may change it: other oslo_utils callers of pyparsing, earlier match() calls (also failing ones), what a
caller did to "its" make_grammar() result, pyparsing's packrat cache, other threads.

Every observation is made in a FRESH FORK of a pristine "zygote" process (this file run as a script: it imports
the modules of the repository under test and nothing else).  For one request the forked child
    1. observes the case                      (base: pristine state)
    2. runs the named PRELUDE
    3. observes the same case again           (after)
and reports both; the child then exits, so no prelude leaks into another case and a replay of
{prelude, value, spec} reproduces on its own.  Observation = "<result or EXN:Class> T:<token list>".
"""
import sys, os, json, select, signal, threading, warnings

SEP = '\n##BASE##\n'
warnings.filterwarnings('ignore')


def canon_tokens(toks):
    return '%d;' % len(toks) + ''.join('%d:%s' % (len(t), t) for t in toks)


def observe(sm, pp, value, spec):
    try:
        r = sm.match(value, spec)
        r = str(r) if r is True or r is False else 'NONBOOL:' + repr(r)
    except Exception as e:
        r = 'EXN:' + type(e).__name__
    try:
        t = sm.make_grammar().parseString(spec)
        l = t.asList() if hasattr(t, 'asList') else list(t)
        t = canon_tokens(l) if all(isinstance(x, str) for x in l) else 'NONSTR:' + repr(l)
    except pp.ParseException:
        t = 'EXN:ParseException'
    except Exception as e:
        t = 'EXN:' + type(e).__name__
    return r + ' T:' + t


# ------------------------------------------------------------------ preludes (run inside the forked child)

def _quiet(f, *a):
    try:
        return f(*a)
    except Exception:
        return None


def _walk(g, seen=None):
    """the element and all its sub-elements"""
    seen = seen if seen is not None else set()
    if id(g) in seen:
        return
    seen.add(id(g))
    yield g
    for e in list(getattr(g, 'exprs', []) or []):
        yield from _walk(e, seen)
    e = getattr(g, 'expr', None)
    if e is not None:
        yield from _walk(e, seen)


def p_none(sm, su, pp): pass

def p_split_ok(sm, su, pp):
    _quiet(su.split_by_commas, 'a,b,"c d"'); _quiet(su.split_by_commas, 'x')

def p_split_err(sm, su, pp):
    _quiet(su.split_by_commas, 'a,"b')

def p_split_err_many(sm, su, pp):
    for v in ['a b', 'a,,b', '', '"a"b', 'a"']: _quiet(su.split_by_commas, v)

def p_split_ok_then_err(sm, su, pp):
    p_split_ok(sm, su, pp); p_split_err(sm, su, pp)

def p_match_ok(sm, su, pp):
    for v, s in [('5', '>= 3'), ('abc', 's== abc'), ("['a', 'b']", '<all-in> a b'), ('15', '<range-in> [ 10 20 ]'), ('abc', 'abc'),
                 ('b', '<or>\ta\n<or>\rb')]:
        _quiet(sm.match, v, s)

def p_match_valueerror(sm, su, pp):
    for v, s in [('abc', '>= 5'), ('5', '<range-in> [10 20]'), ('abc', '<range-in> [ 1 2 ]'), ('5', '<range-in> [ a 2 ]')]:
        _quiet(sm.match, v, s)

def p_match_typeerror(sm, su, pp):
    for v, s in [('5', '<range-in> [ 20 10 ]'), ('5', '<all-in> a'), ('15', '<range-in> { 10 20 }'), ('None', '<range-in> [ 1 2 ]')]:
        _quiet(sm.match, v, s)

def p_match_syntaxerror(sm, su, pp):
    for v, s in [('[', '<all-in> a'), ("['a'", '<all-in> a'), ('1 2', '<range-in> [ 1 2 ]')]:
        _quiet(sm.match, v, s)

def p_grammar_set_action(sm, su, pp):
    g = sm.make_grammar()
    _quiet(g.setParseAction, lambda s, l, t: [x.swapcase() for x in t])

def p_grammar_add_action(sm, su, pp):
    g = sm.make_grammar()
    _quiet(g.addParseAction, lambda s, l, t: [x.lower() for x in t])

def p_grammar_const_action(sm, su, pp):
    g = sm.make_grammar()
    _quiet(g.addParseAction, lambda t: ['<or>', 'zzz'])

def p_grammar_ignore(sm, su, pp):
    g = sm.make_grammar()
    _quiet(g.ignore, pp.Literal('s=='))
    _quiet(g.ignore, pp.Regex(r'[0-9]'))

def p_grammar_leave_ws(sm, su, pp):
    g = sm.make_grammar()
    _quiet(g.leaveWhitespace)

def p_grammar_ws_chars(sm, su, pp):
    g = sm.make_grammar()
    for e in _walk(g):
        _quiet(e.setWhitespaceChars, ' ')

def p_grammar_sub_actions(sm, su, pp):
    g = sm.make_grammar()
    for e in _walk(g):
        if isinstance(e, (pp.Literal, pp.Regex)):
            _quiet(e.addParseAction, lambda t: [x.upper() for x in t])

def p_grammar_sub_leave_ws(sm, su, pp):
    g = sm.make_grammar()
    for e in _walk(g):
        _quiet(e.leaveWhitespace, False)

def p_grammar_structure(sm, su, pp):
    g = sm.make_grammar()
    ex = getattr(g, 'exprs', None)
    if isinstance(ex, list) and ex:
        ex.reverse(); del ex[1:]

def p_grammar_fail_action(sm, su, pp):
    g = sm.make_grammar()
    def boom(*a): raise pp.ParseFatalException('', 0, 'no')
    _quiet(g.setFailAction, boom)
    _quiet(g.setName, 'mine')

def p_default_ws_restored(sm, su, pp):
    """a caller narrows pyparsing's global default whitespace for its own grammar and puts it back"""
    g = sm.make_grammar()
    old = pp.ParserElement.DEFAULT_WHITE_CHARS
    try:
        g.setDefaultWhitespaceChars(' \t')
        _quiet((pp.Word('ab') + pp.Word('cd')).parseString, 'ab cd')
    finally:
        pp.ParserElement.setDefaultWhitespaceChars(old)

def p_packrat(sm, su, pp):
    _quiet(pp.ParserElement.enablePackrat)

def p_packrat_small(sm, su, pp):
    _quiet(pp.ParserElement.enablePackrat, 1)
    p_match_ok(sm, su, pp)

def _in_thread(f, *a):
    th = threading.Thread(target=lambda: _quiet(f, *a))
    th.start(); th.join(30)

def p_thread_match(sm, su, pp):
    _in_thread(p_match_ok, sm, su, pp); _in_thread(p_match_valueerror, sm, su, pp)

def p_thread_mutate(sm, su, pp):
    _in_thread(p_grammar_set_action, sm, su, pp); _in_thread(p_grammar_leave_ws, sm, su, pp)

def p_thread_split_err(sm, su, pp):
    _in_thread(p_split_err, sm, su, pp)

def p_mix_errors(sm, su, pp):
    p_split_ok(sm, su, pp); _quiet(sm.match, '5', '<all-in> a'); _quiet(sm.match, 'abc', '>= 5'); p_split_err(sm, su, pp)

def p_mix_mutate(sm, su, pp):
    _quiet(sm.match, '5', '>= 3'); p_grammar_add_action(sm, su, pp); p_grammar_ignore(sm, su, pp); p_grammar_leave_ws(sm, su, pp)


PRELUDES = {k[2:]: v for k, v in list(globals().items()) if k.startswith('p_') and callable(v)}
PRELUDE_NAMES = sorted(PRELUDES)


def describe(name):
    """the source of a prelude on one line, for the violation message"""
    import inspect, re
    try:
        src = inspect.getsource(PRELUDES[name])
    except Exception:
        return name
    body = src.split(':', 1)[1] if ':' in src else src
    return re.sub(r'\s+', ' ', body).strip()[:260]


# ------------------------------------------------------------------ zygote

def _child(req, wfd):
    from oslo_utils import specs_matcher as sm, strutils as su
    import pyparsing as pp
    out = {}
    try:
        out['base'] = observe(sm, pp, req['value'], req['spec'])
        try:
            PRELUDES[req['prelude']](sm, su, pp)
        except Exception as e:
            out['prelude_exc'] = type(e).__name__
        if req.get('thread'):
            box = []
            th = threading.Thread(target=lambda: box.append(observe(sm, pp, req['value'], req['spec'])))
            th.start(); th.join(30)
            out['after'] = box[0] if box else 'TIMEOUT'
        else:
            out['after'] = observe(sm, pp, req['value'], req['spec'])
    except BaseException as e:
        out['error'] = '%s: %s' % (type(e).__name__, str(e)[:200])
    data = json.dumps(out).encode()
    while data:
        n = os.write(wfd, data); data = data[n:]
    os._exit(0)


def zygote_main():
    # import what the children need, run nothing
    from oslo_utils import specs_matcher, strutils     # noqa
    import pyparsing                                   # noqa
    inp = sys.stdin.buffer; outp = sys.stdout.buffer
    while True:
        line = inp.readline()
        if not line:
            return
        req = json.loads(line)
        r, w = os.pipe()
        pid = os.fork()
        if pid == 0:
            os.close(r)
            try:
                _child(req, w)
            finally:
                os._exit(1)
        os.close(w)
        buf = b''; deadline = float(req.get('timeout', 20))
        import time
        t0 = time.time(); timed_out = False
        while True:
            left = deadline - (time.time() - t0)
            if left <= 0:
                timed_out = True; break
            rl, _, _ = select.select([r], [], [], left)
            if not rl:
                timed_out = True; break
            d = os.read(r, 65536)
            if not d: break
            buf += d
        os.close(r)
        if timed_out:
            try: os.kill(pid, signal.SIGKILL)
            except OSError: pass
        try: os.waitpid(pid, 0)
        except OSError: pass
        if timed_out:
            res = {'error': 'TIMEOUT'}
        else:
            try: res = json.loads(buf.decode())
            except Exception: res = {'error': 'child died without an answer'}
        outp.write(json.dumps(res).encode() + b'\n'); outp.flush()


# ------------------------------------------------------------------ client side (used by tools/props/C18.py)

class Zygote:
    def __init__(self, repo):
        import subprocess
        env = dict(os.environ)
        env['PYTHONPATH'] = repo + os.pathsep + env.get('PYTHONPATH', '')
        env['PYTHONDONTWRITEBYTECODE'] = '1'
        self.p = subprocess.Popen([sys.executable, '-W', 'ignore', os.path.abspath(__file__), repo], stdin=subprocess.PIPE,
                                  stdout=subprocess.PIPE, env=env)

    def ask(self, req):
        self.p.stdin.write(json.dumps(req).encode() + b'\n'); self.p.stdin.flush()
        line = self.p.stdout.readline()
        if not line:
            raise RuntimeError('zygote process died')
        return json.loads(line)

    def close(self):
        try:
            self.p.stdin.close(); self.p.wait(5)
        except Exception:
            try: self.p.kill()
            except Exception: pass


if __name__ == '__main__':
    repo = sys.argv[1]
    sys.path.insert(0, repo)
    import importlib
    m = importlib.import_module('oslo_utils.specs_matcher')
    if not os.path.abspath(m.__file__).startswith(os.path.abspath(repo) + os.sep):
        sys.stderr.write('zygote: oslo_utils imported from %s\n' % m.__file__); sys.exit(2)
    zygote_main()
