"""Cases that validate coq/Base/PyFloat.v (the binary64 model) bit-exactly against CPython.
Used by tools/props/C10.py (ops 'pf_*'); importable by other plugins that rely on PyFloat.v."""
import math, struct, sys
from fractions import Fraction


def _exact_decimal(fr):
    """exact decimal expansion of a non-negative dyadic Fraction"""
    n, d = fr.numerator, fr.denominator
    k = d.bit_length() - 1
    assert d == 1 << k
    if k == 0: return str(n)
    digits = str(n * 5 ** k).rjust(k + 1, '0')
    return digits[:-k] + '.' + digits[-k:]

def rand_float(rng):
    r = rng.random()
    if r < 0.5:
        x = struct.unpack('<d', struct.pack('<Q', rng.getrandbits(64)))[0]
    elif r < 0.6:
        x = struct.unpack('<d', struct.pack('<Q', rng.getrandbits(52) | (rng.getrandbits(1) << 63)))[0]   # subnormal
    elif r < 0.7:
        x = rng.choice([0.0, -0.0, float('inf'), float('-inf'), float('nan'), 1.0, -1.0, 0.5, 8.0, 1024.0, 1e30, 0.125,
                        5e-324, 2.2250738585072014e-308, 1.7976931348623157e308, 2.0 ** 53, 2.0 ** 53 + 2, 2.0 ** 52 + 0.5])
    elif r < 0.85:
        x = rng.randint(-10 ** 6, 10 ** 6) / rng.choice([1, 2, 4, 8, 10, 100, 1000, 3, 7])
    else:
        x = math.ldexp(rng.getrandbits(53) | (1 << 52), rng.randint(-1100, 970)) * rng.choice([1, -1])
    return x

def fstr(x):
    return repr(x)

BOUNDARY_STR = [
    '0', '-0', '+0', '0.0', '.0', '0.', '1', '-1', '1.1', '0.1', '1e0', '1E0', '1e+0', '1e-0', '1.5', '2.5', '.5', '5.',
    '1.7976931348623157e308', '1.7976931348623158e308', '1.7976931348623159e308', '1.797693134862315807e308',
    '1.797693134862315808e308', '1.797693134862315708145274237317043567981e308', '1e308', '1e309', '2e308', '1.8e308',
    str(2 ** 1024 - 2 ** 970), str(2 ** 1024 - 2 ** 970 - 1), str(2 ** 1024 - 2 ** 970 + 1), str(2 ** 1024), str(2 ** 1024 - 2 ** 971),
    '5e-324', '4.9e-324', '2.5e-324', '2.4e-324', '2.4703282292062327e-324', '2.4703282292062328e-324', '2.47032822920623272e-324',
    '2.2250738585072014e-308', '2.2250738585072011e-308', '2.225073858507201e-308', '2.2250738585072012e-308',
    '1e-323', '1e-324', '1e-325', '1e-400', '1e400', '-1e400', '-1e-400', '1e-4000', '1e4000', '1e99999999999999999999', '1e-99999999999999999999',
    '0e99999999999999999999', '0e-99999999999999999999', '-0e5', '0.000e-5',
    '9007199254740992', '9007199254740993', '9007199254740994', '9007199254740995', '9007199254740993.0000000000000000000001',
    '9007199254740992.9999999999999999999999', '4503599627370496.5', '4503599627370497.5', '4503599627370497.500000000000000000001',
    '0.1e1', '10e-1', '100000000000000000000000e-23', '0.' + '0' * 400 + '1e401', '1' + '0' * 400 + 'e-400', '1' + '0' * 400, '0.' + '0' * 400 + '1',
    'inf', '-inf', '+inf', 'Inf', 'INF', 'infinity', 'Infinity', '-INFINITY', 'nan', '-nan', '+nan', 'NaN', 'NAN', 'infinit', 'infi', 'in', 'na', 'nane',
    ' 1', '1 ', ' 1 ', '\t1\n', '\x0b1\x0c', '\r1', '\x1c1', '1\x1f', '\xa01', '1 ', '　1　', '1\x85', '\x851', ' ', '', '  ',
    '1_0', '1__0', '_1', '1_', '1_.5', '1._5', '1.5_5', '1e1_0', '1e_5', '1_e5', '1e+_5', '1_000.000_1e1_0', 'i_nf', 'n_an', ' 1_0 ', '1_ ', ' _1',
    '１２.５', '٣', '٣.٤e١', '1٠', '١_٢', '-٣', '−٣', '²', '½', '①',
    '.', 'e5', '.e5', '1e', '1e+', '1e-', '1.e5', '1.e', '+.5', '-.5e-1', '+-1', '--1', '++1', '-+1', '- 1', '1 e5', '1e 5', '1e5 ', '0x10', '0x1p3', '1f', '1d0', '1e5.0',
    '1.2.3', '1,5', '1\x00', '\x001', '1\x005', 'nan_', '1j', '(1)', '1L', '1e5e5', '1ee5', '١e٥', 'e', 'E', '+', '-', '+e', '٫5', '1٫5',
]

def gen_float_strings(rng, n):
    for s in BOUNDARY_STR:
        yield s
    for _ in range(n):
        r = rng.random()
        if r < 0.12:      # plain decimals
            s = str(rng.randint(0, 10 ** rng.randint(1, 20)))
            if rng.random() < 0.6: s += '.' + ''.join(rng.choice('0123456789') for _ in range(rng.randint(0, 20)))
        elif r < 0.27:    # mantissa + exponent
            nd = rng.choice([1, 2, 5, 15, 16, 17, 18, 19, 20, 25, 40, 80])
            m = ''.join(rng.choice('0123456789') for _ in range(nd))
            p = rng.randint(0, nd)
            m = m[:p] + rng.choice(['.', '.', '']) + m[p:]
            s = m + rng.choice('eE') + rng.choice(['', '+', '-']) + str(rng.choice([rng.randint(0, 30), rng.randint(280, 345), rng.randint(0, 400)]))
        elif r < 0.47:    # exact halfway between two adjacent floats, and just off
            m = rng.getrandbits(52) | (1 << 52) if rng.random() < 0.7 else rng.getrandbits(rng.randint(1, 52))
            e = rng.choice([rng.randint(-60, 60), rng.randint(-1074, 970), -1074, -1073, -1022 - 52]) if m >> 52 else -1074
            half = Fraction(2 * m + 1, 2) * (Fraction(2) ** e)
            s = _exact_decimal(half)
            q = rng.random()
            if q < 0.3:
                s = (s if '.' in s else s + '.') + '0' * rng.randint(0, 30) + '1'
            elif q < 0.6:     # just below: decrement the last digit (never 0 for a dyadic fraction with k>0; guard otherwise)
                if '.' in s and s[-1] != '0':
                    s = s[:-1] + str(int(s[-1]) - 1) + '9' * rng.randint(1, 30)
                else:
                    s = str(int(s.split('.')[0]) - 1) + '.' + '9' * rng.randint(1, 30)
            if rng.random() < 0.3:   # move the point with an exponent
                k = rng.randint(-30, 30)
                s = s + 'e%d' % k if rng.random() < 0.5 else s
        elif r < 0.57:    # shortest repr / 17 significant digits of random floats
            x = abs(rand_float(rng))
            s = repr(x) if rng.random() < 0.5 else '%.*e' % (rng.choice([14, 15, 16, 17, 18, 25]), x)
        elif r < 0.65:    # near the overflow / underflow thresholds
            s = '%d.%de%d' % (rng.randint(1, 9), rng.randint(0, 10 ** 17), rng.choice([307, 308, 309, -322, -323, -324, -325, -326]))
        elif r < 0.72:    # large integers
            s = str(rng.choice([2 ** rng.randint(50, 1030) + rng.randint(-3, 3), rng.randint(0, 10 ** rng.randint(15, 330)), 10 ** rng.randint(0, 330)]))
        elif r < 0.8:     # huge exponents, zero mantissas
            s = rng.choice(['0', '0.0', '1', '123.456', '.001', '0' * 30 + '.0' * 1 + '1']) + 'e' + rng.choice(['', '-', '+']) + str(rng.choice([399, 400, 401, 1000, 5000, 10 ** 10, 10 ** 25, rng.randint(300, 450)]))
        elif r < 0.9:     # decorated valid numbers
            base = rng.choice(['1', '12.5', '1e3', '0.001', '7_0', '1_2.3_4e1_0', 'inf', 'nan', 'Infinity', '٣٤', '５.５'])
            s = rng.choice(['', ' ', '\n', '\t ', '\xa0', ' ', '\x1c', '\x85']) + rng.choice(['', '', '+', '-']) + base + rng.choice(['', ' ', '\n', '  \t', '　', '\x1f', '_', ' _'])
        else:             # junk
            s = ''.join(rng.choice('0123456789..eE+-_ infat\n\t٣x') for _ in range(rng.randint(0, 8)))
        if rng.random() < 0.3 and s and s[0] not in '+-':
            s = rng.choice('+-') + s
        yield s

def gen_pf_cases(rng, tier, scale=1.0):
    n = int((2500 if tier == 'quick' else 60000) * scale)
    for s in gen_float_strings(rng, n):
        yield {'op': 'pf_str', 's': s}
    ints = [0, 1, -1, 2 ** 53, 2 ** 53 + 1, 2 ** 53 + 2, 2 ** 53 + 3, -(2 ** 53 + 1), 2 ** 54 + 2, 2 ** 54 + 6, 2 ** 1024 - 2 ** 970, 2 ** 1024 - 2 ** 970 - 1,
            2 ** 1024, -(2 ** 1024), 2 ** 1023, 10 ** 22, 10 ** 23, 1000 ** 10, 1024 ** 10, 10 ** 308, 10 ** 309]
    for z in ints:
        yield {'op': 'pf_ofz', 'n': str(z)}
    m = n // 5
    for _ in range(m):
        r = rng.random()
        z = (rng.getrandbits(rng.randint(1, 1100)) if r < 0.5 else
             (rng.getrandbits(53) | 1 << 53) * 2 ** rng.randint(0, 100) + rng.choice([0, 1, -1, 2 ** 20]) if r < 0.8 else rng.randint(-10 ** 30, 10 ** 30))
        yield {'op': 'pf_ofz', 'n': str(z * rng.choice([1, -1]))}
    for _ in range(m):
        a, b = rand_float(rng), rand_float(rng)
        if rng.random() < 0.1: b = a
        if rng.random() < 0.1: b = -a
        yield {'op': rng.choice(['pf_arith', 'pf_arith', 'pf_cmp']), 'a': fstr(a), 'b': fstr(b)}
    for _ in range(m):
        r = rng.random()
        x = rand_float(rng) if r < 0.4 else (rng.randint(-10 ** 4, 10 ** 4) / rng.choice([1, 2, 4, 8, 16, 3, 10])) if r < 0.8 else math.ldexp(rng.getrandbits(53), rng.randint(-60, 5))
        yield {'op': 'pf_int', 'a': fstr(x)}
    for _ in range(m):
        yield {'op': 'pf_ratio', 'n': str(rng.getrandbits(rng.randint(1, 400)) + 1), 'd': str(rng.getrandbits(rng.randint(1, 400)) + 1)}

def _h(x):
    return x.hex()

def _try(f):
    try:
        return f()
    except Exception as e:
        return 'EXN:' + type(e).__name__

def pf_impl(c):
    op = c['op']
    if op == 'pf_str':
        return _try(lambda: _h(float(c['s'])))
    if op == 'pf_ofz':
        return _try(lambda: _h(float(int(c['n']))))
    if op == 'pf_arith':
        a, b = float(c['a']), float(c['b'])
        return ' '.join([_h(a * b), _try(lambda: _h(a / b)), _h(a + b), _h(a - b)])
    if op == 'pf_cmp':
        a, b = float(c['a']), float(c['b'])
        return ''.join('1' if t else '0' for t in (a == b, a < b, a <= b, a > b, a >= b, a != b))
    if op == 'pf_int':
        a = float(c['a'])
        return ' '.join([str(_try(lambda: math.ceil(a))), str(_try(lambda: math.floor(a))), str(_try(lambda: int(a))), str(a.is_integer()), format(a, '.0f')])
    if op == 'pf_ratio':
        return _h(int(c['n']) / int(c['d']))       # int / int is correctly rounded in CPython
    raise KeyError(op)

def pf_encode(c):
    op = c['op']
    if op == 'pf_str': return [op, c['s']]
    if op == 'pf_ofz': return [op, c['n']]
    if op in ('pf_arith', 'pf_cmp'): return [op, c['a'], c['b']]
    if op == 'pf_int': return [op, c['a']]
    if op == 'pf_ratio': return [op, c['n'], c['d']]
    return None
