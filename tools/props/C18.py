"""C18 — the spec matcher implements its documented operator table (oslo_utils/specs_matcher.py)

Case kinds
  op='match'  value, spec [, d]   impl: "<match(value, spec)> T:<make_grammar().parseString(spec).asList()>"
                                  `d` is the structured description the spec was built from (operator,
                                  operands, ...); the ORACLE computes the documented meaning from `d`
                                  alone (float / str comparison / in), never by parsing.
  op='lev'    value               ast.literal_eval on the modelled fragment (LEV_DOMAIN) vs Model/C18_LitEval.v
  op='state'  value, spec, prelude [, thread, d]
                                  process-state independence (tools/props/C18_state.py): in a fresh fork of a pristine process
                                  the case is observed, then the named PRELUDE runs (other pyparsing callers of oslo_utils,
                                  earlier failing match() calls, a make_grammar() result mutated in place, packrat, threads),
                                  then the case is observed again.  impl: "<after>" SEP "<base>".  Oracle: after == base
                                  (independence) AND the documented meaning on <after>; the model is compared with <after>.
"""
import sys, os, re, ast, operator, warnings, atexit
import gen_C18
from props import C18_state

ID = 'C18'
GEN = [('Gen/C18_SpecsMatcher.v', gen_C18.generate)]
EQUIV_FILES = []
EXTRACT = 'Extract/C18_x.v'
CASE_TIMEOUT = 120

TRUSTED = [
    'pyparsing is MODELLED, not verified: Literal / Regex / MatchFirst / And / NotAny / OneOrMore / parse action / parseString '
    'without parseAll as the recursive-descent parser of Model/C18.v (whitespace skipping of DEFAULT_WHITE_CHARS before each '
    'element, no backtracking into a finished alternative); tied by correspondence on the token lists',
    'CPython float(str), float(int) and float comparisons as Base/PyFloat.v (validated bit-exactly by C10); str comparison as '
    'code-point lexicographic order; `in` on str as substring; re \\S from CPython\'s own tables (regex_tr)',
    'ast.literal_eval enters the theorems as an arbitrary function (all theorems hold for every such function); the executable '
    'fragment Model/C18_LitEval.v (numbers, simple string literals, flat lists) is tied by correspondence only',
    'translator tools/gen/gen_C18.py: symbolic evaluation of make_grammar, op_methods lambdas, _range_in template, statement '
    'templates for _all_in and match',
]
ASSUMPTIONS = [
    'process-state independence is TESTED (fresh fork per case, preludes listed in C18_state.py), not proved: the Coq model is a pure '
    'function by construction; the translator refuses (fallback) when match / make_grammar / _all_in / _range_in / the op_methods lambdas '
    'read a non-local name other than the modules, op_methods and each other, store into an attribute or subscript, declare global, or '
    'when the module contains anything but its imports, the four definitions and the table',
    'domain: cmp_value and spec are str (for an int cmp_value the numeric operators still work through float(int), '
    'the no-operator case compares str with int and is False, <in> raises TypeError, <all-in>/<range-in> raise ValueError '
    'from literal_eval: not modelled)',
    'values outside the literal_eval fragment are compared up to the point where literal_eval is called (model prints UNMODELLED)',
    'int literal digit limit (4300) not modelled; the fragment stops at 4000 characters',
]
RULE = ('all 17 operators x operand pairs (equal, adjacent floats, negative, same float spelled differently, exponent forms, '
        'inf/nan, non-numbers) x words over letters/digits/punctuation not starting with an operator (and a stream that does) x '
        '1..5 alternatives / list items x four bracket combinations with the value on, just inside and just outside both ends x '
        'whitespace runs of space/tab/newline/CR before, between and after; a malformed stream (glued operators, missing '
        'operands, other Unicode whitespace, random operator soup); literal_eval fragment strings; distinct = distinct case '
        'JSON; trivial = none.  Process-state independence: every prelude of tools/props/C18_state.py (split_by_commas succeeding / raising, '
        'earlier match() calls raising ValueError/TypeError/SyntaxError, a make_grammar() result mutated in place - parse actions, ignore, '
        'leaveWhitespace, whitespace chars, sub-elements, structure, fail action -, default whitespace narrowed and restored, packrat, other '
        'threads) x 16 boundary cases, plus random structured cases with line breaks / tabs (and FF / VT without a demanded meaning) between '
        'tokens, each observed before and after the prelude in one fresh fork of a pristine process')

warnings.filterwarnings('ignore')

def _sm():
    from oslo_utils import specs_matcher
    return specs_matcher

# ------------------------------------------------------------------ the documented table (from the docstring)

NUM_OPS = {'=': operator.ge, '==': operator.eq, '!=': operator.ne, '<': operator.lt, '<=': operator.le,
           '>': operator.gt, '>=': operator.ge}
STR_OPS = {'s==': operator.eq, 's!=': operator.ne, 's<': operator.lt, 's<=': operator.le, 's>': operator.gt,
           's>=': operator.ge}
OPS17 = list(NUM_OPS) + list(STR_OPS) + ['<in>', '<all-in>', '<or>', '<range-in>']
PP_WS = ' \t\n\r'

def starts_with_op(w):
    return any(w.startswith(o) for o in OPS17)

def clean_join(op, w):
    """gluing op and w does not spell a longer operator"""
    return not any((op + w).startswith(o) and len(o) > len(op) for o in OPS17)

# ------------------------------------------------------------------ generators

LETTERS = 'abcxyzABZ'
DIGITS = '0123456789'
PUNCT = '.,;:_-+*/%&|^~#@$?(){}[]\'"\\`'
OPCH = '<>=!s'
UNI = ['é', 'ß', '中', '́', '\U0001f600', '﻿']

def ws(rng, minimum=0):
    r = rng.random()
    if r < 0.45: n = max(minimum, 1)
    elif r < 0.6: n = minimum
    else: n = rng.randint(minimum, 4)
    return ''.join(rng.choice(' \t\n\r' if rng.random() < 0.4 else ' ') for _ in range(n))

def word(rng, allow_op_start=False):
    """a non-empty word without any Unicode whitespace"""
    r = rng.random()
    n = 1 if r < 0.2 else rng.randint(1, 8)
    while True:
        alpha = LETTERS + DIGITS + (PUNCT if rng.random() < 0.6 else '') + (OPCH if rng.random() < 0.4 else '')
        w = ''.join(rng.choice(alpha) for _ in range(n))
        if rng.random() < 0.08: w += rng.choice(UNI)
        if rng.random() < 0.08: w += rng.choice(OPS17)       # an operator inside / at the end of a word
        if allow_op_start or not starts_with_op(w):
            return w

NUMS = ['0', '1', '-1', '2', '10', '9', '1.0', '1.5', '-1.5', '0.1', '.1', '1.', '1e3', '1000', '1E3', '1e+3', '1000.0',
        '0.30000000000000004', '0.3', '1e-3', '0.001', '-0', '-0.0', '+5', '5', '05', '5.00', '1_000', '9007199254740993',
        '9007199254740992', '1e308', '1e309', '-1e309', 'inf', '-inf', 'nan', 'Infinity', 'NaN', '1e-400', '4.9e-324',
        '2.5e-324', '0.1e1', '60', '59.999999999999', '60.000000000001', '1e22', '1e23', '123456789012345678901234567890',
        '٣', '１２', '1.7976931348623157e308', '1.7976931348623159e308']
NOTNUM = ['', 'abc', '1,5', '1e', '0x10', '1__0', '_1', '--1', '1 2', 'in f', '1f', '1.2.3', 'e5', '+', '.', '１.٥x', '١٢x']

def number(rng):
    r = rng.random()
    if r < 0.55: return rng.choice(NUMS)
    if r < 0.7: return str(rng.randint(-1000, 1000))
    if r < 0.8: return repr(rng.uniform(-100, 100))
    if r < 0.88: return '%de%d' % (rng.randint(-99, 99), rng.randint(-330, 330))
    if r < 0.94: return '%d.%d' % (rng.randint(-9, 9), rng.randint(0, 999))
    return rng.choice(NOTNUM)

def near(rng, y):
    """a value text near the float of y: the same float spelled differently, or an adjacent float"""
    import math
    try:
        f = float(y)
    except ValueError:
        return number(rng)
    if math.isnan(f) or math.isinf(f): return rng.choice([y, '1e308', '-1e308', 'nan', 'inf', '-inf'])
    r = rng.random()
    if r < 0.3: return repr(f)
    if r < 0.4: return '%.20e' % f
    if r < 0.6: return repr(math.nextafter(f, math.inf))
    if r < 0.8: return repr(math.nextafter(f, -math.inf))
    if r < 0.9: return ' ' + repr(f) + ' '
    return y

def build_unary(rng, op, atom, glue_ok=True):
    w = ws(rng)
    if w == '' and not (glue_ok and clean_join(op, atom)):
        w = ' '
    return ws(rng) + op + w + atom

def trailing(rng):
    """(text, has_word): nothing, whitespace only, or whitespace and one more word (ignored by parseString)"""
    r = rng.random()
    if r < 0.55: return '', False
    if r < 0.8: return ws(rng, 1), False
    return ws(rng, 1) + word(rng, True) + ws(rng), True

def gen_structured(rng):
    r = rng.random()
    if r < 0.30:
        op = rng.choice(list(NUM_OPS))
        y = number(rng)
        while y == '' or starts_with_op(y) or any(c.isspace() for c in y):
            y = number(rng)
        x = near(rng, y) if rng.random() < 0.6 else number(rng)
        t, tw = trailing(rng)
        return {'op': 'match', 'value': x, 'spec': build_unary(rng, op, y) + t, 'd': {'k': 'num', 'opr': op, 'x': x, 'y': y, 'tail': tw}}
    if r < 0.50:
        op = rng.choice(list(STR_OPS))
        y = word(rng)
        q = rng.random()
        x = (y if q < 0.25 else y + rng.choice(LETTERS + '\x00 ') if q < 0.4 else y[:-1] if q < 0.5
             else y[:-1] + chr(max(0, ord(y[-1]) + rng.choice([-1, 1]))) if q < 0.7 else word(rng, True))
        t, tw = trailing(rng)
        return {'op': 'match', 'value': x, 'spec': build_unary(rng, op, y) + t, 'd': {'k': 'str', 'opr': op, 'x': x, 'y': y, 'tail': tw}}
    if r < 0.58:
        y = word(rng)
        q = rng.random()
        x = (word(rng, True) + y + word(rng, True) if q < 0.4 else y if q < 0.5 else y[1:] + y[:1] if q < 0.6
             else word(rng, True) + ' ' + y[:-1] if q < 0.8 else word(rng, True))
        t, tw = trailing(rng)
        return {'op': 'match', 'value': x, 'spec': build_unary(rng, '<in>', y) + t, 'd': {'k': 'in', 'x': x, 'y': y, 'tail': tw}}
    if r < 0.70:
        n = rng.randint(1, 5)
        alts = [word(rng) for _ in range(n)]
        spec = ws(rng)
        for i, a in enumerate(alts):
            w = ws(rng)
            if w == '' and not clean_join('<or>', a): w = ' '
            spec += (ws(rng, 1) if i else '') + '<or>' + w + a
        q = rng.random()
        x = rng.choice(alts) if q < 0.5 else rng.choice(alts) + 'x' if q < 0.6 else '<or>' if q < 0.65 else word(rng, True)
        t = rng.random()
        spec += '' if t < 0.6 else ws(rng, 1) if t < 0.8 else ws(rng, 1) + word(rng) + ws(rng)
        return {'op': 'match', 'value': x, 'spec': spec, 'd': {'k': 'or', 'x': x, 'alts': alts, 'tail': t >= 0.8}}
    if r < 0.82:
        n = rng.randint(1, 5)
        atoms = [word(rng) for _ in range(n)]
        items = []
        for a in atoms:
            if rng.random() < 0.8: items.append(a)
        for _ in range(rng.randint(0, 3)): items.append(word(rng, True))
        rng.shuffle(items)
        if rng.random() < 0.15 and items: items.pop(rng.randrange(len(items)))
        value = render_list(rng, items)
        spec = ws(rng) + '<all-in>'
        for i, a in enumerate(atoms):
            w = ws(rng, 1 if i else 0)
            if w == '' and not clean_join('<all-in>', a): w = ' '
            spec += w + a
        spec += ws(rng) if rng.random() < 0.3 else ''
        if value is None:
            return gen_structured(rng)
        return {'op': 'match', 'value': value, 'spec': spec, 'd': {'k': 'all_in', 'items': items, 'atoms': atoms, 'tail': False}}
    if r < 0.94:
        lo, hi = sorted([rng.choice([0, 1, 10, 20, -5, 2.5, 1e3, 0.1, 1e-3, -0.0]) for _ in range(2)])
        if rng.random() < 0.1: lo, hi = hi, lo
        if rng.random() < 0.1: hi = lo
        import math
        lb, rb = rng.choice('[('), rng.choice('])')
        q = rng.random()
        end = lo if q < 0.5 else hi
        xv = (end if q2_on(rng) else math.nextafter(end, math.inf) if rng.random() < 0.5 else math.nextafter(end, -math.inf)) \
            if rng.random() < 0.75 else rng.choice([(lo + hi) / 2, lo - 1, hi + 1, 1e308, -1e308])
        def num_text(v):
            if float(v) == int(v) and abs(v) < 1e15 and rng.random() < 0.6 and not (v == 0 and math.copysign(1, v) < 0):
                return str(int(v))
            return repr(float(v)) if rng.random() < 0.8 else '%.17e' % float(v)
        x = num_text(xv)
        if rng.random() < 0.1: x = "'%s'" % x
        if rng.random() < 0.1: x = ' ' + x + ' '
        los, his = num_text(lo), num_text(hi)
        t, tw = trailing(rng)
        spec = ws(rng) + '<range-in>' + ws(rng) + lb + ws(rng, 1) + los + ws(rng, 1) + his + ws(rng, 1) + rb + t
        return {'op': 'match', 'value': x, 'spec': spec, 'd': {'k': 'range', 'x': x, 'lb': lb, 'lo': los, 'hi': his, 'rb': rb, 'tail': tw}}
    # no operator
    y = word(rng)
    q = rng.random()
    x = y if q < 0.5 else y + rng.choice(['', ' ', 'x']) if q < 0.7 else word(rng, True)
    t = rng.random()
    spec = ws(rng) + y + ('' if t < 0.5 else ws(rng, 1) if t < 0.75 else ws(rng, 1) + word(rng, True) + ws(rng))
    return {'op': 'match', 'value': x, 'spec': spec, 'd': {'k': 'eq', 'x': x, 'y': y, 'tail': t >= 0.75}}

def q2_on(rng):
    return rng.random() < 0.4

def render_list(rng, items):
    """a list-of-strings literal inside the literal_eval fragment (None when an item cannot be quoted simply)"""
    parts = []
    for it in items:
        qs = [q for q in '\'"' if q not in it]
        if not qs or '\\' in it or not LEV_STR_OK(it): return None
        q = rng.choice(qs)
        parts.append(q + it + q)
    sep = rng.choice([', ', ',', ' , ', ',\t'])
    inner = sep.join(parts)
    if parts and rng.random() < 0.1: inner += ','
    return rng.choice(['', ' ']) + '[' + rng.choice(['', ' ']) + inner + rng.choice(['', ' ']) + ']' + rng.choice(['', ' ', '\t'])

def LEV_STR_OK(s):
    return all((32 <= ord(c) <= 126) or (0xa0 <= ord(c) < 0xd800) or (0xe000 <= ord(c)) for c in s)

MALFORMED = ['', ' ', '\t', '<in>', '<or>', '<all-in>', '<range-in>', '=', '==', '===', '=== 5', '= =', '== =5', '<or><or>',
             '<or> a<or> b', '<or> a <or>', '<or> a <or> <or> b', '<or> a b <or> c', '<or>a', '<all-in>a', '<range-in>[ 1 2 ]',
             '<range-in> [10 20]', '<range-in> [ 10 20', '<range-in> [ 10 20 ] extra', '<range-in> [ 20 10 ]', '<range-in> { 1 2 }',
             '<range-in> [ 1 2 }', '<range-in> [ a 2 ]', '<range-in> [ 1 b ]', '<range-in> ( 1 2 ) )', '<in>x', '< in>x', '<in >x',
             's==x', 's ==x', 's== x y', 's=', 's', 's<', 's<=', 's<>', '<> 5', '>= 5 6', '>=5', '> =5', '>== 5', '>=< 5', '<=> 5',
             '!= != 5', '! 5', '!5', 'a\x0bb', '\x0ba', '\xa0x', 'x\xa0y', 'x y', '<all-in> a\x0bb c', '<all-in> a \x0b b',
             '>= \x0c5', '>=\xa05', '<all-in> a <or> b', '<all-in> <in>', '<or> x <all-in> y', '<or> <all-in>', 'abc def',
             ' abc', 'abc ', '\nabc\n', '<all-in> a a a', '<in> ', '<in> <in>', '<<in> x', '<<', '<= <x', '< <=', 's>= s>=',
             '<all-in>\ta\tb', '<or>\ta\t<or>\tb', '<range-in>\t[\t1\t2\t]', '\t>=\t5', 'a\tb', '<range-in> ( 1 2 ]x']
MAL_VALUES = ['', 'a', 'abc', '5', '1', '1.5', 'x', 'b', '<or>', '[', "['a', 'b']", '[]', "['a']", '["a", "a"]', '[1, 2]', "'a'", 'None',
              "('a',)", '{}', "['a',", 'a b', '1e400', "'5'", '10', '20', '15', 'True', '1+2j', '- 5', '[[1]]', "b'5'", '0x10', '1_0',
              '5 ', ' 5', '\n5', '5\n', "'nan'", '[5', '５', "['a' 'b']", "[u'a']", "'''a'''", '["\\n"]', '12345678901234567890' * 20,
              '1' * 400]

def soup(rng):
    parts = []
    for _ in range(rng.randint(1, 6)):
        r = rng.random()
        if r < 0.4: parts.append(rng.choice(OPS17))
        elif r < 0.5: parts.append(rng.choice(OPCH + '[]()'))
        elif r < 0.8: parts.append(word(rng, True))
        else: parts.append(number(rng))
        r = rng.random()
        parts.append('' if r < 0.35 else rng.choice([' ', '  ', '\t', '\n', '\r', '\x0b', '\x0c', '\xa0', ' ', '\x1f', '\x85']) if r < 0.5 else ' ')
    return ''.join(parts)

LEV_SAMPLES = ['5', '-5', '+5', '0', '00', '01', '-0', '-0.0', '1.', '.5', '1e5', '1E-5', '1.5e+3', '1e', '1e+', '.', '.e5', '1.e5', '09.5',
               '1e400', '-1e400', '1_0', '0x10', '0o7', '1j', '5a', '5 6', ' 5', '5 ', '\t5\t', '\n5', '5\n', "'a'", '"a"', "'a\"b'", '"it\'s"',
               "''", "'a''b'", "'a' 'b'", "'''a'''", "'a\\n'", "'é中'", "'퟿'", "''", "'\x7f'", "'\x80'", "'\x9f'", "'\xa0'", "'a\tb'",
               '[]', '[ ]', '[1]', '[1,]', '[1,,]', '[,]', '[1 2]', "['a', 'b']", "['a','b',]", '["a", 1, 2.5, -3]', '[[1]]', "['a'", "['a']]",
               "[ 'a' ,\t'b' ]", '[1]x', 'None', 'True', '(1,)', '{}', "b'a'", "u'a'", '--5', '- 5', '1+2', '12345678901234567890123',
               ' ' * 3999 + '5', ' ' * 4000 + '5', '9' * 300, "'" + 'a' * 3998 + "'", "'" + 'a' * 3999 + "'", 'inf', 'nan', '１', "'\U0010ffff'", '']

def gen_lev(rng):
    r = rng.random()
    if r < 0.3: return rng.choice(LEV_SAMPLES)
    if r < 0.5: return number(rng)
    if r < 0.8:
        items = [rng.choice([word(rng, True), number(rng), number(rng)]) for _ in range(rng.randint(0, 4))]
        parts = []
        for it in items:
            q = rng.random()
            parts.append("'%s'" % it if q < 0.4 else '"%s"' % it if q < 0.7 else it)
        return rng.choice(['', ' ']) + '[' + rng.choice([', ', ',', ' ,\t']).join(parts) + rng.choice(['', ',', ' ']) + ']' + rng.choice(['', ' '])
    w = word(rng, True)
    return rng.choice(["'%s'", '"%s"', '%s', " '%s' "]) % w

STATE_BOUNDARY = [
    ('5', '>=\n3', {'k': 'num', 'opr': '>=', 'x': '5', 'y': '3', 'tail': False}),
    ('5', '>=\r\n3\n', {'k': 'num', 'opr': '>=', 'x': '5', 'y': '3', 'tail': False}),
    ('2', '\t<\t3', {'k': 'num', 'opr': '<', 'x': '2', 'y': '3', 'tail': False}),
    ('15', '<range-in>\n[\r10\n20\r\n]', {'k': 'range', 'x': '15', 'lb': '[', 'lo': '10', 'hi': '20', 'rb': ']', 'tail': False}),
    ('10', '<range-in> ( 10 20 ]', {'k': 'range', 'x': '10', 'lb': '(', 'lo': '10', 'hi': '20', 'rb': ']', 'tail': False}),
    ('ABC', 's== ABC', {'k': 'str', 'opr': 's==', 'x': 'ABC', 'y': 'ABC', 'tail': False}),
    ('abc', 'ABC', {'k': 'eq', 'x': 'abc', 'y': 'ABC', 'tail': False}),
    ('b', '<or> a\n<or>\tb', {'k': 'or', 'x': 'b', 'alts': ['a', 'b'], 'tail': False}),
    ("['a', 'B']", '<all-in>\na\rB', {'k': 'all_in', 'items': ['a', 'B'], 'atoms': ['a', 'B'], 'tail': False}),
    ('xGCCy', '<in> GCC', {'k': 'in', 'x': 'xGCCy', 'y': 'GCC', 'tail': False}),
    ('7', 's== 7', {'k': 'str', 'opr': 's==', 'x': '7', 'y': '7', 'tail': False}),
    ('5', '>=\x0c3', None), ('5', '>=\x0b3', None), ('a', 'a\x0cb', None), ('abc', '=== 5', None), ('x', '', None),
]

def with_breaks(rng, c):
    """the same structured case with the blanks between its tokens turned into line breaks / tabs (what the
    documented grammar skips), or - without a demanded meaning - into form feeds / vertical tabs"""
    spec = c['spec']
    if rng.random() < 0.8:
        spec2 = ''.join(rng.choice('\n\r\t') if ch == ' ' and rng.random() < 0.7 else ch for ch in spec)
        return dict(c, spec=spec2)
    spec2 = ''.join(rng.choice('\x0c\x0b') if ch == ' ' and rng.random() < 0.5 else ch for ch in spec)
    c2 = dict(c, spec=spec2)
    if spec2 != spec: c2.pop('d', None)
    return c2

def gen_state_cases(rng, tier):
    names = C18_state.PRELUDE_NAMES
    for pre in names:
        for v, s, d in STATE_BOUNDARY:
            c = {'op': 'state', 'value': v, 'spec': s, 'prelude': pre}
            if d: c['d'] = d
            _PENDING.append(c); yield c
    n = 700 if tier == 'quick' else 30000
    for _ in range(n):
        r = rng.random()
        if r < 0.75:
            c = gen_structured(rng)
            if rng.random() < 0.6: c = with_breaks(rng, c)
        else:
            sp = soup(rng) if rng.random() < 0.7 else rng.choice(MALFORMED)
            toks = sp.split()
            c = {'op': 'match', 'value': rng.choice(MAL_VALUES + (toks[-1:] if toks else [])), 'spec': sp}
        c = dict(c, op='state', prelude=rng.choice(names))
        if rng.random() < 0.1: c['thread'] = True      # the second observation is made in a new thread
        _PENDING.append(c); yield c

def gen_cases(rng, tier):
    yield from gen_state_cases(rng, tier)
    # boundary cases first
    for s in MALFORMED:
        for v in ['', 'a', '5', 'abc', "['a', 'b']", s, s.strip(), s.split()[-1] if s.split() else '']:
            yield {'op': 'match', 'value': v, 'spec': s}
    for v in LEV_SAMPLES:
        yield {'op': 'lev', 'value': v}
    for v in MAL_VALUES:
        for s in ['<all-in> a', '<all-in> a b', '<range-in> [ 10 20 ]', '<range-in> ( 10 20 )', '>= 5', '<in> a', 's== 5', '<or> 5 <or> a', '5']:
            yield {'op': 'match', 'value': v, 'spec': s}
    for op in OPS17:          # every operator glued to / separated from every kind of operand
        for a in ['5', 'x', '=5', '<5', '=', 'in>', 'or>', 'all-in>', 'range-in>x', 's', 's==', '[', '1e3', '-1']:
            for w in ['', ' ', '\t ', '\n']:
                for v in ['5', a]:
                    yield {'op': 'match', 'value': v, 'spec': op + w + a}
    n = 6000 if tier == 'quick' else 150000
    for _ in range(n):
        r = rng.random()
        if r < 0.72: yield gen_structured(rng)
        elif r < 0.9:
            s = soup(rng) if rng.random() < 0.8 else rng.choice(MALFORMED)
            q = rng.random()
            toks = s.split()
            v = (rng.choice(MAL_VALUES) if q < 0.4 else toks[-1] if toks and q < 0.6 else toks[0] if toks and q < 0.7
                 else s if q < 0.8 else number(rng))
            yield {'op': 'match', 'value': v, 'spec': s}
        else:
            yield {'op': 'lev', 'value': gen_lev(rng)}

# ------------------------------------------------------------------ implementation side

def canon_tokens(toks):
    return '%d;' % len(toks) + ''.join('%d:%s' % (len(t), t) for t in toks)

_G = []
def tokens_of(spec):
    import pyparsing
    if not _G: _G.append(_sm().make_grammar())      # one grammar object for the token lists (match builds its own each call)
    try:
        t = _G[0].parseString(spec)
    except pyparsing.ParseException:
        return None
    l = t.asList() if hasattr(t, 'asList') else list(t)
    if not all(isinstance(x, str) for x in l):
        return ['NONSTR:' + repr(l)]
    return l

_WS = r'[ \t]*'
_NUM = r'[+-]?(?:(?:[0-9]+\.[0-9]*|\.[0-9]+)(?:[eE][+-]?[0-9]+)?|[0-9]+[eE][+-]?[0-9]+|0+|[1-9][0-9]*)'
_C = '\xa0-퟿-\U0010ffff'
_STR = "(?:'[ -&(-\\[\\]-~%s]*'|\"[ !#-\\[\\]-~%s]*\")" % (_C, _C)
_ITEM = '(?:%s|%s)' % (_NUM, _STR)
_LIST = r'\[%s(?:%s(?:%s,%s%s)*(?:%s,)?%s)?\]' % (_WS, _ITEM, _WS, _WS, _ITEM, _WS, _WS)
LEV_DOMAIN = re.compile('%s(?:%s|%s)%s' % (_WS, _ITEM, _LIST, _WS))

def in_lev_domain(v):
    return len(v) <= 4000 and LEV_DOMAIN.fullmatch(v) is not None

def canon_val(v):
    if isinstance(v, bool): return 'O'
    if isinstance(v, int): return 'I%d' % v
    if isinstance(v, float): return 'F' + v.hex()
    if isinstance(v, str): return 'S%d:%s' % (len(v), v)
    if isinstance(v, list): return 'L%d[' % len(v) + ''.join(canon_val(x) + ',' for x in v) + ']'
    return 'O'

_ZYG = []
def _zygote():
    if not _ZYG:
        z = C18_state.Zygote(os.environ.get('VERIF_REPO', '/repo'))
        _ZYG.append(z); atexit.register(z.close)
    return _ZYG[0]

def _state_req(c):
    return {'value': c['value'], 'spec': c['spec'], 'prelude': c['prelude'], 'thread': bool(c.get('thread')), 'timeout': 20}

def _state_out(res):
    if 'error' in res or 'after' not in res or 'base' not in res:
        return 'STATE-ERROR:%s' % res.get('error', 'incomplete answer')
    return res['after'] + C18_state.SEP + res['base']

# the state cases a generator has handed out are observed in one parallel batch (several zygotes) the first time
# one of them is asked for; every observation is still one fresh fork per case, so a single case (replay) gives the same answer
_PENDING, _CACHE = [], {}
def _key(c):
    import json
    return json.dumps(_state_req(c), sort_keys=True)

def _run_pending():
    import threading
    # a bounded chunk per call (the runner puts a time limit on every impl call); cases are asked for in generation order
    todo = [c for c in _PENDING[:600] if _key(c) not in _CACHE]
    del _PENDING[:600]
    if not todo: return
    k = max(1, min(int(os.environ.get('VERIF_JOBS', '8')), 8, len(todo) // 20 + 1))
    zs = [C18_state.Zygote(os.environ.get('VERIF_REPO', '/repo')) for _ in range(k)]
    def work(i):
        for c in todo[i::k]:
            try: _CACHE[_key(c)] = _state_out(zs[i].ask(_state_req(c)))
            except Exception as e: _CACHE[_key(c)] = 'STATE-ERROR:%s' % type(e).__name__; break
    ths = [threading.Thread(target=work, args=(i,)) for i in range(k)]
    [t.start() for t in ths]; [t.join() for t in ths]
    for z in zs: z.close()

def impl_state(c):
    k = _key(c)
    if k not in _CACHE and _PENDING: _run_pending()
    if k in _CACHE: return _CACHE.pop(k)
    try:
        return _state_out(_zygote().ask(_state_req(c)))
    except Exception as e:
        _ZYG.clear()
        return 'STATE-ERROR:%s' % type(e).__name__

def impl(c):
    if c['op'] == 'state': return impl_state(c)
    if c['op'] == 'lev':
        v = c['value']
        if not in_lev_domain(v): return 'UNMODELLED'
        try:
            return canon_val(ast.literal_eval(v))
        except Exception as e:
            return 'EXN:' + type(e).__name__
    sm = _sm()
    try:
        r = sm.match(c['value'], c['spec'])
        r = str(r) if r is True or r is False else 'NONBOOL:' + repr(r)
    except Exception as e:
        r = 'EXN:' + type(e).__name__
    t = tokens_of(c['spec'])
    return r + ' T:' + ('EXN:ParseException' if t is None else canon_tokens(t))

def encode(c):
    if c['op'] == 'lev': return ['lev', c['value']]
    return ['match', c['value'], c['spec']]

def decode(c, out):
    return out

def project(c, io):
    if c['op'] == 'lev': return io
    if c['op'] == 'state':
        if io.startswith('STATE-ERROR'): return io
        io = io.split(C18_state.SEP, 1)[0]
    r, t = io.split(' T:', 1)
    # the model stops at literal_eval for a value outside the modelled fragment
    m = re.match(r'\d+;\d+:(<all-in>|<range-in>)', t)
    if m and not t.startswith('1;') and not in_lev_domain(c['value']):
        r = 'EXN:UNMODELLED'
    return r + ' T:' + t

# ------------------------------------------------------------------ oracle: the documented meaning, from the description

def _f(s):
    try: return float(s)
    except ValueError: return None

def oracle(c, io):
    if c['op'] == 'state':
        if io.startswith('STATE-ERROR'):
            return 'no observation for %r / %r after prelude %s: %s' % (c['value'], c['spec'], c['prelude'], io)
        after, base = io.split(C18_state.SEP, 1)
        if after != base:
            return ('match depends on process state: match(%r, %r) observed as [%s] in a fresh process and as [%s] after prelude %r%s  {prelude = %s}'
                    % (c['value'], c['spec'], base, after, c['prelude'], ' (second observation in a new thread)' if c.get('thread') else '',
                       C18_state.describe(c['prelude'])))
        io = after
    elif c['op'] != 'match': return None
    d = c.get('d')
    if not d: return None
    res, toks = io.split(' T:', 1)
    k = d['k']
    want = None; want_t = None
    if d['tail']:
        # a further word after the documented form: parseString (without parseAll) ignores it (cf. O5);
        # the documentation says nothing about it, so nothing is demanded
        return None
    if k == 'num':
        want_t = [d['opr'], d['y']]
        fx, fy = _f(d['x']), _f(d['y'])
        if fx is not None and fy is not None: want = NUM_OPS[d['opr']](fx, fy)
    elif k == 'str':
        want_t = [d['opr'], d['y']]; want = STR_OPS[d['opr']](d['x'], d['y'])
    elif k == 'in':
        want_t = ['<in>', d['y']]; want = d['y'] in d['x']
    elif k == 'or':
        want_t = ['<or>'] + d['alts']; want = any(d['x'] == a for a in d['alts'])
    elif k == 'all_in':
        want_t = ['<all-in>'] + d['atoms']; want = all(a in d['items'] for a in d['atoms'])
    elif k == 'range':
        want_t = ['<range-in>', d['lb'], d['lo'], d['hi'], d['rb']]
        xs = d['x'].strip()
        if xs[:1] == "'": xs = xs[1:-1]
        fx, lo, hi = float(xs), float(d['lo']), float(d['hi'])
        if lo <= hi:
            want = (fx >= lo if d['lb'] == '[' else fx > lo) and (fx <= hi if d['rb'] == ']' else fx < hi)
    elif k == 'eq':
        want_t = [d['y']]
        want = d['x'] == d['y']
    # only the observable of the property (the result of match) is demanded; the token list is
    # reported with it as a diagnosis (it is tied to the model by the correspondence, not demanded here)
    if want is not None and res != str(want):
        note = '' if want_t is None or toks == canon_tokens(want_t) else ' [tokens %s, documented grammar %r]' % (toks, want_t)
        return 'match(%r, %r) = %s, documented meaning (%s) is %s%s' % (c['value'], c['spec'], res, k, want, note)
    return None

def classify(c, io):
    if c['op'] == 'state': return 'state:' + c['prelude']
    if c['op'] == 'lev': return 'lev:' + ('unmodelled' if io == 'UNMODELLED' else io[:1])
    d = c.get('d')
    r = io.split(' T:', 1)[0]
    return 'match:%s:%s' % (d['k'] + (':' + d['opr'] if 'opr' in d else '') if d else 'unstructured', r if r in ('True', 'False') else 'exn')

def search(rng, budget):
    for _ in range(budget):
        yield from gen_cases(rng, 'quick')

LEVEL_TEXT = ('Theorems for all inputs of the documented forms (any whitespace runs, any words, any number of alternatives / items by '
              'induction, all four bracket combinations): the token list of the grammar (operator + word with "longer operators win" as a '
              'decided property of the generated literal order; <or>, <all-in>, <range-in>; bare word), the result of match against the '
              'documented meaning for each of the 17 operators incl. exceptions, first-word equality without an operator (O5 explicit), '
              'totality of the dispatch for every spec (no KeyError/IndexError/arity error), tab expansion unobservable. Literals, orders, '
              'regex class, parse action, operator table and the _range_in tables are regenerated from the source on every run.')
LEVEL_NOTE = ('Trusted: Coq kernel; translator gen_C18.py; pyparsing modelled as a recursive-descent parser (tied by correspondence on token '
              'lists); CPython float()/comparisons as Base/PyFloat.v; ast.literal_eval arbitrary in the theorems (fragment model tied by '
              'correspondence). Closed under the global context (no axioms).')
