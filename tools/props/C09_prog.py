"""C09 — DSL of handler bodies, its compiler to real Python source, and the observer.

A body is a nested list (JSON-serialisable):
  ['noop'] | ['raise', c, k, l] | ['set', b] | ['seq', A, B] | ['try', A, H]
  | ['nested', r0, l, B] | ['force', l] | ['capture', l] | ['filter', p, l, B] | ['fcall', p, a, l]
c  exception class index (CLASSES); k  0 plain / 1 chained (raise .. from ..) / 2 object already carrying a traceback
l  label of the statement = identity of the exception created there / name of the frame entry for that line
p  predicate table index (PREDS); a  argument of the direct call: 0 current exception, 1 a new unraised object,
   2 None, 3 the exception being handled one level further out (or None)
"""
import sys, re, traceback

# ---------------------------------------------------------------- exception classes used by the programs
class PlainE(Exception):
    def __str__(self): return 's%d' % self.lab if hasattr(self, 'lab') else 'new'
class MandE(Exception):                       # cannot be instantiated without arguments
    def __init__(self, a, b): super().__init__(a, b)
    def __str__(self): return 's%d' % self.lab if hasattr(self, 'lab') else 'new'
class BaseE(BaseException):                   # KeyboardInterrupt-like: not an Exception
    def __str__(self): return 's%d' % self.lab if hasattr(self, 'lab') else 'new'
class BaseMandE(BaseException):
    def __init__(self, a): super().__init__(a)
    def __str__(self): return 's%d' % self.lab if hasattr(self, 'lab') else 'new'
class SubE(PlainE):                           # subclass with its own state
    def __init__(self, *a): super().__init__(*a); self.extra = 1
class OSErrE(OSError):
    def __str__(self): return 's%d' % self.lab if hasattr(self, 'lab') else 'new'

# classes whose INSTANCES are false in a boolean context: truthiness must play no role in the helpers
class FalsyE(Exception):                      # aggregate-error style: __len__ -> 0
    def __len__(self): return 0
    def __str__(self): return 's%d' % self.lab if hasattr(self, 'lab') else 'new'
class FalsyMandE(Exception):
    def __init__(self, a, b): super().__init__(a, b)
    def __bool__(self): return False
    def __str__(self): return 's%d' % self.lab if hasattr(self, 'lab') else 'new'
class FalsyBaseE(BaseException):
    def __len__(self): return 0
    def __str__(self): return 's%d' % self.lab if hasattr(self, 'lab') else 'new'
class FalsyBaseMandE(BaseException):
    def __init__(self, a): super().__init__(a)
    def __bool__(self): return False
    def __str__(self): return 's%d' % self.lab if hasattr(self, 'lab') else 'new'

CLASSES = [PlainE, MandE, BaseE, BaseMandE, SubE, OSErrE, FalsyE, FalsyMandE, FalsyBaseE, FalsyBaseMandE]
# (ctor0, is_exception) per class: what the model is told about a class
CLASS_INFO = [(1, 1, 1), (0, 1, 1), (1, 0, 1), (0, 0, 1), (1, 1, 1), (1, 1, 1), (1, 1, 0), (0, 1, 0), (1, 0, 0), (0, 0, 0)]
CLASS_ARGS = [(), (1, 2), (), (7,), (), (), (), (1, 2), (), (7,)]

# predicate tables: verdict per class index: 0 falsy, 1 truthy, 2 raises (class PlainE, label = 1000+l of the filter)
PREDS = [
    [0, 0, 0, 0, 0, 0, 0, 0, 0, 0],
    [1, 1, 1, 1, 1, 1, 1, 1, 1, 1],
    [1, 0, 0, 1, 0, 1, 1, 0, 1, 0],
    [0, 1, 1, 0, 1, 0, 0, 1, 0, 1],
    [2, 2, 2, 2, 2, 2, 2, 2, 2, 2],
    [1, 0, 2, 0, 1, 2, 0, 1, 2, 1],
]
PRED_NONE = [0, 1, 0, 1, 2, 0]    # verdict when the predicate is handed None / a non-table object
TRUTHY = [True, 1, 'x', [0], (None,), 2.5]
FALSY = [False, 0, '', [], None, 0.0]

# ---------------------------------------------------------------- compiler

class Compiled:
    def __init__(self):
        self.lines = []; self.lab = {}          # line number -> label
    def emit(self, ind, text, label=None):
        self.lines.append('    ' * ind + text)
        if label is not None: self.lab[len(self.lines)] = label

def comp_body(C, b, ind, ctx, nctx):
    """ctx: name of the innermost save_and_reraise_exception variable"""
    t = b[0]
    if t == 'noop': C.emit(ind, 'pass')
    elif t == 'raise':
        _, c, k, l = b
        if k == 0: C.emit(ind, 'raise mk(%d, %d)' % (c, l), l)
        elif k == 1: C.emit(ind, 'raise mk(%d, %d) from mk(0, %d)' % (c, l, -l), l)
        else: C.emit(ind, 'raise pre(mk(%d, %d))' % (c, l), l)
    elif t == 'set': C.emit(ind, '%s.reraise = %s' % (ctx, bool(b[1])))
    elif t == 'seq':
        comp_body(C, b[1], ind, ctx, nctx); comp_body(C, b[2], ind, ctx, nctx)
    elif t == 'try':
        C.emit(ind, 'try:'); comp_body(C, b[1], ind + 1, ctx, nctx)
        C.emit(ind, 'except BaseException:'); comp_body(C, b[2], ind + 1, ctx, nctx)
    elif t == 'nested':
        _, r0, l, B = b
        v = 'ctx%d' % l
        C.emit(ind, 'with SARE(reraise=%s, logger=LG(%d)) as %s:' % (bool(r0), l, v), l)
        comp_body(C, B, ind + 1, v, nctx)
    elif t == 'force': C.emit(ind, '%s.force_reraise()' % ctx, b[1])
    elif t == 'capture': C.emit(ind, '%s.capture()' % ctx, b[1])
    elif t == 'filter':
        _, p, l, B = b
        C.emit(ind, 'with FILT(%d, %d):' % (p, l), l)
        comp_body(C, B, ind + 1, ctx, nctx)
    elif t == 'fcall':
        _, p, a, l = b
        C.emit(ind, 'FILT(%d, %d)(ARG(%d, %d))' % (p, l, a, l), l)
    elif t == 'withctx':
        # entering the SAME context object again
        C.emit(ind, 'with %s:' % ctx, b[1])
        comp_body(C, b[2], ind + 1, ctx, nctx)
    elif t == 'tamper':
        C.emit(ind, 'TAMPER()')
    else:
        raise ValueError('bad body %r' % (b,))

def compile_case(c):
    """returns (source, {line: label}).  Labels: 1 = call site of raise_orig, 2 = the outermost with /
    call / capture; 3 = the final force_reraise of the direct protocol; body labels >= 10; the original
    exception has label 0."""
    C = Compiled()
    op = c['op']
    C.emit(0, 'def prog():')
    oc, ok = c.get('oc', 0), c.get('ok', 0)
    def orig(ind):
        C.emit(ind, 'raise_orig(%d, %d)' % (oc, ok), 1)
    if op == 'sare':
        mode = c['mode']
        if mode == 'reuse':
            # one context object shared by several handlers: c['pre'] uses it first (with blocks / capture() under
            # other exceptions), then it is entered under the original exception
            C.emit(1, 'ctx = SARE(reraise=%s, logger=LG(2))' % bool(c['r0']))
            comp_body(C, c['pre'], 1, 'ctx', 0)
            C.emit(1, 'try:'); orig(2)
            C.emit(1, 'except BaseException:')
            C.emit(2, 'with ctx:', 2)
            C.emit(3, 'TOP(ctx)')
            C.emit(3, 'try:')
            comp_body(C, c['body'], 4, 'ctx', 0); C.emit(4, 'DONE()')
            C.emit(3, 'except BaseException as _e:'); C.emit(4, 'BODYEXC(_e)'); C.emit(4, 'raise')
        elif mode == 'noactive':
            C.emit(1, 'with SARE(reraise=%s, logger=LG(2)) as ctx:' % bool(c['r0']), 2)
            C.emit(2, 'TOP(ctx)')
            C.emit(2, 'try:')
            comp_body(C, c['body'], 3, 'ctx', 0); C.emit(3, 'DONE()')
            C.emit(2, 'except BaseException as _e:'); C.emit(3, 'BODYEXC(_e)'); C.emit(3, 'raise')
        else:
            C.emit(1, 'try:'); orig(2)
            C.emit(1, 'except BaseException:')
            if mode == 'with':
                C.emit(2, 'with SARE(reraise=%s, logger=LG(2)) as ctx:' % bool(c['r0']), 2)
                C.emit(3, 'TOP(ctx)')
                C.emit(3, 'try:')
                comp_body(C, c['body'], 4, 'ctx', 0); C.emit(4, 'DONE()')
                C.emit(3, 'except BaseException as _e:'); C.emit(4, 'BODYEXC(_e)'); C.emit(4, 'raise')
            elif mode == 'direct':
                C.emit(2, 'ctx = SARE(reraise=%s, logger=LG(2))' % bool(c['r0']))
                C.emit(2, 'TOP(ctx)')
                C.emit(2, 'ctx.capture()', 2)
                C.emit(2, 'CAPT()')
                comp_body(C, c['body'], 2, 'ctx', 0); C.emit(2, 'DONE()')
                C.emit(2, 'ctx.force_reraise()', 3)
            elif mode == 'post':
                # the context object is used in a with statement and then AGAIN afterwards:
                # post 1: ctx.force_reraise()     post 2: ctx.capture(); ctx.force_reraise()
                C.emit(2, 'ctx = SARE(reraise=%s, logger=LG(2))' % bool(c['r0']))
                C.emit(2, 'try:')
                C.emit(3, 'with ctx:', 2)
                C.emit(4, 'TOP(ctx)')
                C.emit(4, 'try:')
                comp_body(C, c['body'], 5, 'ctx', 0); C.emit(5, 'DONE()')
                C.emit(4, 'except BaseException as _e:'); C.emit(5, 'BODYEXC(_e)'); C.emit(5, 'raise')
                C.emit(2, 'except BaseException as _w:'); C.emit(3, 'WITHEXC(_w)')
                C.emit(2, 'WITHDONE()')
                if c['post'] == 2:
                    C.emit(2, 'ctx.capture()', 4); C.emit(2, 'CAPT()')
                C.emit(2, 'ctx.force_reraise()', 3)
            else: raise ValueError(mode)
    elif op == 'filter':
        # use of the filter: 0 plain instance, 1 decorator-made, 2 bound method
        C.emit(1, 'with FILTU(%d, 2, %d, %d):' % (c['p'], c['use'], c.get('p2', 0)), 2)
        C.emit(2, 'ctx = None')
        C.emit(2, 'try:')
        comp_body(C, c['body'], 3, 'ctx', 0); C.emit(3, 'DONE()')
        C.emit(2, 'except BaseException as _e:'); C.emit(3, 'BODYEXC(_e)'); C.emit(3, 'raise')
    elif op == 'call':
        if c['active']:
            C.emit(1, 'try:'); orig(2)
            C.emit(1, 'except BaseException:')
            C.emit(2, 'FILTU(%d, 2, %d, %d)(ARG(%d, 2, %d))' % (c['p'], c['use'], c.get('p2', 0), c['a'], c.get('sc', 2)), 2)
        else:
            C.emit(1, 'FILTU(%d, 2, %d, %d)(ARG(%d, 2, %d))' % (c['p'], c['use'], c.get('p2', 0), c['a'], c.get('sc', 2)), 2)
    elif op == 'rpoe':
        C.emit(1, 'with RPOE(%d):' % c['rm'], 2)
        C.emit(2, 'ctx = None')
        C.emit(2, 'try:')
        comp_body(C, c['body'], 3, 'ctx', 0); C.emit(3, 'DONE()')
        C.emit(2, 'except BaseException as _e:'); C.emit(3, 'BODYEXC(_e)'); C.emit(3, 'raise')
    elif op == 'cause':
        # raise_with_cause(cls, msg [, cause=...]) with / without an active exception
        call = 'RWC(%d, %d)' % (c['cc'], c['given'])
        if c['active']:
            C.emit(1, 'try:'); orig(2)
            C.emit(1, 'except BaseException:'); C.emit(2, call, 2)
        else:
            C.emit(1, call, 2)
    else:
        raise ValueError(op)
    return '\n'.join(C.lines) + '\n', C.lab

# ---------------------------------------------------------------- running a compiled program

class FakeLogger:
    def __init__(self, lab, sink): self.lab = lab; self.sink = sink
    def error(self, *a, **kw): self.sink.append((self.lab, a))
    warning = info = debug = exception = critical = error

_FILE_RE = re.compile(r'File "([^"]*)", line (\d+), in (\S+)')

class Run:
    """executes one case against the real helpers and records what the property talks about"""
    def __init__(self, case, excutils, fileutils):
        self.case = case; self.ex = excutils; self.fu = fileutils
        self.src, self.linelab = compile_case(case)
        self.reg = {}            # id(obj) -> label   (objects the PROGRAM created; kept alive in self.keep)
        self.keep = []
        self.logs = []
        self.pred_seen = []      # (filter label, object handed to the predicate)
        self.completed = False; self.body_exc = None; self.top = None
        self.removed = []; self.fname = '<C09prog>'
        self.cause_info = None; self.orig = None; self.path = None; self.path_exists = None
        self.captured = False; self.logs_at_top = 0; self.with_exc = None; self.with_finished = False; self.with_tb_ok = None; self.with_logs = 0
        self.entry_exc = None; self.entry_tb = None; self.args_seen = []; self.given = None

    # helpers visible to the program
    def mk(self, c, l):
        e = CLASSES[c](*CLASS_ARGS[c]); e.lab = l
        self.reg[id(e)] = l; self.keep.append(e)
        return e
    def pre(self, e):
        try: raise e
        except BaseException: pass
        return e
    def raise_orig(self, c, k):
        e = self.orig = self.mk(c, 0)
        if k == 0: raise e
        if k == 1: raise e from self.mk(0, -1000)
        raise self.pre(e)
    def predicate(self, p, l):
        run = self
        def pred(ex):
            run.pred_seen.append((l, ex))
            v = PREDS[p][CLASSES.index(type(ex))] if type(ex) in CLASSES else PRED_NONE[p]
            if v == 2: raise run.mk(0, 1000 + l)
            return (TRUTHY if v else FALSY)[(l + p) % 6]
        return pred
    def tamper(self):
        e = sys.exc_info()[1]
        if e is not None: e.__traceback__ = None
    def filt(self, p, l, use=0, p2=0):
        pred = self.predicate(p, l)
        EF = self.ex.exception_filter
        run = self
        if use == 0: return EF(pred)
        if use == 1:
            @EF
            def decorated(ex): return pred(ex)
            return decorated
        if use == 4: return EF(EF(pred))                 # function filter of a function filter
        if use == 5:                                     # stacked decorators
            @EF
            @EF
            def decorated(ex): return pred(ex)
            return decorated
        if use == 6:                                     # bound method of a doubly decorated method
            class Holder2:
                def __init__(self_, p): self_.p = p
                @EF
                @EF
                def meth(self_, ex): return run.predicate(self_.p, l)(ex)
            return Holder2(p).meth
        if use in (7, 8):
            class Obj:                                   # a callable WITHOUT __name__ / __qualname__ ...
                def __call__(self_, ex):
                    run.pred_seen.append((l, ex))
                    v = PREDS[p][CLASSES.index(type(ex))] if type(ex) in CLASSES else PRED_NONE[p]
                    if v == 2: raise run.mk(0, 1000 + l)
                    return (TRUTHY if v else FALSY)[(l + p) % 6]
            return EF(EF(Obj())) if use == 7 else EF(Obj())
        class Holder:
            # the predicate depends on the INSTANCE's state
            def __init__(self_, p): self_.p = p
            @self.ex.exception_filter
            def meth(self_, ex): return run.predicate(self_.p, l)(ex)
        if use == 3:
            # another instance of the same class, with different state, is bound and used first
            first = Holder(p2)
            with first.meth:
                pass
            second = Holder(p)
            f = second.meth
            with first.meth:
                pass
            return f
        return Holder(p).meth
    def arg(self, a, l, sc=None):
        r = self._arg(a, l, sc)
        cur = sys.exc_info()[1]
        self.args_seen.append((l, r, cur, self.raw_frames(cur.__traceback__) if cur is not None else None,
                               self.raw_frames(r.__traceback__) if isinstance(r, BaseException) else None))
        return r
    def _arg(self, a, l, sc=None):
        cur = sys.exc_info()[1]
        if a == 4:    # a stored exception: raised and caught elsewhere, so it already carries a traceback
            return self.pre(self.mk((l % len(CLASSES)) if sc is None else sc, 2000 + l))
        if a == 0: return cur
        if a == 1: return self.mk(0, 2000 + l)
        if a == 2: return None
        if a == 3: return self.orig
        raise ValueError(a)
    def rpoe(self, rm):
        import tempfile, os
        if rm == 0:     # the default remover on a real file
            d = os.path.join(os.path.dirname(os.path.abspath(__file__)), '..', '..', 'build')
            os.makedirs(d, exist_ok=True)
            fd, path = tempfile.mkstemp(prefix='C09path', dir=d); os.close(fd)
            self.path = path
            return self.fu.remove_path_on_error(path)
        self.path = 'C09-no-such-path'
        def remover(path):
            self.removed.append(path)
            if rm == 2: raise self.mk(0, 3000)
            if rm == 3: raise self.mk(2, 3000)
            if rm >= 4:
                import errno
                e = OSError({4: errno.ENOTEMPTY, 5: errno.EACCES, 6: errno.ENOENT}[rm], 'remover failed')
                self.reg[id(e)] = 3000; self.keep.append(e)
                raise e
        return self.fu.remove_path_on_error(self.path, remove=remover)
    def rwc(self, cc, given):
        cls = [self.ex.CausedByException, CausedSub][cc]
        if given == 0: self.ex.raise_with_cause(cls, 'm')
        elif given == 1:
            g = self.mk(0, 4000); self.given = g
            self.ex.raise_with_cause(cls, 'm', cause=g)
        else: self.ex.raise_with_cause(cls, 'm', cause=None)

    def set_top(self, ctx):
        self.top = ctx
        self.logs_at_top = len(self.logs)
        cur = sys.exc_info()[1]
        self.entry_exc = cur
        self.entry_tb = self.raw_frames(cur.__traceback__) if cur is not None else None
    def with_done(self):
        # the with statement is over (what it raised, if anything, was caught): record what the property says about it
        self.with_finished = True
        w = self.with_exc
        fin = self.raw_frames(w.__traceback__) if w is not None else None
        e = self.entry_tb
        self.with_tb_ok = (e is not None and fin is not None and len(e) <= len(fin) and fin[len(fin) - len(e):] == e)
        self.with_logs = sum(1 for l, a in self.logs[self.logs_at_top:] if l == 2)
    def raw_frames(self, tb):
        out = []
        while tb is not None:
            co = tb.tb_frame.f_code
            out.append((co.co_filename, tb.tb_lineno, co.co_name))
            tb = tb.tb_next
        return out
    def nremoved(self):
        if self.case['op'] != 'rpoe': return 0
        if self.case['rm'] == 0: return 0 if self.path_exists else 1
        return len(self.removed)
    def describe(self, e):
        if e is None: return 'None'
        l = self.reg.get(id(e))
        return ('s%d' % l if l is not None else 'new') + ':' + class_tag(self.ex, type(e))
    def frames(self, tb):
        out = []
        while tb is not None:
            co = tb.tb_frame.f_code
            n = self.frame_name(co.co_filename, tb.tb_lineno, co.co_name)
            if n != 'h:rwc': out.append(n)
            tb = tb.tb_next
        return out
    def frame_name(self, filename, lineno, name):
        if filename == self.fname:
            return 'p%s' % self.linelab.get(lineno, '?%d' % lineno)
        base = filename.replace('\\', '/').rsplit('/', 1)[-1]
        if base == 'excutils.py':
            return excutils_frame(self.ex, lineno)
        if base == 'C09_prog.py':
            return {'raise_orig': 'orig', 'pre': 'pre', 'pred': 'pred', 'decorated': 'deco', 'meth': 'meth',
                    'remover': 'remover', '__call__': 'pred'}.get(name, 'h:' + name)
        if base == 'fileutils.py': return 'rpoe' if name == 'remove_path_on_error' else 'fu:' + name
        if base == 'contextlib.py': return 'clexit' if name == '__exit__' else 'cl:' + name
        return '?:%s:%s' % (base, name)
    def log_entry(self, lab, a):
        # a = (fmt, formatted list) as handed to logger.error
        lst = a[1] if len(a) > 1 and isinstance(a[1], list) else []
        # format_exception prints the __cause__/__context__ chain first; the section of the logged exception itself is
        # what follows the LAST chain separator (it has no 'Traceback' header at all when it was given no traceback)
        start = 0
        for i, s in enumerate(lst):
            if 'During handling of the above exception' in s or 'direct cause of the following exception' in s: start = i + 1
        part = lst[start:]
        fr = []
        for s in part:
            for m in _FILE_RE.finditer(s):
                fr.append(self.frame_name(m.group(1), int(m.group(2)), m.group(3)))
        last = part[-1].strip() if part else ''
        who = last.rsplit(': ', 1)[-1] if ': ' in last else last
        if not re.fullmatch(r's-?\d+', who): who = 'none' if last.startswith('NoneType') else 'new'
        return 'L%d=%s[%s]' % (lab, who, ','.join(fr))

    def execute(self):
        run = self
        g = {'mk': self.mk, 'pre': self.pre, 'raise_orig': self.raise_orig,
             'SARE': self.ex.save_and_reraise_exception, 'LG': lambda l: FakeLogger(l, self.logs),
             'FILT': lambda p, l: self.filt(p, l), 'FILTU': lambda p, l, u, p2=0: self.filt(p, l, u, p2), 'TAMPER': self.tamper,
             'ARG': self.arg, 'RPOE': self.rpoe, 'RWC': self.rwc,
             'TOP': self.set_top,
             'DONE': lambda: setattr(run, 'completed', True),
             'BODYEXC': lambda e: setattr(run, 'body_exc', e),
             'WITHEXC': lambda e: setattr(run, 'with_exc', e),
             'WITHDONE': self.with_done, 'CAPT': lambda: setattr(run, 'captured', True)}
        exec(compile(self.src, self.fname, 'exec'), g)
        out = None
        import logging
        root = logging.getLogger()
        class H(logging.Handler):
            def emit(h, rec): run.logs.append((9, (rec.msg,) + tuple(rec.args if isinstance(rec.args, tuple) else (rec.args,))))
        hd = H(); old_handlers = root.handlers[:]; old_level = root.level
        root.handlers[:] = [hd]
        try:
            try:
                g['prog']()
            except BaseException as e:
                out = e
        finally:
            root.handlers[:] = old_handlers; root.setLevel(old_level)
            if self.path and self.case.get('rm') == 0:
                import os
                self.path_exists = os.path.exists(self.path)
                if self.path_exists: os.unlink(self.path)
        self.out = out
        tb = self.frames(out.__traceback__)[1:] if out is not None else []   # drop this function's own frame
        self.out_tb = tb
        return out

_SHORT = {('save_and_reraise_exception', '__init__'): 'init', ('save_and_reraise_exception', 'force_reraise'): 'force',
          ('save_and_reraise_exception', 'capture'): 'capture', ('save_and_reraise_exception', '__enter__'): 'enter',
          ('save_and_reraise_exception', '__exit__'): 'exit', ('exception_filter', '__exit__'): 'fexit',
          ('exception_filter', '__call__'): 'fcall', (None, 'raise_with_cause'): 'rwc'}
_LINEMAP = {}
def excutils_frame(ex, lineno):
    """name of the helper frame entry at that line of excutils.py: <function>:<kind of line>"""
    import ast, linecache
    f = ex.__file__
    if f not in _LINEMAP:
        m = {}
        tree = ast.parse(open(f).read())
        def walk(body, cls):
            for n in body:
                if isinstance(n, ast.ClassDef): walk(n.body, n.name)
                elif isinstance(n, ast.FunctionDef):
                    for l in range(n.lineno, n.end_lineno + 1): m[l] = (cls, n.name)
        walk(tree.body, None)
        _LINEMAP[f] = m
    who = _LINEMAP[f].get(lineno, (None, '?'))
    name = _SHORT.get(who, '%s.%s' % who)
    if name == 'rwc': return 'rwc'
    txt = linecache.getline(f, lineno).strip()
    if 'with_traceback' in txt: k = 'wtb'
    elif txt.startswith('raise RuntimeError'): k = 'rt'
    elif txt.startswith('raise '): k = 'val'
    elif re.search(r'=\s*[\w\.]+\(\)\s*$', txt): k = 'ctor'
    else: k = 'call'
    return name + ':' + k

def class_tag(ex, t):
    if t in CLASSES: return str(CLASSES.index(t))
    return {OSError: '105', PermissionError: '106', FileNotFoundError: '107', RuntimeError: '100', TypeError: '101', AttributeError: '102', ex.CausedByException: '103', CausedSub: '104'}.get(t, t.__name__)

class CausedSub(Exception):
    def __init__(self, message, cause=None, extra=0):
        super().__init__(message); self.cause = cause

def canonical(run):
    """the observation compared with the model"""
    out = run.out
    parts = ['out=' + run.describe(out), 'tb=' + ','.join(run.out_tb)]
    parts.append('flag=%s' % ('-' if run.top is None else 1 if run.top.reraise else 0))
    parts.append('logs=' + ';'.join(run.log_entry(l, a) for l, a in run.logs))
    parts.append('done=%d' % (1 if run.completed else 0))
    parts.append('rm=%d' % run.nremoved())
    if run.case['op'] == 'cause':
        parts.append('cause=' + run.describe(getattr(out, 'cause', None)) + '/' + run.describe(getattr(out, '__cause__', None)))
    return ' '.join(parts)

def facts(run):
    """model-free observations the oracle needs: identities (is), traceback containment, call counts"""
    out = run.out
    def suffix(entry, fin):
        return entry is not None and fin is not None and len(entry) <= len(fin) and fin[len(fin) - len(entry):] == entry
    fin = run.raw_frames(out.__traceback__) if out is not None else None
    def names(e, a):
        last = a[1][-1] if len(a) > 1 and isinstance(a[1], list) and a[1] else ''
        if e is None: return False
        return type(e).__name__ in last and (id(e) not in run.reg or ('s%d' % run.reg[id(e)]) in last)
    f = {'completed': run.completed, 'out_none': out is None,
         'out_is_orig': out is not None and out is run.orig,
         'out_is_entry': out is not None and out is run.entry_exc,
         'out_is_body_exc': out is not None and out is run.body_exc,
         'body_raised': run.body_exc is not None,
         'flag': None if run.top is None else bool(run.top.reraise),
         'entry_tb_kept': suffix(run.entry_tb, fin),
         'logs2': sum(1 for l, a in run.logs[run.logs_at_top:] if l == 2), 'logs9': sum(1 for l, a in run.logs if l == 9),
         'log2_names_entry': [names(run.entry_exc, a) for l, a in run.logs[run.logs_at_top:] if l == 2],
         'log9_names_body_exc': [names(run.body_exc, a) for l, a in run.logs if l == 9],
         'out_label': run.reg.get(id(out)) if out is not None else None,
         'out_class': type(out).__name__ if out is not None else None,
         'body_exc_class': CLASSES.index(type(run.body_exc)) if type(run.body_exc) in CLASSES else None,
         'body_exc_is_exception': isinstance(run.body_exc, Exception),
         'pred2': [x is run.body_exc and x is not None for l, x in run.pred_seen if l == 2],
         'pred2_n': sum(1 for l, x in run.pred_seen if l == 2),
         'captured': run.captured, 'rm': run.nremoved()}
    if run.case.get('mode') == 'post':
        w = run.with_exc
        f.update({'with_finished': run.with_finished, 'w_none': w is None, 'w_is_entry': w is not None and w is run.entry_exc,
                  'w_is_body_exc': w is not None and w is run.body_exc, 'w_tb_kept': bool(run.with_tb_ok), 'w_logs2': run.with_logs})
    if run.case['op'] == 'call':
        l, a, cur, curtb, atb = run.args_seen[-1] if run.args_seen else (None, None, None, None, None)
        f.update({'arg_none': a is None, 'arg_is_cur': a is not None and a is cur, 'out_is_arg': out is not None and out is a,
                  'arg_class': CLASSES.index(type(a)) if type(a) in CLASSES else None,
                  'cur_tb_kept': suffix(curtb, fin), 'arg_tb_kept': suffix(atb, fin)})
    if run.case['op'] == 'cause':
        f.update({'cause_is_orig': getattr(out, 'cause', None) is run.orig and run.orig is not None,
                  'dunder_is_orig': getattr(out, '__cause__', None) is run.orig and run.orig is not None,
                  'cause_is_given': getattr(out, 'cause', None) is run.given and run.given is not None,
                  'dunder_is_given': getattr(out, '__cause__', None) is run.given and run.given is not None,
                  'cause_none': getattr(out, 'cause', 0) is None, 'dunder_none': getattr(out, '__cause__', 0) is None,
                  'out_registered': id(out) in run.reg})
    return f
