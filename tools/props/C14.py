"""C14 — scalar parsers and validators (oslo_utils/strutils.py, oslo_utils/uuidutils.py)"""
import sys, os, re, uuid, math, itertools
from unittest import mock
import gen_C14

ID = 'C14'
GEN = [('Gen/C14.v', gen_C14.generate)]
EQUIV_FILES = ['Proofs/C14.v']
EXTRACT = 'Extract/C14_x.v'
LIM = sys.get_int_max_str_digits()          # the interpreter's default (4300)
LOWLIM = 640                                # smallest limit CPython lets one configure; used for most limit tests (cheap for the model)

def lim_of(c):
    return c.get('lim', LIM)

class limit:
    """run the implementation / oracle under the case's int_max_str_digits setting"""
    def __init__(self, c): self.lim = c.get('lim')
    def __enter__(self):
        if self.lim is not None:
            self.old = sys.get_int_max_str_digits(); sys.set_int_max_str_digits(self.lim)
    def __exit__(self, *a):
        if self.lim is not None: sys.set_int_max_str_digits(self.old)

TRUSTED = [
    'CPython runtime modelled in Model/C14_Py.v: str(), int(str, 10|16) incl. whitespace/underscore/Unicode-digit rules and the '
    'int_max_str_digits limit (parameter lim), isinstance, uuid.UUID(hex)/str(UUID)/UUID.hex; Base/Str.v strip/lower/replace; '
    'Gen/Unicode.v tables.  All swept against the running interpreter (every code point for int() whitespace/digits and lower()).',
    'objects other than str/int/bool/None enter the model only through the observed str(v) and int(v) (POther)',
    'uuid.uuid4() enters generate_uuid as its 128-bit integer (any value below 2^128 in the theorem)',
]
ASSUMPTIONS = [
    'the digit limit is a parameter of the model (lim); cases run the implementation under int_max_str_digits = 640, 0 and the default 4300',
    'str.lower() final-sigma rule is not in Base/Str.py_lower; no C14 outcome depends on it (the words and hex digits contain no sigma)',
    'exception messages are not modelled (class only); `name`/`msg`/`acceptable` are message-only',
]
RULE = ('documented bool words x every per-letter casing x padding from the whitespace table x one-edit near-misses (incl. fold-sensitive '
        'code points) x strict x default; non-str subjects; integers at min-1,min,max,max+1 in int and str form with signs, padding, '
        'underscores, non-ASCII digits, floats, None, bytes; 640/641-digit values under int_max_str_digits 640 and 0, 4300/4301-digit values under the default; strings of length min-1..max+1; hex strings of '
        'length 30..34 in every decoration, decorations in odd places, int()-only spellings (0x, _, Unicode digits); generate_uuid for '
        'rng-chosen 128-bit values; sweeps of int()/lower()/strip() over code points; distinct = distinct case JSON; trivial = none')

DOC_TRUE = ('1', 't', 'true', 'on', 'y', 'yes')          # from the docstring / property text, not from the module
DOC_FALSE = ('0', 'f', 'false', 'off', 'n', 'no')

def _su():
    from oslo_utils import strutils, uuidutils
    return strutils, uuidutils

# ------------------------------------------------------------------ values
def S(s): return {'t': 's', 'v': s}
def I(n): return {'t': 'i', 'v': hex(n)}
def B(b): return {'t': 'b', 'v': bool(b)}
NONE = {'t': 'n'}
def F(x): return {'t': 'f', 'v': ('nan' if x != x else 'inf' if x == math.inf else '-inf' if x == -math.inf else float(x).hex())}
def Y(b): return {'t': 'y', 'v': bytes(b).hex()}
def T(l): return {'t': 't', 'v': list(l)}

def to_py(V):
    t = V['t']
    if t == 's': return V['v']
    if t == 'i': return int(V['v'], 16)
    if t == 'b': return V['v']
    if t == 'n': return None
    if t == 'f': return float(V['v']) if V['v'] in ('nan', 'inf', '-inf') else float.fromhex(V['v'])
    if t == 'y': return bytes.fromhex(V['v'])
    if t == 't': return tuple(V['v'])
    raise KeyError(t)

def enc_int(n): return ('M' if n < 0 else 'P') + '%x' % abs(n)
def enc_opt(n): return 'N' if n is None else enc_int(n)

def enc_val(V):
    t = V['t']
    if t == 's': return ['S', V['v'], '']
    if t == 'i': return ['I', enc_int(int(V['v'], 16)), '']
    if t == 'b': return ['B', '1' if V['v'] else '0', '']
    if t == 'n': return ['N', '', '']
    o = to_py(V)
    try: iv = enc_int(int(o))
    except Exception as e: iv = 'E' + type(e).__name__
    return ['O', str(o), iv]

def out_val(v):
    if isinstance(v, bool): return 'True' if v else 'False'
    if isinstance(v, str): return 'S:' + v
    if isinstance(v, int): return 'I:%d' % v
    if v is None: return 'None'
    return 'O:' + str(v)

def _declen(n):
    n = abs(n)
    if n < 10 ** 18: return len(str(n))
    # digits without str(): compare against powers of ten
    k = int(n.bit_length() * 0.30102999566398120) - 1
    p = 10 ** max(k, 0)
    while p <= n: p *= 10; k += 1
    return max(k, 0)

# ------------------------------------------------------------------ generators
SPACES = [' ', '\t', '\n', '\r', '\x0b', '\x0c', '\x1c', '\x1d', '\x1e', '\x1f', '\x85', '\xa0', ' ', ' ', ' ',
          ' ', ' ', ' ', ' ', ' ', '　']
NOT_SPACES = ['​', '﻿', '\x00', '᠎', '\x7f', '\x1b', '⁠', '_', '.']
FOLDY = ['K', 'İ', 'ſ', 'ı', 'ﬀ', 'ﬆ', 'ß', 'Ｔ', 'ｔ', 'ᴛ', 'Σ', 'ς',
         'Å', 'Å', '１', '١', '¹', '①']
LETTERS = 'abcdefghijklmnopqrstuvwxyzABCDEFGHIJKLMNOPQRSTUVWXYZ0123456789'
BIG = 10 ** 4299            # 4300 digits (default limit)
B6 = 10 ** 639               # 640 digits (LOWLIM)
DEFAULTS = [B(False), B(True), NONE, S('dflt'), I(7)]

def casings(w):
    for bits in itertools.product((0, 1), repeat=len(w)):
        yield ''.join(c.upper() if b else c for c, b in zip(w, bits))

def pad(rng):
    r = rng.random()
    l = ''.join(rng.choice(SPACES) for _ in range(rng.randint(1, 3))) if r < 0.6 else ''
    r2 = rng.random()
    t = ''.join(rng.choice(SPACES) for _ in range(rng.randint(1, 3))) if r2 < 0.6 else ''
    return l, t

def near_miss(rng, w):
    k = rng.randrange(7)
    i = rng.randrange(len(w) + 1)
    j = rng.randrange(len(w))
    pool = LETTERS + ''.join(FOLDY) + ''.join(NOT_SPACES) + ' \t　'
    if k == 0: return w[:j] + w[j + 1:]
    if k == 1: return w[:i] + rng.choice(pool) + w[i:]
    if k == 2: return w[:j] + rng.choice(pool) + w[j + 1:]
    if k == 3: return w + rng.choice(DOC_TRUE + DOC_FALSE)
    if k == 4: return w[:j] + w[j] + w[j:]
    if k == 5: return w[:i] + rng.choice(SPACES) + w[i:]
    return rng.choice(NOT_SPACES) + w if rng.random() < 0.5 else w + rng.choice(NOT_SPACES)

def rand_text(rng, n=None):
    n = rng.randint(0, 8) if n is None else n
    pool = LETTERS + ''.join(SPACES) + ''.join(FOLDY) + ''.join(NOT_SPACES) + '+-{}:'
    return ''.join(rng.choice(pool) for _ in range(n))

NONSTR = [I(0), I(1), I(2), I(-1), I(10), B(True), B(False), NONE, F(1.0), F(0.0), F(-1.5), F(1e16), F(float('inf')), F(float('-inf')),
          F(float('nan')), Y(b'1'), Y(b'true'), Y(b''), Y(b'12'), T([]), T([1]), T([1, 2])]
HUGE = [I(B6 * 10 - 1), I(B6 * 10), I(-B6 * 10), I(-(B6 * 10 - 1)), I(B6), I(10 ** 700)]      # around LOWLIM

def bool_subjects(rng, tier):
    words = DOC_TRUE + DOC_FALSE
    for w in words:
        for c in casings(w):
            yield S(c)
            l, t = pad(rng)
            yield S(l + c + t)
    for w in words:
        for sp in SPACES + NOT_SPACES:
            yield S(sp + w); yield S(w + sp); yield S(sp + w + sp)
    for v in NONSTR: yield v
    n = 1500 if tier == 'quick' else 40000
    for _ in range(n):
        r = rng.random()
        w = rng.choice(words)
        c = ''.join(ch.upper() if rng.random() < 0.4 else ch for ch in w)
        if r < 0.45:
            m = near_miss(rng, c)
            l, t = pad(rng) if rng.random() < 0.4 else ('', '')
            yield S(l + m + t)
        elif r < 0.6:
            l, t = pad(rng); yield S(l + c + t)
        elif r < 0.9: yield S(rand_text(rng))
        else: yield rng.choice(NONSTR)

INT_DECOR = ['%s', '+%s', '-%s', ' %s', '%s ', '\t%s\n', '\x1c%s', '%s\x1f', '\x85%s', '%s\xa0', '　%s ', '0%s', '00%s', '%s_0', '_%s', '%s_',
             '%s.0', '%se0', '%s.', '0x%s', '%s\x00', '+ %s', '--%s', '+-%s', '%s ١', '- %s', '%sL', '(%s)', '%s,0', '%s​']
def to_arabic(s): return ''.join(chr(0x660 + ord(c) - 48) if c.isdigit() else c for c in s)
def to_fullwidth(s): return ''.join(chr(0xff10 + ord(c) - 48) if c.isdigit() else c for c in s)
def us(rng, s):
    if len(s) < 2: return s
    i = rng.randrange(1, len(s))
    return s[:i] + rng.choice(['_', '__']) + s[i:]

def int_forms(rng, n):
    """values that are, or look like, the integer n"""
    s = '%d' % n if abs(n) < 10 ** 4000 else None
    yield I(n)
    if s is None: return
    yield S(s)
    for _ in range(3):
        d = rng.choice(INT_DECOR)
        body = s
        r = rng.random()
        if r < 0.15: body = to_arabic(s)
        elif r < 0.25: body = to_fullwidth(s)
        elif r < 0.4: body = us(rng, s)
        yield S(d % body)
    if rng.random() < 0.3: yield F(float(n))
    if rng.random() < 0.1: yield Y(s.encode())

INT_ODD = [S(''), S(' '), S('-'), S('+'), S('_'), S('-0'), S('+0'), S('0'), S('00'), S('-00'), S('0_0'), S('1__0'), S('٠'), S('-٣'), S('²'), S('Ⅷ'), S('①'),
           S('1e3'), S('1.0'), S('0x10'), S('0b1'), S('0o7'), S('١٢٣'), S('1٢'), S('1\x1c'), S('\x1c1'), S('\x851'), S('1　'), S('１２'), S('nan'), S('inf'),
           S('True'), S('None'), S('1 2'), S('12abc'), S('−1'), S('1\n2'),
           NONE, B(True), B(False), F(1.0), F(-0.0), F(1e300), F(float('inf')), F(float('-inf')), F(float('nan')), Y(b'12'), Y(b'x'), T([]), T([1]),
           ]
INT_LIMIT = [S('9' * 640), S('9' * 641), S('-' + '9' * 640), S('-' + '9' * 641), S('0' * 641), S('0' * 640), S('1_' * 639 + '1'), S('1_' * 640 + '1'),
             S(' +' + '1' * 640 + ' '), S('١' * 640), S('١' * 641), S('\x85' + '7' * 641), S('7' * 640 + '.0')] + HUGE
INT_DEFAULT_LIMIT = [S('9' * 4301), I(BIG * 10), S('-' + '9' * 4300)]      # at the interpreter default: few (each costs the model seconds)

BOUNDS = [(None, None), (0, None), (None, 0), (0, 0), (1, 10), (-5, 5), (10, 1), (0, 65535), (-2 ** 31, 2 ** 31 - 1), (0, 2 ** 64), (-10 ** 30, 10 ** 30),
          (12, 12), (None, -1), (100, None)]

def hexcore(rng, n):
    return ''.join(rng.choice('0123456789abcdefABCDEF' if rng.random() < 0.5 else '0123456789abcdef') for _ in range(n))

def hyph(c):
    return '-'.join([c[:8], c[8:12], c[12:16], c[16:20], c[20:]])

CANON_DECO = {'plain': lambda c: c, 'hyph': hyph, 'braced': lambda c: '{' + c + '}', 'braced-hyph': lambda c: '{' + hyph(c) + '}',
              'urn': lambda c: 'urn:uuid:' + hyph(c), 'urn-plain': lambda c: 'urn:uuid:' + c}
ODD_DECO = {'urn-only': lambda c: 'urn:' + c, 'uuid-only': lambda c: 'uuid:' + c, 'brace-urn': lambda c: '{urn:uuid:' + hyph(c) + '}',
            'urn-brace': lambda c: 'urn:uuid:{' + hyph(c) + '}', 'mid-urn': lambda c: c[:16] + 'urn:' + c[16:], 'mid-uuid': lambda c: c[:5] + 'uuid:' + c[5:],
            'nested': lambda c: 'uurn:uid:' + c, 'many-hyph': lambda c: '-'.join(c), 'lead-hyph': lambda c: '---' + c + '-',
            'brace-in': lambda c: c[:10] + '{' + c[10:], 'brace-in2': lambda c: c[:10] + '}' + c[10:], 'double-brace': lambda c: '{{' + c + '}}',
            'rbrace-first': lambda c: '}' + c + '{', 'nl': lambda c: c + '\n', 'sp': lambda c: ' ' + c, 'sp-in': lambda c: c[:-1] + ' ',
            '0x': lambda c: '0x' + c[2:], '0X': lambda c: '0X' + c[2:], '0x_': lambda c: '0x_' + c[3:], 'plus': lambda c: '+' + c[1:], 'minus-end': lambda c: c[:-1] + '-' + c[-1:],
            'us': lambda c: c[:3] + '_' + c[4:], 'us-end': lambda c: c[:-1] + '_', 'arabic': lambda c: to_arabic(c), 'fullwidth': lambda c: to_fullwidth(c),
            'fw-letter': lambda c: 'ａ' + c[1:], 'g': lambda c: c[:7] + 'g' + c[8:], 'idot': lambda c: 'İ' + c[1:], 'kelvin': lambda c: c[:4] + 'K' + c[5:],
            'URN': lambda c: 'URN:UUID:' + c, 'urn-sp': lambda c: 'urn: uuid:' + c, 'colon': lambda c: 'urn:uuid::' + c, 'sp-pad': lambda c: ' ' + c[1:-1] + ' ',
            'nbsp-pad': lambda c: '\xa0' + c[1:], 'x1c': lambda c: '\x1c' + c[1:]}

def decorated(rng, core):
    """core with the decorations in a random order / nesting / repetition that uuid.UUID's removal tolerates:
    any mix of 'urn:', 'uuid:', braces and hyphens in front and behind, prefixes and hyphens also inside"""
    def mix(tokens, lo, hi):
        return ''.join(rng.choice(tokens) for _ in range(rng.randint(lo, hi)))
    body = core
    r = rng.random()
    if r < 0.4: body = hyph(core) if len(core) >= 20 else core
    elif r < 0.6:
        for _ in range(rng.randint(1, 4)):
            i = rng.randrange(len(body) + 1); body = body[:i] + rng.choice(['-', '-', 'urn:', 'uuid:', '--']) + body[i:]
    front = mix(['urn:', 'uuid:', '{', '{', '}', '-', 'urn:uuid:', 'uurn:uid:', 'uuuid:rn:'], 0, 4)
    back = mix(['}', '}', '{', '-', 'urn:', 'uuid:'], 0, 3)
    return front + body + back

FIXED_NESTINGS = ['{urn:uuid:%s}', '{uuid:%s}', '{urn:%s}', 'urn:urn:uuid:%s', 'uuid:urn:%s', 'uuid:uuid:%s', 'urn:uuid:{%s}', 'urn:{uuid:%s}',
                  '{{urn:uuid:%s}}', 'uuid:urn:uuid:%s', '%surn:', '%suuid:', '%s}uuid:', '{urn:uuid:%s}urn:', '}urn:uuid:%s{', 'urn:uuid:-%s-']

def uuid_cases(rng, tier):
    n = 40 if tier == 'quick' else 1500
    for _ in range(n):
        core = hexcore(rng, 32)
        for f in FIXED_NESTINGS:
            yield {'op': 'uuid', 'v': S(f % core)}
            yield {'op': 'uuid', 'v': S(f % hyph(core))}
    for _ in range(n * 15):
        yield {'op': 'uuid', 'v': S(decorated(rng, hexcore(rng, rng.choice([31, 32, 32, 32, 32, 33]))))}
    for _ in range(n):
        for ln in (30, 31, 32, 32, 32, 33, 34):
            core = hexcore(rng, ln)
            for d in CANON_DECO:
                yield {'op': 'uuid', 'v': S(CANON_DECO[d](core)), 'core': core, 'deco': d}
    for _ in range(n):
        for ln in (31, 32, 32, 33):
            core = hexcore(rng, ln)
            for d in ODD_DECO:
                yield {'op': 'uuid', 'v': S(ODD_DECO[d](core))}
    for _ in range(n * 5):
        core = hexcore(rng, 32)
        i = rng.randrange(33)
        s = core[:i] + rng.choice(['urn:', 'uuid:', '{', '}', '-', 'u', ':', 'g', ' ', '_', '0x', 'rn:', 'uu']) + core[i:]
        if rng.random() < 0.3:
            j = rng.randrange(len(s) + 1); s = s[:j] + rng.choice(['urn:', 'uuid:', '{', '}', '-']) + s[j:]
        yield {'op': 'uuid', 'v': S(s)}
    for v in [S(''), S('{}'), S('urn:uuid:'), S('-' * 32), S('0' * 32), S('F' * 32), S('f' * 31), NONE, I(5), I(0), B(True), F(1.5), Y(b'a' * 32), Y(b'a' * 16), T([1]),
              S('{' * 40 + 'a' * 32), S('a' * 32 + '}' * 9), S('urn:' * 8), S('İ' * 32), S('0x' + 'a' * 30), S(' ' + 'a' * 31), S('a' * 31 + '\n')]:
        yield {'op': 'uuid', 'v': v}
    for _ in range(n * 2):
        yield {'op': 'uuid', 'v': S(rand_text(rng, rng.randint(0, 40)))}
    for _ in range(n * 6):
        yield {'op': 'gen', 'bits': '%x' % rng.getrandbits(128), 'dashed': rng.random() < 0.5}
    for bits in (0, 1, 2 ** 128 - 1, 2 ** 127, 0xf << 124, 10 ** 30):
        for d in (True, False): yield {'op': 'gen', 'bits': '%x' % bits, 'dashed': d}
    for _ in range(n * 3):
        s = rng.choice(list(ODD_DECO.values()) + list(CANON_DECO.values()))(hexcore(rng, 32)) if rng.random() < 0.7 else rand_text(rng, 20)
        if 'Σ' not in s: yield {'op': 'fmt', 's': s}      # final-sigma rule of str.lower() is outside the model (see ASSUMPTIONS)

# ---- look-alikes: code points that some case / compatibility mapping (but not necessarily lower()) sends onto ASCII text
_PRE = None
def fold_preimages():
    """{ascii text (1..3 chars, lower case) : sorted list of non-ASCII strings (one code point) whose casefold(), upper().lower(),
    swapcase().swapcase(), NFKC, NFKD (each also lower-cased / casefolded) is that text}; computed once per run from the interpreter"""
    global _PRE
    if _PRE is not None: return _PRE
    import unicodedata
    pre = {}; case = {}
    for c in range(128, 0x110000):
        if 0xD800 <= c <= 0xDFFF: continue
        ch = chr(c)
        forms = set()
        for f in (ch.casefold(), ch.upper().lower(), ch.swapcase().swapcase(), ch.lower(), ch.upper()):
            forms.add(f)
            fl = f.lower()
            if 1 <= len(fl) <= 3 and fl.isascii() and fl.isalnum(): case.setdefault(fl, set()).add(ch)
        for nf in ('NFKC', 'NFKD'):
            n = unicodedata.normalize(nf, ch)
            if n != ch: forms.update((n, n.lower(), n.casefold()))
        for f in forms:
            fl = f.lower()
            if 1 <= len(fl) <= 3 and fl.isascii() and fl.isalnum():
                pre.setdefault(fl, set()).add(ch)
    _PRE = {k: (sorted(case.get(k, ())), sorted(v - case.get(k, set()))) for k, v in pre.items()}   # (case mappings: all used; compatibility: sampled)
    return _PRE

def lookalikes(w, rng, limit_per_slot):
    """w with one substring (1..3 chars) replaced by a look-alike; then some with two replacements"""
    pre = fold_preimages()
    out = []
    for i in range(len(w)):
        for L in (1, 2, 3):
            sub = w[i:i + L].lower()
            if len(sub) < L: continue
            always, compat = pre.get(sub, ([], []))
            if len(compat) > limit_per_slot: compat = rng.sample(compat, limit_per_slot)
            for p in always + compat: out.append(w[:i] + p + w[i + L:])
    return out

def fold_family(rng, tier):
    per = 6 if tier == 'quick' else 60
    words = DOC_TRUE + DOC_FALSE
    for w in words:
        singles = lookalikes(w, rng, per)
        doubles = []
        for s1 in rng.sample(singles, min(len(singles), 4)):
            doubles += [s2 for s2 in lookalikes(s1, rng, 1) if s2 != s1][:3]
        for s in singles + doubles:
            variants = [s, ''.join(ch.upper() if ch.isascii() else ch for ch in s)]
            l, t = pad(rng)
            if l or t: variants.append(l + s + t)
            for x in variants:
                yield {'op': 'bfs', 'v': S(x), 'strict': rng.random() < 0.5, 'default': rng.choice(DEFAULTS), 'kw': True}
                if rng.random() < 0.5: yield {'op': 'ivb', 'v': S(x)}
                if rng.random() < 0.25: yield {'op': 'ifb', 'v': S(x)}
    # hex digits in other forms (fullwidth, mathematical, circled ...) inside otherwise well-formed UUID spellings
    pre = fold_preimages()
    for _ in range(60 if tier == 'quick' else 3000):
        core = hexcore(rng, 32)
        k = rng.choice([1, 1, 2, 32])
        idx = range(32) if k == 32 else rng.sample(range(32), k)
        cs = list(core)
        for i in idx:
            always, compat = pre.get(cs[i].lower(), ([], []))
            if always + compat: cs[i] = rng.choice(always + compat)
        core2 = ''.join(cs)
        if core2 == core: continue
        for d in ('plain', 'hyph', 'braced', 'urn'):
            yield {'op': 'uuid', 'v': S(CANON_DECO[d](core2)), 'core': core2, 'deco': d}

def gen_cases(rng, tier):
    quick = tier == 'quick'
    # --- bool_from_string / is_valid_boolstr / int_from_bool_as_string
    for k, v in enumerate(bool_subjects(rng, tier)):
        strict = rng.random() < 0.5
        yield {'op': 'bfs', 'v': v, 'strict': strict, 'default': rng.choice(DEFAULTS), 'kw': rng.random() < 0.8}
        if k % 2 == 0: yield {'op': 'ivb', 'v': v}
        if k % 5 == 0: yield {'op': 'ifb', 'v': v}
    for v in HUGE:
        for lim in (LOWLIM, 0):
            for strict in (False, True):
                yield {'op': 'bfs', 'v': v, 'strict': strict, 'default': rng.choice(DEFAULTS), 'kw': True, 'lim': lim}
            yield {'op': 'ivb', 'v': v, 'lim': lim}
            yield {'op': 'ifb', 'v': v, 'lim': lim}
    yield {'op': 'bfs', 'v': I(BIG * 10), 'strict': False, 'default': B(False), 'kw': True}
    # --- is_int_like / validate_integer
    for v in INT_ODD:
        yield {'op': 'iil', 'v': v}
        for lo, hi in (BOUNDS[:4] if v['t'] != 'i' else BOUNDS[:1]): yield {'op': 'vi', 'v': v, 'min': lo, 'max': hi}
    for v in INT_LIMIT:
        for lim in (LOWLIM, 0, None):
            extra = {} if lim is None else {'lim': lim}
            yield dict({'op': 'iil', 'v': v}, **extra)
            yield dict({'op': 'vi', 'v': v, 'min': None, 'max': None}, **extra)
            yield dict({'op': 'vi', 'v': v, 'min': 0, 'max': 10 ** 30}, **extra)
            if v['t'] == 's': yield dict({'op': 'int', 's': v['v'], 'base': 10}, **extra)
    for v in INT_DEFAULT_LIMIT:
        yield {'op': 'iil', 'v': v}
        yield {'op': 'vi', 'v': v, 'min': None, 'max': None}
    for lo, hi in BOUNDS:
        pts = set()
        for b in (lo, hi):
            if b is not None: pts.update([b - 1, b, b + 1])
        pts.update([0, -1, 1, rng.randint(-10 ** 6, 10 ** 6), rng.randint(-10 ** 40, 10 ** 40)])
        for rep in range(1 if quick else 30):
            for n in sorted(pts):
                for v in int_forms(rng, n):
                    yield {'op': 'vi', 'v': v, 'min': lo, 'max': hi}
                    if rng.random() < 0.5: yield {'op': 'iil', 'v': v}
    for _ in range(600 if quick else 20000):
        n = rng.choice([0, 1, -1, 7, 10, 99, 2 ** 31, -2 ** 63, rng.randint(-10 ** 9, 10 ** 9), rng.randint(-10 ** 50, 10 ** 50)])
        for v in int_forms(rng, n): yield {'op': 'iil', 'v': v}
    for _ in range(300 if quick else 10000):
        yield {'op': 'iil', 'v': S(rand_text(rng))}
        yield {'op': 'vi', 'v': S(rand_text(rng)), 'min': None, 'max': None}
    # --- check_string_length
    for lo, hi in [(0, None), (0, 0), (1, None), (0, 5), (3, 5), (5, 5), (5, 3), (0, 1), (2, 0), (-1, None), (0, -1), (1, -1), (255, 255), (0, 255)]:
        lens = set([0, 1])
        for b in (lo, hi):
            if b is not None: lens.update(x for x in (b - 1, b, b + 1) if x >= 0)
        for ln in sorted(lens):
            for rep in range(2 if quick else 20):
                yield {'op': 'csl', 'v': S(rand_text(rng, ln)), 'min': lo, 'max': hi, 'name': rng.choice([None, 'field'])}
        for v in (NONE, I(3), B(True), F(1.0), Y(b'abc'), T([]), T([1, 2])):
            yield {'op': 'csl', 'v': v, 'min': lo, 'max': hi, 'name': rng.choice([None, 'field'])}
    # --- uuid
    yield from uuid_cases(rng, tier)
    # --- the runtime models themselves (int(), lower(), strip())
    for v in INT_ODD:
        if v['t'] == 's':
            for b in (10, 16):
                if b == 10 or len(v['v']) < 1000: yield {'op': 'int', 's': v['v'], 'base': b}
    for _ in range(500 if quick else 20000):
        n = rng.randint(-10 ** 12, 10 ** 12)
        body = rng.choice(['%d' % n, '%x' % abs(n), '%X' % abs(n), to_arabic('%d' % n), us(rng, '%x' % abs(n))])
        yield {'op': 'int', 's': rng.choice(INT_DECOR + ['0x%s', '0X%s', '0x_%s', '-0x%s', ' 0x%s ', '٠x%s', '０x%s', '0x%s_', '0x__%s']) % body, 'base': rng.choice([10, 16])}
    for _ in range(300 if quick else 10000):
        s = rand_text(rng, rng.randint(0, 12))
        if 'Σ' not in s: yield {'op': 'lower', 's': s}
        yield {'op': 'strip', 's': s}

# ------------------------------------------------------------------ implementation
def _call(f, *a, **k):
    try: return f(*a, **k)
    except Exception as e: return 'EXN:' + type(e).__name__

def impl(c):
    with limit(c):
        return _impl(c)

def _impl(c):
    S_, U_ = _su()
    op = c['op']
    if op == 'bfs':
        v = to_py(c['v'])
        try:
            r = (S_.bool_from_string(v, strict=c['strict'], default=to_py(c['default'])) if c.get('kw', True)
                 else S_.bool_from_string(v, c['strict'], to_py(c['default'])))
        except Exception as e:
            return 'EXN:' + type(e).__name__
        return out_val(r)
    if op == 'ifb':
        r = _call(S_.int_from_bool_as_string, to_py(c['v']))
        return r if isinstance(r, str) else ('%d' % r if type(r) is int else 'BADTYPE:' + type(r).__name__)
    if op == 'ivb':
        r = _call(S_.is_valid_boolstr, to_py(c['v']))
        return r if isinstance(r, str) else ('True' if r is True else 'False' if r is False else 'BADTYPE')
    if op == 'iil':
        r = _call(S_.is_int_like, to_py(c['v']))
        return r if isinstance(r, str) else ('True' if r is True else 'False' if r is False else 'BADTYPE')
    if op == 'csl':
        r = _call(S_.check_string_length, to_py(c['v']), c.get('name'), c['min'], c['max'])
        return r if isinstance(r, str) else ('None' if r is None else 'BADTYPE')
    if op == 'vi':
        r = _call(S_.validate_integer, to_py(c['v']), 'name', c['min'], c['max'])
        return r if isinstance(r, str) else ('%d' % r if type(r) is int else 'BADTYPE:' + type(r).__name__)
    if op == 'uuid':
        r = _call(U_.is_uuid_like, to_py(c['v']))
        return r if isinstance(r, str) else ('True' if r is True else 'False' if r is False else 'BADTYPE')
    if op == 'fmt':
        return _call(U_._format_uuid_string, c['s'])
    if op == 'gen':
        u = uuid.UUID(int=int(c['bits'], 16), version=4)
        with mock.patch.object(uuid, 'uuid4', return_value=u):
            r = _call(U_.generate_uuid, dashed=c['dashed'])
        return r if isinstance(r, str) else 'BADTYPE'
    if op == 'int':
        try: return '%d' % int(c['s'], c['base'])
        except ValueError: return 'None'
    if op == 'lower': return c['s'].lower()
    if op == 'strip': return c['s'].strip()
    raise KeyError(op)

def encode(c):
    op = c['op']
    if op == 'bfs': return ['bool_from_string', lim_of(c)] + enc_val(c['v']) + ['1' if c['strict'] else '0'] + enc_val(c['default'])
    if op == 'ifb': return ['int_from_bool', lim_of(c)] + enc_val(c['v'])
    if op == 'ivb': return ['is_valid_boolstr', lim_of(c)] + enc_val(c['v'])
    if op == 'iil': return ['is_int_like', lim_of(c)] + enc_val(c['v'])
    if op == 'csl': return ['check_string_length', lim_of(c)] + enc_val(c['v']) + [enc_int(c['min']), enc_opt(c['max'])]
    if op == 'vi': return ['validate_integer', lim_of(c)] + enc_val(c['v']) + [enc_opt(c['min']), enc_opt(c['max'])]
    if op == 'uuid': return ['is_uuid_like', lim_of(c)] + enc_val(c['v'])
    if op == 'fmt': return ['format_uuid', lim_of(c), 'S', c['s'], '']
    if op == 'gen':
        u = uuid.UUID(int=int(c['bits'], 16), version=4)      # the value uuid4() returns in impl()
        return ['generate_uuid', lim_of(c), 'S', '%x' % u.int, '', '1' if c['dashed'] else '0']
    if op == 'int': return ['int', lim_of(c), 'S', c['s'], '', c['base']]
    if op == 'lower': return ['lower', lim_of(c), 'S', c['s'], '']
    if op == 'strip': return ['strip', lim_of(c), 'S', c['s'], '']
    return None

def decode(c, out):
    return out

# ------------------------------------------------------------------ oracle (model-free reading of the property)
def ascii_lower(s):
    return ''.join(chr(ord(ch) + 32) if 'A' <= ch <= 'Z' else ch for ch in s)

def lowered(s):
    """'ignoring case' as the property means it: str.lower() of the running interpreter (NOT casefold / NFKC:
    'yeſ', 'oﬀ', 'ｔｒｕｅ' are not words; theorem C14_no_nonascii_letter_folds_into_a_word says lower() adds nothing to ASCII)"""
    return s.lower()

def show(v):
    if isinstance(v, int) and not isinstance(v, bool) and abs(v) >= 10 ** 60: return '<int of %d digits>' % _declen(v)
    r = repr(v)
    return r if len(r) < 120 else r[:60] + '...' + r[-40:] + ' (len %d)' % len(v)

def text_of(v):
    if isinstance(v, str): return v
    try: return str(v)
    except ValueError: return None

NF_RE = re.compile(r'urn:|uuid:|[{}-]')
def deco_nf(s):
    while True:
        t = NF_RE.sub('', s)
        if t == s: return s
        s = t
HEX32 = re.compile(r'[0-9a-fA-F]{32}\Z')
INT_ASCII = re.compile(r'[ \t\n\r\x0b\x0c]*([+-]?)([0-9]+(?:_[0-9]+)*)[ \t\n\r\x0b\x0c]*\Z')

def oracle(c, io):
    with limit(c):
        return _oracle(c, io)

def _oracle(c, io):
    op = c['op']
    if io.startswith('HARNESS-ERROR') or io.startswith('BADTYPE'): return 'unexpected result %s' % io
    if op == 'bfs':
        v = to_py(c['v']); dflt = out_val(to_py(c['default']))
        if isinstance(v, bool): want = out_val(v)
        else:
            otherwise = 'EXN:ValueError' if c['strict'] else dflt
            t = text_of(v)
            if t is None: want = otherwise
            else:
                low = lowered(t.strip())
                want = 'True' if low in DOC_TRUE else 'False' if low in DOC_FALSE else otherwise
        if io != want: return 'bool_from_string(%s, strict=%r, default=%r) gives %s, the documented words give %s' % (show(v), c['strict'], to_py(c['default']), io, want)
    elif op == 'ifb':
        v = to_py(c['v'])
        if isinstance(v, bool): want = '1' if v else '0'
        else:
            t = text_of(v)
            if t is None: want = '0'
            else:
                want = '1' if lowered(t.strip()) in DOC_TRUE else '0'
        if io != want: return 'int_from_bool_as_string(%s) gives %s, the documented words give %s' % (show(v), io, want)
    elif op == 'ivb':
        v = to_py(c['v'])
        t = text_of(v)
        if t is None: return None
        if t == t.strip():
            want = lowered(t) in DOC_TRUE + DOC_FALSE
            if io != str(want): return 'is_valid_boolstr(%r) gives %s on unpadded input, documented words give %s' % (show(v), io, want)
            S_, _ = _su()
            rec = _call(S_.bool_from_string, v, strict=True)
            if (rec != 'EXN:ValueError') != want: return 'is_valid_boolstr(%r)=%s disagrees with bool_from_string(strict)=%r' % (show(v), io, rec)
        elif io not in ('True', 'False'): return 'is_valid_boolstr(%s) gives %s' % (show(v), io)
    elif op == 'iil':
        v = to_py(c['v'])
        if isinstance(v, bool): want = False
        elif isinstance(v, int): want = True
        elif isinstance(v, str): want = bool(re.match(r'(0|-?[1-9][0-9]*)\Z', v))
        else: want = False
        if io != str(want): return 'is_int_like(%s) gives %s, expected %s' % (show(v), io, want)
    elif op == 'vi':
        v = to_py(c['v']); lo, hi = c['min'], c['max']
        val = None
        if isinstance(v, bool) or v is None or isinstance(v, (float, bytes, tuple)): val = None
        elif isinstance(v, int): val = v
        else:
            m = INT_ASCII.match(v)
            if m:
                digits = m.group(2).replace('_', '')
                val = None if len(digits) > lim_of(c) > 0 else int(digits) * (-1 if m.group(1) == '-' else 1)
            elif not any(ch.isdecimal() for ch in v): val = None
            else:
                try: val = int(v)          # Unicode digits / whitespace: the property says int(v)
                except ValueError: val = None
        if isinstance(v, int) and not isinstance(v, bool) and _declen(v) > lim_of(c) > 0: val = None      # int(str(v)) does not exist
        ok = val is not None and (lo is None or val >= lo) and (hi is None or val <= hi)
        want = '%d' % val if ok else 'EXN:ValueError'
        if io != want: return 'validate_integer(%s, min=%r, max=%r) gives %s, expected %s' % (show(v), lo, hi, io[:80], want[:80])
    elif op == 'csl':
        v = to_py(c['v']); lo, hi = c['min'], c['max']
        if not isinstance(v, str): want = 'EXN:TypeError'
        elif len(v) < lo: want = 'EXN:ValueError'
        elif hi is not None and hi != 0 and len(v) > hi: want = 'EXN:ValueError'
        elif hi == 0 and len(v) > 0: return None          # max_length=0: "no limit" by idiom; the property text is silent
        else: want = 'None'
        if io != want: return 'check_string_length(%r, min=%r, max=%r) gives %s, expected %s' % (v, lo, hi, io, want)
    elif op == 'uuid':
        v = to_py(c['v'])
        if io not in ('True', 'False'): return 'is_uuid_like(%r) gives %s' % (v, io)
        if not isinstance(v, str):
            if io != 'False': return 'is_uuid_like(%r) accepted a non-string' % (v,)
            return None
        if 'core' in c:
            good = bool(HEX32.match(c['core']))
            if good and io != 'True': return 'is_uuid_like rejects the %s spelling %r of a UUID' % (c['deco'], v)
            if not good and io != 'False': return 'is_uuid_like accepts %r whose digits %r are not 32 hex digits' % (v, c['core'])
        # accept direction: decoration removed exactly as uuid.UUID removes it ('urn:' / 'uuid:' anywhere, braces at both
        # ends, hyphens anywhere) leaves 32 hex digits => a UUID in some order / nesting / repetition of the spellings
        if HEX32.match(v.replace('urn:', '').replace('uuid:', '').strip('{}').replace('-', '')) and io != 'True':
            return 'is_uuid_like rejects %r, which is 32 hex digits once the decoration is removed as uuid.UUID removes it' % (v,)
        if io == 'True' and not HEX32.match(deco_nf(v)):
            return 'is_uuid_like accepts %r; decoration removed it is %r, not 32 hex digits' % (v, deco_nf(v))
    elif op == 'gen':
        pat = r'[0-9a-f]{8}-[0-9a-f]{4}-[0-9a-f]{4}-[0-9a-f]{4}-[0-9a-f]{12}\Z' if c['dashed'] else r'[0-9a-f]{32}\Z'
        if not re.match(pat, io): return 'generate_uuid(dashed=%r) produced %r' % (c['dashed'], io)
        _, U_ = _su()
        if U_.is_uuid_like(io) is not True: return 'is_uuid_like rejects %r produced by generate_uuid' % io
    return None

def zone(c):
    op = c['op']
    V = c.get('v')
    L = lim_of(c)
    if L > 0 and V and op in ('bfs', 'ivb', 'iil', 'ifb'):      # (ifb: int(bool_from_string(10**4300)) raises too)
        if V['t'] == 'i' and _declen(int(V['v'], 16)) > L: return 'MAXDIGITS'
        if V['t'] == 's' and sum(1 for ch in V['v'] if ch.isdecimal()) > L: return 'MAXDIGITS'
    return None

def classify(c, io):
    k = 'exn' if io.startswith('EXN') else ('T' if io in ('True',) else 'F' if io in ('False',) else 'val')
    return '%s:%s' % (c['op'], k)

# ------------------------------------------------------------------ sweeps over all code points (runtime model vs CPython)
def extra_checks(rng, tier):
    """model-free cross checks that need more than one call"""
    S_, U_ = _su()
    # every documented word is recognised in every casing by both functions, with and without padding
    for w, want in [(w, True) for w in DOC_TRUE] + [(w, False) for w in DOC_FALSE]:
        for cs in casings(w):
            c = {'op': 'bfs', 'v': S(cs), 'strict': True, 'default': NONE}
            r = _call(S_.bool_from_string, cs, strict=True)
            yield 'doc-words', c, (None if r is want else 'bool_from_string(%r, strict=True) gives %r' % (cs, r))
            r2 = _call(S_.is_valid_boolstr, cs)
            yield 'doc-words', {'op': 'ivb', 'v': S(cs)}, (None if r2 is True else 'is_valid_boolstr(%r) gives %r' % (cs, r2))
    # real uuid4 draws (os.urandom): only the verdict is recorded, so the run stays reproducible
    n = 300 if tier == 'quick' else 10000
    bad = None
    for i in range(n):
        for d in (True, False):
            s = U_.generate_uuid(dashed=d)
            if U_.is_uuid_like(s) is not True or len(s) != (36 if d else 32): bad = s
    yield 'uuid4-draws', {'op': 'gen', 'bits': '0', 'dashed': True}, (None if bad is None else 'generate_uuid produced %r which is_uuid_like rejects' % bad)

def sweep_cases(tier):
    """int()/lower()/strip() of the model against CPython for code points (all of them in the thorough tier)"""
    pts = [c for c in range(0x110000) if not (0xD800 <= c <= 0xDFFF)]
    if tier == 'quick':
        pts = [c for c in pts if c < 0x3100 or chr(c).isspace() or chr(c).isdecimal() or chr(c).lower() != chr(c) or c % 61 == 0]
    for c in pts:
        ch = chr(c)
        if tier != 'quick' or c < 0x3100 or ch.isspace() or ch.isdecimal():
            yield {'op': 'int', 's': ch + '7', 'base': 10}
            yield {'op': 'int', 's': '7' + ch, 'base': 16}
    for i in range(0, len(pts), 512):
        chunk = ''.join(chr(c) for c in pts[i:i + 512] if c != 0x3a3)
        yield {'op': 'lower', 's': chunk}
    for c in pts:
        if tier != 'quick' or c < 0x3100 or chr(c).isspace():
            yield {'op': 'strip', 's': chr(c) + 'x' + chr(c)}

_gen_cases_main = gen_cases
def gen_cases(rng, tier):
    yield from _gen_cases_main(rng, tier)
    yield from table_cases(rng)
    yield from fold_family(rng, tier)
    yield from sweep_cases(tier)

def impl_words():
    try:
        S_, _ = _su()
        return [w for w in tuple(S_.TRUE_STRINGS) + tuple(S_.FALSE_STRINGS) if isinstance(w, str)]
    except Exception:
        return []

def table_cases(rng):
    """every entry of the implementation's word tuples (whatever they are now), as a subject"""
    for w in impl_words():
        for s in (w, w.upper(), ' ' + w + '\t'):
            for strict in (False, True):
                yield {'op': 'bfs', 'v': S(s), 'strict': strict, 'default': NONE, 'kw': True}
            yield {'op': 'ivb', 'v': S(s)}
            yield {'op': 'ifb', 'v': S(s)}

def search(rng, budget):
    yield from table_cases(rng)
    yield from fold_family(rng, 'thorough')
    for _ in range(budget):
        yield from _gen_cases_main(rng, 'quick')

LEVEL_TEXT = ('Theorems for all strings / integers / values (no length or size bound): bool_from_string returns True/False exactly for the '
              'ASCII-case, whitespace-padded variants of the generated words (= the documented ones), else default / ValueError(strict); bools pass '
              'through; other values via str(); no non-ASCII code point lowers into a word character (from the regenerated Unicode tables); '
              'is_valid_boolstr = "strict bool_from_string recognises it" on unpadded input; is_int_like(str) <-> canonical decimal rendering '
              '(within int_max_str_digits); validate_integer = int(str(v)) when within [min,max] else ValueError; check_string_length three-way '
              'iff; is_uuid_like <-> 32 lower-case hex digits remain after the code\'s own decoration removal, all six canonical spellings and '
              'both generate_uuid shapes accepted.  The nine function bodies are translated statement by statement on every run and proved '
              'equal to the model.')
LEVEL_NOTE = ('Trusted: Coq kernel; translator (tools/gen/gen_C14.py on top of py2gal); the CPython runtime model Model/C14_Py.v + Base strip/lower/'
              'replace + Gen/Unicode.v (swept against the interpreter); objects other than str/int/bool/None only through observed str()/int(). '
              'All theorems closed under the global context.  Known finding: MAXDIGITS (4300-digit limit); INF (is_int_like(inf) raised OverflowError) is fixed in 03dab32 and replayed as a regression.')
