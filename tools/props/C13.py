"""C13 — StopWatch obeys its state machine under every call sequence (oslo_utils/timeutils.py)

A case is a history: a list of method-call tokens run on a fresh StopWatch(duration) with
timeutils.now replaced by a scripted clock, once per (duration, clock) of the case.

  tokens  st start  sp stop  rs resume  rt restart  sl split  el elapsed()  el:N elapsed(None)  el:<m> elapsed(m)
          lo leftover()  lo:T / lo:F leftover(return_none=...)  ex expired  hs has_started  hp has_stopped
          ss .splits  en __enter__  xt __exit__(None, None, None)
          xt:V / xt:B  __exit__(type, value, traceback) called directly with the triple of a real, raised-and-caught
                       ValueError / BaseException-only exception
          wn[body] / wV[body] / wB[body]   a real `with sw as x: body [; raise ValueError | a BaseException-only class]`
                       statement executed by the harness (body = '/'-joined tokens, may be empty); it is flattened into the
                       calls  en, body..., wx | wx:V | wx:B  where wx* is the __exit__ the interpreter makes; its outcome is
                       None (no exception), PROP:<kind> (the body's exception propagated out of the with statement),
                       SUPPRESSED (it did not), or EXN:<class> (something else came out)
  op 'run' / 'last' (model instance T := Z): numbers in a case (clock readings, durations, maxima) are integers; the
  implementation gets value/scale as a float (scale is a power of two, so float subtraction/comparison is exact) and the
  outputs are scaled back.
  op 'frun' / 'flast' (model instance T := binary64): numbers are ARBITRARY finite doubles, written float.hex() in the case,
  sent to the model as <m>p<e> (= m * 2^e exactly) and compared bit-exactly through float.hex().

Canonical output of a call:  result;now-calls;state,started_at,stopped_at,splits,duration
"""
import sys, os, random, itertools
import gen_C13

ID = 'C13'
GEN = [('Gen/C13_StopWatch.v', gen_C13.generate)]
EQUIV_FILES = ['Proofs/C13.v']
EXTRACT = 'Extract/C13_x.v'

def _tu():
    from oslo_utils import timeutils
    return timeutils

# ----------------------------------------------------------------------------- implementation side

def _num(v, scale):
    if isinstance(v, bool) or not isinstance(v, (int, float)): return 'OTHER:' + type(v).__name__
    if scale == 'f':
        try: return float(v).hex()
        except OverflowError: return 'OTHER:hugeint'
    x = v * scale
    try:
        if x == int(x): return str(int(x))
    except (OverflowError, ValueError):
        pass
    return 'FLOAT:' + float(v).hex()

def _split(s, scale):
    try:
        return 'S(%s,%s)' % (_num(s.elapsed, scale), _num(s.length, scale))
    except Exception as e:
        return 'OTHER:' + type(e).__name__

def _opt(v, scale):
    return 'None' if v is None else _num(v, scale)

def _snapshot(sw, scale):
    d = getattr(sw, '__dict__', {})
    st = d.get('_state', '?')
    tag = 'N' if st is None else ('R' if st == getattr(sw, '_STARTED', 0) else ('P' if st == getattr(sw, '_STOPPED', 0) else '?%r' % (st,)))
    sp = d.get('_splits', None)
    sps = '[' + ''.join(_split(s, scale) for s in sp) + ']' if isinstance(sp, tuple) else 'OTHER:%s' % type(sp).__name__
    return '%s,%s,%s,%s,%s' % (tag, _fld(d, '_started_at', scale), _fld(d, '_stopped_at', scale), sps, _fld(d, '_duration', scale))

def _fld(d, k, scale):
    v = d.get(k, '?')
    return '?' if isinstance(v, str) else _opt(v, scale)

def _value(tu, sw, r, scale):
    if r is sw: return 'self'
    if r is None: return 'None'
    if isinstance(r, bool): return 'True' if r else 'False'
    if isinstance(r, (int, float)): return _num(r, scale)
    if isinstance(r, tu.Split): return _split(r, scale)
    if isinstance(r, tuple) and all(isinstance(s, tu.Split) for s in r): return '[' + ''.join(_split(s, scale) for s in r) + ']'
    return 'OTHER:' + type(r).__name__

def _arg(tok, scale):
    a = tok.split(':', 1)[1]
    if a == 'N': return None
    if a == 'T': return True
    if a == 'F': return False
    return float.fromhex(a) if scale == 'f' else int(a) / scale

def _call(sw, tok, scale):
    name = tok[:2]
    if name == 'st': return sw.start()
    if name == 'sp': return sw.stop()
    if name == 'rs': return sw.resume()
    if name == 'rt': return sw.restart()
    if name == 'sl': return sw.split()
    if name == 'el': return sw.elapsed(_arg(tok, scale)) if ':' in tok else sw.elapsed()
    if name == 'lo': return sw.leftover(return_none=_arg(tok, scale)) if ':' in tok else sw.leftover()
    if name == 'ex': return sw.expired()
    if name == 'hs': return sw.has_started()
    if name == 'hp': return sw.has_stopped()
    if name == 'ss': return sw.splits
    if name == 'en': return sw.__enter__()
    if name == 'xt': return sw.__exit__(*_triple(tok[3:])) if ':' in tok else sw.__exit__(None, None, None)
    raise KeyError(tok)

class BaseOnly(BaseException):
    """an exception that is not an Exception (like KeyboardInterrupt / GeneratorExit)"""

def _make_exc(kind):
    return ValueError('raised in the with body') if kind == 'V' else BaseOnly('raised in the with body')

def _triple(kind):
    try:
        raise _make_exc(kind)
    except BaseException as e:
        return type(e), e, e.__traceback__

def parse_with(tok):
    """'wV[sp/rs]' -> ('V', ['sp', 'rs'])"""
    kind = tok[1]
    inner = tok[tok.index('[') + 1:tok.rindex(']')]
    return kind, ([t for t in inner.split('/')] if inner else [])

def flat(ops):
    """the calls a history makes, one token per call (with blocks flattened)"""
    out = []
    for tok in ops:
        if tok[0] == 'w' and '[' in tok:
            kind, body = parse_with(tok)
            out.append('en'); out.extend(body); out.append('wx' if kind == 'n' else 'wx:' + kind)
        else:
            out.append(tok)
    return out

def exec_token(tu, sw, tok, scale, pos):
    """runs one token (a call, or a whole with statement) on the real object; returns the per-call canonical strings"""
    def one(t):
        before = pos[0]
        try:
            r = _value(tu, sw, _call(sw, t, scale), scale)
        except Exception as e:
            r = 'EXN:' + type(e).__name__
        return '%s;%d;%s' % (r, pos[0] - before, _snapshot(sw, scale))
    if not (tok[0] == 'w' and '[' in tok):
        return [one(tok)]
    kind, body = parse_with(tok)
    out = []
    exc = None
    mark = [pos[0], False]          # [clock position when __exit__ starts, entered?]
    try:
        with sw as x:
            mark[1] = True
            out.append('%s;%d;%s' % (_value(tu, sw, x, scale), pos[0] - mark[0], _snapshot(sw, scale)))
            for t in body:
                out.append(one(t))
            mark[0] = pos[0]
            if kind != 'n':
                exc = _make_exc(kind)
                raise exc
        res = 'None' if exc is None else 'SUPPRESSED'
    except BaseException as e:
        if not mark[1]:
            out.append('EXN:%s;%d;%s' % (type(e).__name__, pos[0] - mark[0], _snapshot(sw, scale)))
            return out
        res = 'PROP:' + kind if e is exc else 'EXN:' + type(e).__name__
    out.append('%s;%d;%s' % (res, pos[0] - mark[0], _snapshot(sw, scale)))
    return out

def _duration(d, scale, dint):
    if d is None or d == 'D': return d
    if scale == 'f':
        x = float.fromhex(d)
        return int(x) if (dint and x.is_integer() and abs(x) < 2 ** 53) else x
    return d // scale if (dint and d % scale == 0) else d / scale

def run_history(tu, d, ops, clock, scale, dint=False):
    """one history on the real class; returns the list of per-call canonical strings, or 'EXN:…' when the constructor raises"""
    pos = [0]
    readings = [float.fromhex(c) for c in clock] if scale == 'f' else [c / scale for c in clock]
    def fake_now():
        i = pos[0]; pos[0] = i + 1
        return readings[i]
    saved = tu.now
    tu.now = fake_now
    try:
        try:
            sw = tu.StopWatch() if d == 'D' else tu.StopWatch(_duration(d, scale, dint))
        except Exception as e:
            return 'EXN:' + type(e).__name__
        out = []
        for tok in ops:
            out.extend(exec_token(tu, sw, tok, scale, pos))
        return out
    finally:
        tu.now = saved

def impl(c):
    tu = _tu()
    runs = []
    for d in c['durs']:
        for clock in c['clocks']:
            h = run_history(tu, d, c['ops'], clock, 'f' if c['op'][0] == 'f' else c.get('scale', 1), c.get('dint', False))
            runs.append(h if isinstance(h, str) else '|'.join(h))
    return '#'.join(runs)

def fenc(h):
    """float.hex string -> '<m>p<e>' with value m * 2^e exactly"""
    import math
    x = float.fromhex(h)
    m, e = math.frexp(x)
    return '%dp%d' % (int(m * 2 ** 53), e - 53)

def encode(c):
    if c['op'][0] == 'f':
        durs = ','.join('N' if d is None else ('D' if d == 'D' else fenc(d)) for d in c['durs'])
        toks = []
        for t in flat(c['ops']):
            if t[:2] == 'el' and ':' in t and t[3:] != 'N': t = 'el:' + fenc(t[3:])
            toks.append(t)
        return [c['op'], durs, ','.join(toks)] + [','.join(fenc(x) for x in clock) for clock in c['clocks']]
    durs = ','.join('N' if d is None else str(d) for d in c['durs'])
    return [c['op'], durs, ','.join(flat(c['ops']))] + [','.join(map(str, clock)) for clock in c['clocks']]

def project(c, io):
    if c['op'] not in ('last', 'flast'): return io
    res = []
    for run in io.split('#'):
        res.append(run if run.startswith('EXN:') and '|' not in run and ';' not in run else (run.split('|')[-1] if run else '-'))
    return '#'.join(res)

# ----------------------------------------------------------------------------- oracle: the property, read off the call log

ALWAYS_LEGAL = {'st', 'rt', 'en', 'xt', 'wx', 'hs', 'hp', 'ss'}

class ZN:
    """numbers of the oracle, exact integers"""
    zero = 0
    parse = staticmethod(int)
    sub = staticmethod(lambda a, b: a - b)
    show = staticmethod(str)

class FN:
    """numbers of the oracle on a float clock: the clock distance is the EXACT rational difference, correctly rounded to a
    double (fractions.Fraction, no float subtraction involved) — what IEEE subtraction must return"""
    zero = 0.0
    parse = staticmethod(float.fromhex)
    @staticmethod
    def sub(a, b):
        from fractions import Fraction
        import math
        if math.isinf(a) or math.isinf(b) or math.isnan(a) or math.isnan(b): return a - b
        q = Fraction(a) - Fraction(b)
        try: return float(q)
        except OverflowError: return math.inf if q > 0 else -math.inf
    show = staticmethod(lambda x: float(x).hex())

def _parse_split(s, num=ZN):
    e, l = s[2:-1].split(',')
    return num.parse(e), num.parse(l)

def _parse_splits(s, num=ZN):
    if s == '[]': return []
    return [_parse_split('S(' + x, num) for x in s[1:-1].split('S(')[1:]]

class Ref:
    """A tiny reference computed from the call log alone: the state, the readings taken by the last (re)start and
    by the last stop, and the splits returned since.  feed() checks one call against the property statement."""
    __slots__ = ('d', 'state', 'start_r', 'stop_r', 'splits', 'pos', 'mono', 'prev_snap', 'n', 'num')

    def __init__(self, d, num=ZN):
        self.num = num
        self.d = d                  # None | number
        self.state = None           # None | 'R' | 'P'
        self.start_r, self.stop_r = (), ()
        self.splits = ()            # (elapsed, length) of the Split objects returned since the last (re)start
        self.pos = 0                # clock readings consumed so far
        self.mono = True            # ... and they never decreased
        self.prev_snap = 'N,None,None,[],%s' % ('None' if d is None else num.show(d))
        self.n = 0

    def copy(self):
        r = Ref.__new__(Ref)
        for k in Ref.__slots__: setattr(r, k, getattr(self, k))
        return r

    def key(self):
        return (self.state, self.start_r, self.stop_r, self.splits, self.pos, self.mono, self.prev_snap)

    def feed(self, clock, tok, entry):
        d, state, num = self.d, self.state, self.num
        zero = num.zero
        self.n += 1
        where = 'call %d (%s)' % (self.n, tok)
        try:
            res, ticks, snap = entry.split(';')
            ticks = int(ticks)
        except ValueError:
            return '%s: unreadable outcome %r' % (where, entry)
        pos = self.pos
        consumed = tuple(clock[pos:pos + ticks])
        for j in range(max(pos, 1), pos + ticks):
            if clock[j] < clock[j - 1]: self.mono = False
        self.pos = pos + ticks
        mono = self.mono
        start_r, stop_r, splits = self.start_r, self.stop_r, self.splits
        name = tok[:2]
        arg = tok.split(':', 1)[1] if ':' in tok else None
        # ---- legality table
        if name in ALWAYS_LEGAL: legal = True
        elif name == 'sp': legal = state is not None
        elif name == 'rs': legal = state == 'P'
        elif name == 'sl': legal = state == 'R'
        elif name in ('el', 'ex'): legal = state is not None
        elif name == 'lo': legal = state == 'R' and (d is not None or arg == 'T')
        else: return '%s: unknown call' % where
        if not legal:
            if res != 'EXN:RuntimeError': return '%s is illegal in state %s but gave %s instead of RuntimeError' % (where, state, res)
            if snap != self.prev_snap: return '%s is illegal in state %s and changed the watch: %s -> %s' % (where, state, self.prev_snap, snap)
            return None
        if res.startswith('EXN:'): return '%s is legal in state %s but raised %s' % (where, state, res[4:])
        if res.startswith('OTHER') or 'FLOAT:' in res: return '%s returned %s' % (where, res)
        # ---- the context-manager protocol: __exit__ does not swallow the exception of the with body
        if name == 'wx':
            if arg is None and res != 'None': return '%s: a with block whose body did not raise ended with %s' % (where, res)
            if arg is not None and res != 'PROP:' + arg:
                return '%s: the exception raised in the with body did not propagate out of the with statement (%s)' % (where, res)
        if name == 'xt' and res not in ('None', 'False'): return '%s: __exit__ returned %s' % (where, res)
        # ---- elapsed at this call, as the property defines it
        def elapsed_candidates():
            """admissible elapsed values (None = any non-negative value: the clock went backwards)"""
            ends = consumed if state == 'R' else stop_r
            return [(num.sub(n, s0) if num.sub(n, s0) >= zero else None) for s0 in start_r for n in ends]
        def admissible(v, f):
            """v is f(e) for an admissible elapsed value e"""
            cs = elapsed_candidates()
            if not cs: return False
            for e in cs:
                if e is None:
                    if mono: continue
                    return 'any'
                if f(e) == v: return True
            return False
        if name == 'el':
            try: v = num.parse(res)
            except ValueError: return '%s returned %s' % (where, res)
            if not v >= zero: return '%s: elapsed is negative (%s)' % (where, v)
            m = None if arg in (None, 'N') else num.parse(arg)
            if state == 'R' and not consumed: return '%s: elapsed while running did not read the clock' % where
            ok = admissible(v, lambda e: e)
            if m is not None and m >= zero and v > m: return '%s: elapsed %s exceeds the requested maximum %s' % (where, v, m)
            if m is not None and not ok:
                # above the maximum any value in 0..max(0, m) respects the statement
                cs = [e for e in elapsed_candidates() if e is not None]
                if any(e > m for e in cs) and zero <= v <= max(zero, m): ok = True
            if not ok: return '%s: elapsed %s is not the clock distance (start readings %s, %s readings %s)' % (
                where, v, list(start_r), 'now' if state == 'R' else 'stop', list(consumed if state == 'R' else stop_r))
        elif name == 'lo':
            if d is None:
                if res != 'None': return '%s: leftover(return_none=True) without duration returned %s' % (where, res)
            else:
                try: v = num.parse(res)
                except ValueError: return '%s returned %s' % (where, res)
                if not consumed: return '%s: leftover did not read the clock' % where
                ok = admissible(v, lambda e: max(zero, num.sub(d, e)))
                if ok == 'any': ok = zero <= v <= d
                if not ok: return '%s: leftover %s is not max(0, duration %s - elapsed) (start %s, now %s)' % (where, v, d, list(start_r), list(consumed))
        elif name == 'ex':
            if res not in ('True', 'False'): return '%s returned %s' % (where, res)
            if d is not None:
                if state == 'R' and not consumed: return '%s: expired while running did not read the clock' % where
                ok = admissible(res, lambda e: 'True' if e > d else 'False')
                if not ok: return '%s: expired is %s but elapsed > duration %s is not (start %s, end %s)' % (
                    where, res, d, list(start_r), list(consumed if state == 'R' else stop_r))
        elif name == 'sl':
            try: e, l = _parse_split(res, num)
            except Exception: return '%s returned %s' % (where, res)
            if not e >= zero: return '%s: split elapsed is negative' % where
            if not consumed: return '%s: split did not read the clock' % where
            ok = admissible(e, lambda x: x)
            if not ok: return '%s: split elapsed %s is not the clock distance (start %s, now %s)' % (where, e, list(start_r), list(consumed))
            if mono:
                if splits and e < splits[-1][0]: return '%s: split elapsed decreased %s -> %s under a monotonic clock' % (where, splits[-1][0], e)
                want = num.sub(e, splits[-1][0]) if splits else e
                if l != want: return '%s: split length %s is not the difference to the previous split (%s)' % (where, l, want)
            splits = splits + ((e, l),)
        elif name in ('hs', 'hp'):
            want = (state == 'R') if name == 'hs' else (state == 'P')
            if res != str(want): return '%s returned %s in state %s' % (where, res, state)
        elif name == 'ss':
            try: got = _parse_splits(res, num)
            except Exception: return '%s returned %s' % (where, res)
            if got != list(splits): return '%s: splits are %s, the splits taken since the last (re)start are %s' % (where, got, list(splits))
        # ---- transitions
        if name in ('st', 'en'):
            if state != 'R':
                if not consumed: return '%s: start did not read the clock' % where
                state, start_r, stop_r, splits = 'R', consumed, (), ()
        elif name == 'rt':
            if not consumed: return '%s: restart did not read the clock' % where
            state, start_r, stop_r, splits = 'R', consumed, (), ()
        elif name in ('sp', 'xt', 'wx'):
            if state == 'R':
                if not consumed: return '%s: %s of a running watch did not stop it (no clock reading taken)' % (where, 'stop' if name == 'sp' else '__exit__')
                state, stop_r = 'P', consumed
        elif name == 'rs':
            state = 'R'
        self.state, self.start_r, self.stop_r, self.splits = state, start_r, stop_r, splits
        # ---- the watch is in the state the state machine says, holding the splits taken since the last (re)start
        tag = snap.split(',', 1)[0]
        if tag != (state or 'N'): return '%s: the watch is in state %s, the state machine says %s' % (where, tag, state or 'N')
        try: held = _parse_splits(snap[snap.index('['):snap.rindex(']') + 1], num)
        except Exception: return '%s: unreadable splits in %s' % (where, snap)
        if held != list(splits): return '%s: the watch holds splits %s, expected %s' % (where, held, list(splits))
        self.prev_snap = snap
        return None

def check_history(d, ops, clock, log, num=ZN):
    """d: None | number; log: per-call canonical strings.  Returns None or a message."""
    ref = Ref(d, num)
    for tok, entry in zip(flat(ops), log):
        msg = ref.feed(clock, tok, entry)
        if msg: return msg
    return None

def oracle(c, io):
    runs = io.split('#')
    k = 0
    num = FN if c['op'][0] == 'f' else ZN
    for d in c['durs']:
        for clock in c['clocks']:
            run = runs[k] if k < len(runs) else ''
            k += 1
            dd = None if d in (None, 'D') else (num.parse(d) if num is FN else d)
            if num is FN: clock = [float.fromhex(x) for x in clock]
            if dd is not None and dd < 0:
                # not part of the property (constructor argument check); nothing demanded
                continue
            if run.startswith('EXN:') and ';' not in run:
                return 'StopWatch(%r) raised %s' % (d, run[4:])
            if run.startswith('HARNESS'): return run
            log = run.split('|') if run else []
            if len(log) != len(flat(c['ops'])): return 'the history made %d calls, %d expected (did __enter__ raise?): %s' % (len(log), len(flat(c['ops'])), run[:200])
            msg = check_history(dd, c['ops'], clock, log, num)
            if msg: return 'duration %r, clock %s...: %s' % (d, clock[:8], msg)
    return None

# ----------------------------------------------------------------------------- generators

MUTATORS = ['st', 'sp', 'rs', 'rt', 'sl', 'el', 'el:2', 'lo', 'lo:T', 'ex', 'en', 'xt']
OBSERVERS = ['hs', 'hp', 'ss']
DURS = [None, 0, 3, 10 ** 6]

def clock_of(pattern, n, base=100):
    out = [base]
    for i in range(n - 1):
        out.append(out[-1] + pattern[i % len(pattern)])
    return out

PATTERNS = {'zero': [0], 'tiny': [1], 'large': [1000], 'back': [4, -6, 1]}

def std_clocks(n):
    return [clock_of(p, n) for p in PATTERNS.values()]

# the context-manager protocol with a real exception: direct __exit__ calls with a triple, and real with statements
CONTEXT = ['xt:V', 'xt:B', 'wn[]', 'wV[]', 'wB[]', 'wV[sp]', 'wB[sl]', 'wn[sp/rs]', 'wV[rt/el]', 'wB[sp/st]']

def exhaustive(maxlen, alphabet=MUTATORS, must_contain=None, durs=DURS):
    width = max(len(flat([t])) for t in alphabet)
    for n in range(1, maxlen + 1):
        clocks = std_clocks(2 * n * width + 2)
        for ops in itertools.product(alphabet, repeat=n):
            if must_contain is not None and not any(t in must_contain for t in ops): continue
            # a with statement reports all its calls, so those histories are compared call by call
            yield {'op': 'last' if must_contain is None else 'run', 'scale': 1, 'durs': durs, 'ops': list(ops), 'clocks': clocks}

STEPS = [0, 0, 1, 1, 1, 2, 3, 5, 7, 1000, 10 ** 6]
BACK = [-1, -1, -2, -5, -1000]

def rand_token(rng):
    r = rng.random()
    if r < 0.62: t = rng.choice(['st', 'sp', 'rs', 'rt', 'sl', 'sl', 'el', 'lo', 'ex', 'en', 'xt'])
    elif r < 0.72: t = rng.choice(OBSERVERS)
    elif r < 0.9: t = 'el:' + rng.choice(['N', '0', '1', '2', '3', '5', '10', '1000', '1000000', '-1', '-7', str(rng.randint(0, 3000))])
    else: t = 'lo:' + rng.choice('TF')
    return t

def rand_context_token(rng):
    r = rng.random()
    if r < 0.25: return 'xt:' + rng.choice('VB')
    body = [rand_token(rng) for _ in range(rng.choice([0, 0, 1, 1, 2, 3]))]
    return 'w%s[%s]' % (rng.choice('nVVBB'), '/'.join(body))

def rand_case(rng, maxlen):
    n = rng.randint(1, maxlen)
    ops = [rand_context_token(rng) if rng.random() < 0.12 else rand_token(rng) for _ in range(n)]
    # bias: most histories start the watch early
    if rng.random() < 0.7: ops.insert(rng.randint(0, min(2, len(ops))), rng.choice(['st', 'en', 'rt']))
    scale = rng.choice([1, 1, 4, 1024])
    kind = rng.random()
    m = 2 * len(flat(ops)) + 2
    clock = [rng.choice([0, 100, 5, 10 ** 9])]
    for _ in range(m - 1):
        if kind < 0.55: s = rng.choice(STEPS)                         # monotonic
        elif kind < 0.65: s = 0
        elif kind < 0.9: s = rng.choice(STEPS + BACK)                 # mostly forward, sometimes backwards
        else: s = rng.choice(BACK + [0, 1])                           # mostly backwards
        clock.append(clock[-1] + s)
    q = rng.random()
    if q < 0.15: d = None
    elif q < 0.25: d = 'D'
    elif q < 0.3: d = rng.choice([-1, -5])
    else: d = rng.choice([0, 0, 1, 2, 3, 5, 7, 50, 1000, 1001, 10 ** 6, 10 ** 12, rng.randint(0, 3000)])
    return {'op': 'run', 'scale': scale, 'dint': rng.random() < 0.5, 'durs': [d], 'ops': ops, 'clocks': [clock]}

# ---- float clocks: arbitrary finite doubles
F_STEPS = [0.1, 0.1, 0.2, 0.3, 1e-9, 1e-9, 2.5e-7, 0.0, 1.0, 1 / 3, 3600.0, 1e-300, 5e-324, 123456.789, 1e15]
F_BASES = [0.0, 0.1, 1e15 + 0.3, 1234.5678, 4.9e-324, 1e-9, 86400.3, 2.0 ** 52 + 0.5, 1e300]
F_DURS = [0.1, 0.3, 0.25, 1e-9, 0.0, 2.0, 1e15, 0.30000000000000004, 1.1, 1e-320, 86400.0, 5.0]

def f_clock(base, steps, n):
    out = [base]
    for i in range(n - 1):
        out.append(out[-1] + steps[i % len(steps)])
    return [float(x).hex() for x in out]

F_PATTERNS = {'tenth': (0.1, [0.1]), 'absorbed': (1e15 + 0.3, [1e-9]), 'nano': (86400.3, [1e-9, 2.5e-7]),
              'back': (0.7, [0.4, -0.6, 0.1])}

def f_exhaustive(maxlen, alphabet):
    width = max(len(flat([t])) for t in alphabet)
    durs = [None, (0.3).hex(), (1e-9).hex()]
    for n in range(1, maxlen + 1):
        clocks = [f_clock(b, st, 2 * n * width + 2) for b, st in F_PATTERNS.values()]
        for ops in itertools.product(alphabet, repeat=n):
            yield {'op': 'frun', 'durs': durs, 'ops': list(ops), 'clocks': clocks}

F_MUTATORS = ['st', 'sp', 'rs', 'rt', 'sl', 'el', 'el:' + (0.15).hex(), 'lo', 'lo:T', 'ex', 'xt', 'wV[sl]']

def rand_float(rng):
    r = rng.random()
    if r < 0.5: return rng.choice(F_DURS)
    if r < 0.8: return rng.random() * 10 ** rng.randint(-12, 12)
    import struct
    while True:
        x = struct.unpack('<d', struct.pack('<Q', rng.getrandbits(64) & 0x7FFFFFFFFFFFFFFF))[0]
        if x == x and x != float('inf') and x < 1e300: return x

def rand_float_case(rng, maxlen):
    n = rng.randint(1, maxlen)
    ops = []
    for _ in range(n):
        t = rand_context_token(rng) if rng.random() < 0.1 else rand_token(rng)
        if t[:3] == 'el:' and t[3:] != 'N':
            m = rand_float(rng)
            if rng.random() < 0.15: m = -m
            t = 'el:' + (float(m) + 0.0).hex()          # + 0.0: never -0.0 (its sign is not transported to the model)
        ops.append(t)
    # composite tokens carry their own random bodies: rewrite el:<int> inside them too
    def fix(tok):
        if tok[0] == 'w' and '[' in tok:
            kind, body = parse_with(tok)
            body = [('el:' + float(rand_float(rng)).hex()) if (b[:3] == 'el:' and b[3:] != 'N') else b for b in body]
            return 'w%s[%s]' % (kind, '/'.join(body))
        return tok
    ops = [fix(t) for t in ops]
    if rng.random() < 0.7: ops.insert(rng.randint(0, min(2, len(ops))), rng.choice(['st', 'en', 'rt']))
    m = 2 * len(flat(ops)) + 2
    kind = rng.random()
    x = rng.choice(F_BASES) if rng.random() < 0.7 else rand_float(rng)
    clock = [x]
    for _ in range(m - 1):
        st = rng.choice(F_STEPS) if rng.random() < 0.8 else rand_float(rng) * 1e-3
        if kind > 0.75 and rng.random() < 0.35: st = -st              # a clock that sometimes goes backwards
        nx = clock[-1] + st
        if nx != nx or nx in (float('inf'), float('-inf')): nx = clock[-1]
        clock.append(nx)
    q = rng.random()
    if q < 0.15: d = None
    elif q < 0.22: d = 'D'
    elif q < 0.26: d = (-rand_float(rng) + 0.0).hex() if rng.random() < 0.5 else (-0.5).hex()
    else: d = float(rand_float(rng)).hex()
    return {'op': 'frun', 'dint': rng.random() < 0.3, 'durs': [d], 'ops': ops, 'clocks': [[(float(v) + 0.0).hex() for v in clock]]}

def gen_cases(rng, tier):
    # boundary histories first
    yield {'op': 'run', 'scale': 1, 'durs': DURS + ['D'], 'ops': [], 'clocks': std_clocks(2)}
    yield from exhaustive(4 if tier == 'quick' else 5)
    ctx = CONTEXT[:7] if tier == 'quick' else CONTEXT
    yield from exhaustive(3, MUTATORS + ctx, must_contain=set(ctx), durs=[None, 3] if tier == 'quick' else DURS)
    for _ in range(3000 if tier == 'quick' else 60000):
        yield rand_case(rng, 40)
    for _ in range(100 if tier == 'quick' else 2000):
        yield rand_case(rng, 400)
    # the binary64 instance of the model on arbitrary finite doubles
    yield from f_exhaustive(3 if tier == 'quick' else 4, F_MUTATORS)
    for _ in range(1500 if tier == 'quick' else 40000):
        yield rand_float_case(rng, 30)
    for _ in range(40 if tier == 'quick' else 800):
        yield rand_float_case(rng, 300)

FULL_ALPHABET = MUTATORS + OBSERVERS + ['el:N', 'lo:F'] + CONTEXT

def explore(tu, d, clock, depth, alphabet=FULL_ALPHABET):
    """Every call sequence of length <= depth over the alphabet, checked against the property (Ref), by exhaustive
    exploration of the configuration graph: two histories that leave the object with the same __dict__, the clock at the
    same position and the reference in the same state have the same futures, so one representative is continued.
    Returns (failing path | None, message | None, configurations visited, sequences covered)."""
    import copy
    pos = [0]
    readings = [float(c) for c in clock]
    def fake_now():
        i = pos[0]; pos[0] = i + 1
        return readings[i]
    saved = tu.now
    tu.now = fake_now
    try:
        sw0 = tu.StopWatch() if d == 'D' else tu.StopWatch(d)
        dd = None if d in (None, 'D') else d
        level = {0: (sw0, 0, Ref(dd), [])}
        visited, covered, width = 1, 0, 1
        for n in range(depth):
            nxt = {}
            width *= len(alphabet)
            covered += width
            for sw, p0, ref, path in level.values():
                for tok in alphabet:
                    sw2 = copy.copy(sw)
                    pos[0] = p0
                    entries = exec_token(tu, sw2, tok, 1, pos)
                    ref2 = ref.copy()
                    ftoks = flat([tok])
                    msg = None
                    if len(entries) != len(ftoks): msg = 'the with statement made %d calls, %d expected: %s' % (len(entries), len(ftoks), entries)
                    for ft, entry in zip(ftoks, entries):
                        msg = msg or ref2.feed(clock, ft, entry)
                    if msg: return path + [tok], msg, visited, covered
                    key = (repr(sorted(sw2.__dict__.items(), key=lambda kv: kv[0])), pos[0], ref2.key())
                    if key not in nxt: nxt[key] = (sw2, pos[0], ref2, path + [tok])
            level = nxt
            visited += len(level)
        return None, None, visited, covered
    finally:
        tu.now = saved

BASE_ALPHABET = MUTATORS + OBSERVERS + ['el:N', 'lo:F']

def extra_checks(rng, tier):
    tu = _tu()
    plans = [('plain', BASE_ALPHABET, 6 if tier == 'quick' else 10), ('context', FULL_ALPHABET, 4 if tier == 'quick' else 6)]
    for label, alphabet, depth in plans:
        width = max(len(flat([t])) for t in alphabet)
        for d in DURS + ['D']:
            for pname, pat in PATTERNS.items():
                clock = clock_of(pat, 2 * depth * width + 2)
                path, msg, visited, covered = explore(tu, d, clock, depth, alphabet)
                case = {'op': 'run', 'scale': 1, 'durs': [d], 'ops': path or [], 'clocks': [clock]}
                yield ('all-%s-sequences-upto-%d:%s' % (label, depth, pname), case,
                       None if msg is None else 'duration %r, clock %s: %s' % (d, pname, msg))

def classify(c, io):
    if c['op'][0] == 'f':
        if len(c['durs']) > 1: return 'float-exhaustive:len%d' % len(c['ops'])
        clock = [float.fromhex(x) for x in c['clocks'][0]]
        return 'float-random:%s' % ('monotonic' if all(a <= b for a, b in zip(clock, clock[1:])) else 'backwards')
    if len(c['durs']) > 1: return 'exhaustive%s:len%d' % ('' if c['op'] == 'last' else '-context', len(c['ops']))
    clock = c['clocks'][0]
    mono = all(a <= b for a, b in zip(clock, clock[1:]))
    d = c['durs'][0]
    return 'random:%s:%s' % ('monotonic' if mono else 'backwards', 'no-duration' if d in (None, 'D') else ('negative-duration' if d < 0 else 'duration'))

def trivial(c, io):
    return not c['ops']

def search(rng, budget):
    yield from exhaustive(3, MUTATORS + CONTEXT, must_contain=set(CONTEXT))
    yield from exhaustive(4)
    yield from f_exhaustive(2, F_MUTATORS)
    for _ in range(budget):
        yield rand_case(rng, 30)
        yield rand_float_case(rng, 20)

RULE = ('correspondence + oracle: every call sequence of length 1..4 (quick) / 1..5 (thorough) over the 12 state-touching calls {start, stop, '
        'resume, restart, split, elapsed(), elapsed(2), leftover(), leftover(return_none=True), expired, __enter__, __exit__} x durations '
        '{None, 0, 3, 10^6} x clocks {step 0, +1, +1000, backwards cycle +4,-6,+1}; every sequence of length 1..3 over those 12 plus 10 '
        'context-manager tokens (direct __exit__ with the triple of a real ValueError / BaseException-only exception; real `with sw:` '
        'statements with bodies of 0-2 calls that end normally or raise either class) containing at least one of the latter; random histories of length <= 40 and <= 400 over the full '
        'alphabet incl. has_started/has_stopped/splits, maxima incl. negative ones, durations incl. default/None/negative/10^12, dyadic '
        'scales {1, 1/4, 1/1024}, monotonic, constant, mixed and mostly-backwards clocks.  Oracle only (extra check all-sequences-upto-n): '
        'EVERY sequence of length <= 6 (quick) / <= 10 (thorough) over the 17 plain tokens, and of length <= 4 / <= 6 over all 27 tokens '
        '(incl. the 10 context-manager tokens), x durations {None, default, 0, 3, 10^6} x '
        'the 4 clocks, by exhaustive exploration of the configuration graph (histories leaving the object with equal __dict__, clock '
        'position and reference state are continued once).  binary64 instance (ops frun): every sequence of length 1..3 (quick) / 1..4 over 12 '
        'calls x durations {None, 0.3, 1e-9} x float clocks {+0.1 steps, 1e15+0.3 with absorbed 1e-9 steps, 86400.3 with 1e-9 / 2.5e-7 steps, '
        'backwards}; random float histories (<= 30 and <= 300 calls) with readings/durations/maxima drawn from non-dyadic constants, '
        'x * 10^k, and uniformly random finite bit patterns, steps incl. 5e-324, 1e-300, 1e15; compared bit-exactly (float.hex).  '
        'distinct = distinct case JSON; trivial = empty history')
TRUSTED = ['timeutils.now is replaced by a scripted clock (the property fixes the clock as an input)',
           'tools/gen/gen_C13.py: statement-level translator of class StopWatch (A-normal form, explicit state threading, state kept on raise), '
           'generic in the number type: 0.0, -, >, >=, max/min are the only numeric operations it emits',
           'Base/PyFloat.v: binary64 on the standard library\'s SpecFloat (SFsub, SFltb, SFleb, binary_normalize, float.hex printer), tied to CPython '
           'bit-exactly by the float correspondence of this property; Flocq 4.1 (Bminus_correct, Bleb_correct, round_le) for the monotonicity of float '
           'subtraction: the 4 theorems that use it print the standard library\'s classical-reals axioms (sig_forall_dec, sig_not_dec, classic, '
           'functional_extensionality_dep), all other theorems are closed under the global context']
ASSUMPTIONS = ['all-*-sequences-upto-n explores configurations, not sequences: it relies on a StopWatch\'s behaviour being a function of its '
               '__dict__ and of the clock position (no hidden state)',
               'the exact clauses (elapsed = now - started_at, lengths = successive differences) are theorems of every totally ordered abelian group '
               '(Z is the instance tied to the implementation through dyadic clocks, where float arithmetic is exact); on arbitrary doubles they '
               'hold with the IEEE subtraction in place of the exact one — that is what the code computes (theorems C13_float_*, model instance Fnum, '
               'tied bit-exactly to the implementation on arbitrary finite doubles)',
               'float inputs of the harness are finite doubles, never -0.0 (its sign is not transported to the model); NaN / infinite readings are '
               'covered by the theorems (elapsed is never negative nor NaN for ANY readings) but not scripted',
               'the oracle accepts, for a call that reads the clock more than once, any of the readings as "now" (restart reads it twice); on a float '
               'clock its expected distance is the exact rational difference correctly rounded (fractions.Fraction), not a float subtraction',
               'thread-safety is out of scope (the class documents itself as not thread-safe)']
LEVEL_TEXT = ('Unbounded theorems (induction over all call sequences of any length and all clock streams), generic in the number type T of the clock '
              '(operations 0.0, -, >, >=), about a model of StopWatch proved equal for every T, method by method (16 gen_*_equiv obligations), to a '
              'statement-level translation of the class regenerated from the source on every run. For every T, no premise: the full legality table '
              '(14 calls x 3 states), illegal calls raise RuntimeError and leave watch and clock untouched, legal calls return, no other exception, '
              'state transitions, which call sets _started_at / _stopped_at (history-wise: last (re)start / last stop), splits appended by split and '
              'cleared exactly by (re)starts, elapsed = max(0, now - started_at) resp. max(0, stopped_at - started_at) cut at the maximum, leftover, '
              'expired, clock readings per call, the context-manager protocol (__exit__ with an exception triple; any with block leaves the watch '
              'stopped). For every totally ordered abelian group (premises = the group axioms; Z is the instance): never negative, exactly now - '
              'started_at under a monotonic clock, <= a non-negative maximum (the literal clause for negative maxima is refuted), leftover = max(0, '
              'duration - elapsed), expired <-> elapsed > duration, splits non-decreasing with lengths = successive differences. For binary64 '
              '(SpecFloat; executable instance tied bit-exactly to the implementation on arbitrary finite doubles): never negative nor NaN for ANY '
              'readings, elapsed(maximum) <= maximum, leftover >= 0, expired <-> elapsed > duration as float comparison, and on valid finite monotone '
              'readings without overflow now (-) started_at >= 0 and split elapsed values never decrease (IEEE subtraction is monotone); the exact '
              'clauses hold with the IEEE subtraction in place of the exact one.')
LEVEL_NOTE = ('Trusted: Coq kernel; the translator tools/gen/gen_C13.py (CPython ast; A-normal form, state kept on raise, fail-closed with baseline '
              'fallback); Base/PyFloat.v (binary64 on SpecFloat) and Flocq for float monotonicity; timeutils.now is an input (scripted clock); '
              'thread-safety out of scope. Correspondence compares every return value, exception class, number of now() calls and the five private '
              'fields after every call, for the Z instance (dyadic clocks) and the binary64 instance (arbitrary doubles, float.hex). 58 theorems closed '
              'under the global context; the 4 float-monotonicity theorems list the standard library\'s classical-reals axioms that Flocq rests on.')
