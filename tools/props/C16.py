"""C16 — text coding helpers (oslo_utils/encodeutils.py) and to_slug (oslo_utils/strutils.py)"""
import sys, os, codecs, unicodedata
import gen_C16

ID = 'C16'
GEN = [('Gen/C16_Slug.v', gen_C16.generate_slug), ('Gen/C16_Code.v', gen_C16.generate_code),
       ('Gen/C16_Fold.v', gen_C16.generate_fold), ('Gen/C16_Aliases.v', gen_C16.generate_aliases),
       ('Gen/C16_Charmaps.v', gen_C16.generate_charmaps)]
EQUIV_FILES = ['Proofs/C16.v']
EXTRACT = 'Extract/C16_x.v'

# ------------------------------------------------------------------ the implementation under test

def _mods():
    from oslo_utils import encodeutils, strutils
    return encodeutils, strutils

class _Stdin:
    def __init__(self, enc): self.encoding = enc

class _StdinNoAttr:
    """a replaced sys.stdin without an `encoding` attribute (e.g. a plain file-like object)"""

NOATTR, NOSTDIN = '<no-encoding-attribute>', '<sys.stdin is None>'

def _with_stdin(enc, f):
    """run f() in an environment where `getattr(sys.stdin, 'encoding', None)` is enc:
    a str, None (attribute is None), NOATTR (object without the attribute), NOSTDIN (sys.stdin = None)"""
    old = sys.stdin
    sys.stdin = None if enc == NOSTDIN else _StdinNoAttr() if enc == NOATTR else _Stdin(enc)
    try: return f()
    finally: sys.stdin = old

def resolved_default(enc):
    """what the source computes: getattr(sys.stdin, 'encoding', None) or sys.getdefaultencoding()"""
    return (enc if enc not in (None, NOATTR, NOSTDIN) else None) or sys.getdefaultencoding()

OTHERS = {
    'none': lambda: None, 'int': lambda: 0, 'int1': lambda: 1, 'float': lambda: 1.5, 'list': lambda: [], 'tuple': lambda: ('a',),
    'dict': lambda: {}, 'bytearray': lambda: bytearray(b'abc'), 'memoryview': lambda: memoryview(b'abc'), 'object': lambda: object(),
    'bool': lambda: True, 'set': lambda: set(), 'type': lambda: str, 'exc': lambda: ValueError('x'),
}

def val(v):
    """case value {'t': 's'|'b'|'o', 'v': ...} -> Python object"""
    if v['t'] == 's': return v['v']
    if v['t'] == 'b': return bytes.fromhex(v['v'])
    return OTHERS[v['v']]()

def S(s): return {'t': 's', 'v': s}
def B(b): return {'t': 'b', 'v': bytes(b).hex()}
def O(n): return {'t': 'o', 'v': n}

def canon(x):
    if isinstance(x, bytes) and type(x) is bytes: return 'b:' + x.decode('latin-1')
    if isinstance(x, str) and type(x) is str: return 's:' + x
    return 'o:' + type(x).__name__

def call(f):
    try: return canon(f())
    except Exception as e: return 'EXN:' + type(e).__name__

def pair(a, b):
    """two results in one string: <len(a)>|<a><b>"""
    return '%d|%s%s' % (len(a), a, b)

def unpair(io):
    n, rest = io.split('|', 1)
    return rest[:int(n)], rest[int(n):]

def kw(c, *names):
    """keyword arguments present in the case (absent = the default written in the source)"""
    return {n: c[n] for n in names if n in c}

def impl(c):
    eu, su = _mods()
    op = c['op']
    if op == 'safe_decode':
        return _with_stdin(c.get('stdin'), lambda: call(lambda: eu.safe_decode(val(c['value']), **kw(c, 'incoming', 'errors'))))
    if op == 'safe_encode':
        return _with_stdin(c.get('stdin'), lambda: call(lambda: eu.safe_encode(val(c['value']), **kw(c, 'incoming', 'encoding', 'errors'))))
    if op == 'roundtrip':
        def f():
            try: b = eu.safe_encode(c['text'], encoding=c['encoding'], errors=c['errors'])
            except Exception as e: return 'EXN:' + type(e).__name__
            return pair(canon(b), call(lambda: eu.safe_decode(b, incoming=c['encoding'], errors=c['errors'])))
        return _with_stdin(c.get('stdin'), f)
    if op == 'to_utf8':
        return _with_stdin(c.get('stdin'), lambda: call(lambda: eu.to_utf8(val(c['value']))))
    if op == 'to_slug':
        def f():
            r = call(lambda: su.to_slug(val(c['value']), **kw(c, 'incoming', 'errors')))
            if r.startswith('s:'):
                return pair(r, call(lambda: su.to_slug(r[2:])))
            return r
        return _with_stdin(c.get('stdin'), f)
    # the runtime itself (ties the concrete codec / lookup / fold models to CPython)
    if op == 'enc': return call(lambda: c['text'].encode(c['codec'], c['errors']))
    if op == 'dec': return call(lambda: bytes.fromhex(c['data']).decode(c['codec'], c['errors']))
    if op == 'lookup':
        try: return codecs.lookup(c['name']).name
        except LookupError: return 'EXN:LookupError'
    if op == 'fold':
        return unicodedata.normalize('NFKD', c['text']).encode('ascii', 'ignore').decode('ascii')
    raise KeyError(op)

# ------------------------------------------------------------------ what the Coq model covers

MODELLED = ('utf-8', 'iso8859-1', 'ascii', 'utf-16', 'utf-16-le', 'utf-16-be', 'utf-32', 'utf-32-le', 'utf-32-be', 'cp1252', 'koi8-r')
POLICIES = ('strict', 'ignore', 'replace')
REGISTERED_UNMODELLED = ('xmlcharrefreplace', 'backslashreplace', 'namereplace', 'surrogateescape', 'surrogatepass')

def name_modelled(name):
    if name is None: return True
    if not name.isascii() or '\x00' in name: return False
    try: n = codecs.lookup(name).name
    except LookupError: return True
    return n in MODELLED

def errors_modelled(e):
    return e is None or (e.isascii() and e not in REGISTERED_UNMODELLED)

def opt(x):  return ['n', ''] if x is None else ['s', x]
def dfl(x):  return ['d', ''] if x is None else ['s', x]
def pv(v):
    if v['t'] == 's': return ['s', v['v']]
    if v['t'] == 'b': return ['b', bytes.fromhex(v['v'])]
    return ['o', '']

def encode(c):
    op = c['op']
    d = resolved_default(c.get('stdin'))
    if op in ('safe_decode', 'to_slug'):
        inc = c.get('incoming')
        if c['value']['t'] == 'b' and not (name_modelled(inc or d) and name_modelled('utf-8')): return None
        if not errors_modelled(c.get('errors')): return None
        return [op, d] + pv(c['value']) + opt(inc) + dfl(c.get('errors'))
    if op == 'safe_encode':
        inc = c.get('incoming'); enc = c.get('encoding')
        v = c['value']
        if not errors_modelled(c.get('errors')): return None
        if v['t'] == 's' and not name_modelled(enc): return None
        if v['t'] == 'b' and v['v'] != '':
            i = (inc or d).lower(); e = (enc if enc is not None else 'utf-8').lower()
            if i != e and not (name_modelled(i) and name_modelled(e) and i.isascii() and e.isascii()): return None
        if not ((inc or d).isascii() and (enc or '').isascii()): return None   # str.lower() of non-ASCII names: not sent
        return [op, d] + pv(v) + opt(inc) + dfl(enc) + dfl(c.get('errors'))
    if op == 'roundtrip':
        if not (name_modelled(c['encoding']) and errors_modelled(c['errors'])): return None
        return [op, d, c['text'], c['encoding'], c['errors']]
    if op == 'to_utf8':
        return [op] + pv(c['value'])
    if op == 'enc':
        if not (name_modelled(c['codec']) and errors_modelled(c['errors'])): return None
        return [op, c['codec'], c['text'], c['errors']]
    if op == 'dec':
        if not (name_modelled(c['codec']) and errors_modelled(c['errors'])): return None
        return [op, c['codec'], bytes.fromhex(c['data']), c['errors']]
    if op == 'lookup':
        if not name_modelled(c['name']): return None
        return [op, c['name']]
    if op == 'fold':
        return [op, c['text']]
    return None

def project(c, io):
    if c['op'] == 'to_slug' and not io.startswith('EXN:'): return unpair(io)[0]
    return io

# ------------------------------------------------------------------ the property, stated on the implementation

SLUG_OK = set('abcdefghijklmnopqrstuvwxyz0123456789_-')

def _try(f):
    try: return ('ok', f())
    except Exception as e: return ('exn', type(e).__name__)

def surrogate_free(t):
    return not any('\ud800' <= ch <= '\udfff' for ch in t)

# codecs for which the round-trip / contract clauses are demanded: the families the property lists, plus utf-7 and
# utf-8-sig (checked on 2.4 M surrogate-free texts).  Other codecs of the running CPython are outside the statement:
# idna / punycode normalise the text, *_escape and the bytes-to-bytes codecs are not text encodings in the property's sense.
CONTRACT_CODECS = {'utf-8', 'utf-16', 'utf-16-le', 'utf-16-be', 'utf-32', 'utf-32-le', 'utf-32-be', 'iso8859-1', 'ascii',
                   'cp1252', 'shift_jis', 'koi8-r', 'utf-7', 'utf-8-sig'}

def in_statement(text, name):
    """the property quantifies over SURROGATE-FREE text (lone surrogates are encodable by utf-7 and come back combined)
    and over the codecs above"""
    if not surrogate_free(text): return False
    try: return codecs.lookup(name).name in CONTRACT_CODECS
    except LookupError: return False

def contract_msgs(text, name, errors):
    """the codec contracts the theorems assume, on one (surrogate-free text, codec name, errors) triple"""
    msgs = []
    if not in_statement(text, name): return msgs
    try:
        ci = codecs.lookup(name)
    except LookupError:
        return msgs
    if name.isascii():
        r = _try(lambda: codecs.lookup(name.lower()).name)
        if r != ('ok', ci.name): msgs.append('contract: codec lookup of %r depends on letter case' % name)
        r = _try(lambda: codecs.lookup(name.upper()).name)
        if r != ('ok', ci.name): msgs.append('contract: codec lookup of %r depends on letter case' % name)
    if _try(lambda: codecs.decode(b'', name)) != ('ok', ''):
        msgs.append('contract: %s does not decode empty bytes to the empty text' % name)
    s = _try(lambda: text.encode(name))
    if s[0] == 'ok':
        b = s[1]
        if errors is not None and _try(lambda: text.encode(name, errors)) != s:
            msgs.append('contract: %s encoder consults the error handler %r without an error' % (name, errors))
        dd = _try(lambda: b.decode(name))
        if dd != ('ok', text):
            msgs.append('contract: %s does not decode its own strict encoding of %r' % (name, text))
        elif errors is not None and _try(lambda: b.decode(name, errors)) != dd:
            msgs.append('contract: %s decoder consults the error handler %r without an error' % (name, errors))
    return msgs

def oracle(c, io):
    op = c['op']
    if io.startswith('HARNESS-ERROR'): return io
    if op in ('safe_decode', 'safe_encode', 'to_utf8', 'to_slug') and c['value']['t'] == 'o':
        return None if io == 'EXN:TypeError' else '%s(%s) gives %s, TypeError expected' % (op, c['value']['v'], io)
    d = resolved_default(c.get('stdin'))
    if op == 'safe_decode':
        v = val(c['value']); errors = c['errors'] if 'errors' in c else 'strict'
        if isinstance(v, str):
            if not surrogate_free(v): return None      # outside the statement's quantifier; the model correspondence covers it
            return None if io == 's:' + v else 'safe_decode of a str gives %r' % io
        inc = c.get('incoming') or d
        first = _try(lambda: v.decode(inc, errors))
        if first[0] == 'ok':
            return None if io == 's:' + first[1] else 'safe_decode(%r, %r, %r) gives %r, bytes.decode gives %r' % (v, inc, errors, io, first[1])
        if first[1] == 'UnicodeDecodeError':
            second = _try(lambda: v.decode('utf-8', errors))
            if second[0] == 'ok':
                return None if io == 's:' + second[1] else 'safe_decode(%r, %r, %r) gives %r, the UTF-8 fallback gives %r' % (v, inc, errors, io, second[1])
        if not io.startswith('EXN:'): return 'safe_decode(%r, %r, %r) gives %r although neither %s nor UTF-8 decodes it' % (v, inc, errors, io, inc)
        return None
    if op == 'safe_encode':
        v = val(c['value']); errors = c['errors'] if 'errors' in c else 'strict'
        enc = c['encoding'] if c.get('encoding') is not None else 'utf-8'
        if isinstance(v, str):
            if io.startswith('s:') or io.startswith('o:'): return 'safe_encode of a str returns a %s' % io[:1]
            msgs = contract_msgs(v, enc, errors)
            return msgs[0] if msgs else None
        inc = c.get('incoming') or d
        if inc.lower() == enc.lower():
            return None if io == canon(v) else 'safe_encode(%r, incoming=%r, encoding=%r) gives %r, expected the bytes untouched' % (v, inc, enc, io)
        t = _try(lambda: v.decode(inc, errors))
        if t[0] == 'ok':
            b = _try(lambda: t[1].encode(enc, errors))
            if b[0] == 'ok':
                return None if io == canon(b[1]) else 'safe_encode(%r, incoming=%r, encoding=%r, errors=%r) gives %r, transcoding gives %r' % (v, inc, enc, errors, io, b[1])
        if io.startswith('s:') or io.startswith('o:'): return 'safe_encode of bytes returns a %s' % io[:1]
        return None
    if op == 'roundtrip':
        t, e, errors = c['text'], c['encoding'], c['errors']
        msgs = contract_msgs(t, e, errors)
        s = _try(lambda: t.encode(e))
        if s[0] == 'ok' and in_statement(t, e):
            if io.startswith('EXN:'): return 'safe_encode(%r, encoding=%r, errors=%r) gives %s although %s can represent the text' % (t, e, errors, io, e)
            a, b = unpair(io)
            if not a.startswith('b:'): return 'safe_encode of a str returns a %s' % a[:1]
            if b != 's:' + t: return 'safe_decode(safe_encode(%r, encoding=%r), incoming=%r) gives %r' % (t, e, e, b)
        return msgs[0] if msgs else None
    if op == 'to_utf8':
        v = val(c['value'])
        if isinstance(v, bytes):
            return None if io == canon(v) else 'to_utf8(%r) gives %r with sys.stdin.encoding = %r; bytes must come back unchanged' % (v, io, c.get('stdin'))
        if not surrogate_free(v): return None     # outside the quantifier (the model correspondence covers it)
        w = _try(lambda: v.encode('utf-8'))
        if w[0] == 'ok':
            return None if io == canon(w[1]) else 'to_utf8(%r) gives %r, UTF-8 is %r' % (v, io, w[1])
        return None if io.startswith('EXN:') else 'to_utf8(%r) gives %r although UTF-8 cannot encode it' % (v, io)
    if op == 'to_slug':
        if io.startswith('EXN:'): return None
        if c['value']['t'] == 's' and not surrogate_free(c['value']['v']): return None   # outside the quantifier
        a, b = unpair(io)
        if not a.startswith('s:'): return 'to_slug returns a %s' % a[:1]
        out = a[2:]
        bad = [ch for ch in out if ch not in SLUG_OK]
        if bad: return 'to_slug(%r) = %r contains %r' % (val(c['value']), out, bad[0])
        if '--' in out: return 'to_slug(%r) = %r contains a double hyphen' % (val(c['value']), out)
        if b != a: return 'to_slug is not idempotent on %r: %r then %r' % (val(c['value']), out, b)
        return None
    if op in ('enc', 'dec'):
        # the concrete codec models only make sense if CPython keeps the contracts they are proved to have
        if op == 'enc':
            msgs = contract_msgs(c['text'], c['codec'], c['errors'])
            return msgs[0] if msgs else None
        return None
    if op == 'fold':
        t = c['text']
        if not io.isascii(): return 'contract: NFKD/ASCII fold of %r is not ASCII' % t
        per = ''.join(unicodedata.normalize('NFKD', ch).encode('ascii', 'ignore').decode('ascii') for ch in t)
        if per != io: return 'contract: NFKD/ASCII fold of %r is not the concatenation of the per-character residues' % t
        if t.isascii() and io != t: return 'contract: NFKD/ASCII fold changes the ASCII text %r' % t
        return None
    return None

def zone(c):
    op = c['op']
    if op in ('roundtrip', 'enc') or (op == 'safe_encode' and c['value']['t'] == 's'):
        name = c.get('encoding') if op != 'enc' else c['codec']
        text = c['text'] if op != 'safe_encode' else c['value']['v']
        try: n = codecs.lookup(name if name is not None else 'utf-8').name
        except LookupError: return None
        s = _try(lambda: text.encode(n))
        if s[0] == 'ok' and _try(lambda: s[1].decode(n)) != ('ok', text) and n.startswith('shift_jis') and ('\xa5' in text or '‾' in text):
            return 'sjis-yen'
    if op == 'safe_encode' and c['value']['t'] == 'b' and c['value']['v'] == '':
        enc = c['encoding'] if c.get('encoding') is not None else 'utf-8'
        if _try(lambda: ''.encode(enc)) not in (('ok', b''),) and _try(lambda: ''.encode(enc))[0] == 'ok':
            return 'empty-bom'
    return None

def classify(c, io):
    op = c['op']
    k = op
    if 'value' in c: k += ':' + c['value']['t']
    if io.startswith('EXN:'): k += ':' + io[4:]
    return k

# ------------------------------------------------------------------ generators

ENC_NAMES = {
    'utf-8': ['utf-8', 'utf8', 'UTF-8', 'utf_8', 'U8', 'UTF', 'utf 8', 'Utf-8', 'cp65001', '-utf-8-', 'utf--8'],
    'utf-16': ['utf-16', 'UTF-16', 'utf16', 'u16', 'utf_16', 'UTF-16LE', 'utf-16-be'],
    'utf-32': ['utf-32', 'UTF-32', 'utf32', 'U32', 'utf-32-le', 'UTF_32_BE'],
    'latin-1': ['latin-1', 'latin1', 'Latin-1', 'ISO-8859-1', 'iso8859-1', 'iso_8859_1', 'L1', 'latin', 'cp819', 'iso-ir-100', 'ISO_8859-1:1987', '8859'],
    'ascii': ['ascii', 'ASCII', 'us-ascii', 'US_ASCII', '646', 'ansi_x3.4-1968', 'ANSI_X3.4-1968', 'iso646-us', 'us', 'cp367'],
    'cp1252': ['cp1252', 'CP1252', 'windows-1252', 'Windows_1252', '1252'],
    'shift_jis': ['shift_jis', 'Shift_JIS', 'sjis', 'SJIS', 'shiftjis', 's_jis', 'csshiftjis'],
    'koi8-r': ['koi8-r', 'KOI8-R', 'koi8_r', 'cskoi8r'],
}
FAMILIES = list(ENC_NAMES)
BAD_NAMES = ['nope', '', 'utf-9', 'utf.8', 'latin.1', 'utf-8.', '.', '_', 'ansi.x3.4.1968', 'ascii ascii', 'utf8 ', ' latin1', 'aliases', 'utf-8-sig', 'utf_7']

def mixcase(rng, s):
    r = rng.random()
    if r < 0.3: return s
    if r < 0.4: return s.upper()
    if r < 0.5: return s.lower()
    return ''.join(ch.upper() if rng.random() < 0.5 else ch.lower() for ch in s)

def rand_name(rng, fam=None):
    r = rng.random()
    if fam is None and r < 0.08: return mixcase(rng, rng.choice(BAD_NAMES))
    fam = fam or rng.choice(FAMILIES)
    return mixcase(rng, rng.choice(ENC_NAMES[fam]))

POOLS = {
    'ascii': 'abcxyzABCXYZ019_-- \t\n.,!?/\\~^`\x00\x7f\x1c\x1f\x0b\x0c\r',
    'latin1': '\x80\x85\xa0\xa5\xa9\xb5\xbc\xc0\xc9\xd7\xdf\xe9\xf1\xfc\xff\xad\xb2',
    'fold': 'İıſKÅﬁﬃǄǅẞßŉΣςΩＡａ０①Ⅸ½⁵㎒ᴬ℀ﷺ㎧',
    'greekcyr': 'ΑαωАЯаяёЁ№─',
    'cjk': 'あアカｶﾟ日本語一龥　、～〜―∥￥‾¥',
    'combining': '̣́̀̇̈⃗ͅि゙᪰',
    'bmp-edge': '߿ࠀ퟿﻿�￾￿  ​­€™ŒŸ',
    'astral': '\U00010000\U0001f600\U0001d400\U0001d7d8\U0001f1e6\U00020000\U0010ffff\U000e0041\U0001f130\U0001d552',
    'space': ' \t\n\x0b\x0c\r\x1c\x1d\x1e\x1f\x85\xa0       　',
}
POOL_NAMES = list(POOLS)
FAMILY_POOLS = {'utf-8': POOL_NAMES, 'utf-16': POOL_NAMES, 'utf-32': POOL_NAMES, 'latin-1': ['ascii', 'latin1'], 'ascii': ['ascii'],
                'cp1252': ['ascii', 'latin1', 'bmp-edge'], 'shift_jis': ['ascii', 'cjk'], 'koi8-r': ['ascii', 'greekcyr']}

def rand_text(rng, pools=None, maxlen=12, surrogates=0.03):
    pools = pools or POOL_NAMES
    n = rng.choice([0, 1, 1, 2, 3, 5, 8, maxlen])
    out = []
    for _ in range(n):
        r = rng.random()
        if r < surrogates: out.append(chr(rng.choice([0xd800, 0xdbff, 0xdc00, 0xdfff, 0xd83d])))
        elif r < 0.12: out.append(chr(rng.choice([0, 0x7f, 0x80, 0xff, 0x100, 0x7ff, 0x800, 0xffff, 0x10000, 0x10ffff, 0xd7ff, 0xe000])))
        elif r < 0.2:
            x = rng.randrange(0x110000)
            out.append(chr(x if not 0xd800 <= x <= 0xdfff else 0x41))
        else: out.append(rng.choice(POOLS[rng.choice(pools)]))
    return ''.join(out)

def rand_text_for(rng, fam):
    """mostly representable in the family, sometimes anything"""
    if rng.random() < 0.8: return rand_text(rng, FAMILY_POOLS[fam], surrogates=0.0 if rng.random() < 0.9 else 0.05)
    return rand_text(rng)

MALFORMED_UTF8 = [b'\x80', b'\xbf', b'\xc0\x80', b'\xc1\xbf', b'\xc2', b'\xc2\x41', b'\xe0\x80\x80', b'\xe0\x9f\xbf', b'\xe0\xa0', b'\xe0\xa0\x41',
                  b'\xed\xa0\x80', b'\xed\xbf\xbf', b'\xed\x9f\xbf', b'\xee\x80\x80', b'\xef\xbf', b'\xf0\x80\x80\x80', b'\xf0\x8f\xbf\xbf', b'\xf0\x90\x80',
                  b'\xf0\x90\x80\x41', b'\xf0\x90', b'\xf0', b'\xf4\x8f\xbf\xbf', b'\xf4\x90\x80\x80', b'\xf5\x80\x80\x80', b'\xff', b'\xfe', b'\xf8\x88\x80\x80\x80',
                  b'\xe2\x82', b'\xe2\x82\x41', b'\xe2\x41', b'\xf1\x80\x80', b'\xf1\x80\x41', b'\xf1\x41', b'\xc2\xc2\xa9', b'\xe2\xe2\x82\xac', b'\xf0\x9f\x98']

MALFORMED_UTF16 = [bytes.fromhex(x) for x in (
    '00d8', '00d841', '00d84100', '00dc', '00dc4100', '41', '410042', '00d800d800dc', '00d800dc41', 'fffe', 'fffe4100', 'feff0041', 'ff', 'fe',
    'fffe41', 'feffd800', '00d800', 'd80041', 'd800dc00', 'dc00d800', 'fffefffe4100', 'fefffeff0041', 'fffefeff', 'ffdf', 'ffdb00dc', '00dcffdb',
    'ffdbffdf', '00d8ffdf41', 'fffe00d8', 'feff00d8', 'fffe00dc00d8', 'ffff', 'feffdbffdfff')]
MALFORMED_UTF32 = [bytes.fromhex(x) for x in (
    '41000000', '410000', '4100', '41', '4100000042', '00d80000', 'ffdf0000', '00e00000', 'ffd70000', '00001100', 'ffff1000', 'ffffffff', 'fffe0000',
    'fffe000041000000', '0000feff00000041', '0000feff', 'fffe00', 'fffe', '00d8000041', '000011004100', '0000feff0000d80000', '0000d800', '00110000',
    '0010ffff', 'fffe0000fffe0000', '0000feff0000feff', 'fffe00000000feff', '00000041', '0000feff41000000', 'fffe000000d80000', '00000000', 'fffe0000000011')]

def rand_bytes(rng, fam=None):
    r = rng.random()
    if r < 0.08: return b''
    if r < 0.5:
        fam = fam or rng.choice(FAMILIES)
        t = rand_text_for(rng, fam)
        try: return t.encode(fam)
        except UnicodeError: return t.encode(fam, 'replace')
    if r < 0.6:
        out = b''
        for _ in range(rng.randint(1, 3)):
            q = rng.random()
            out += rng.choice(MALFORMED_UTF16) if q < 0.45 else rng.choice(MALFORMED_UTF32) if q < 0.9 else bytes([rng.randrange(256)])
        return out
    if r < 0.8:
        out = b''
        for _ in range(rng.randint(1, 4)):
            out += rng.choice(MALFORMED_UTF8) if rng.random() < 0.6 else rng.choice([b'a', b'-', b' ', b'\xc3\xa9', b'\xe2\x82\xac', b'\xf0\x9f\x98\x80', b'Z'])
        return out
    return bytes(rng.choice([0, 0x41, 0x7f, 0x80, 0x81, 0x9f, 0xa0, 0xa5, 0xc2, 0xe0, 0xed, 0xf0, 0xf4, 0xff, rng.randrange(256)]) for _ in range(rng.randint(1, 8)))

def rand_errors(rng, allow_default=True):
    r = rng.random()
    if allow_default and r < 0.15: return None
    if r < 0.9: return rng.choice(POLICIES)
    if r < 0.95: return rng.choice(['nope', 'Strict', 'STRICT', 'ignore ', ''])
    return rng.choice(REGISTERED_UNMODELLED)

STDINS = [None, NOATTR, NOSTDIN, 'utf-8', 'UTF-8', 'ascii', 'ANSI_X3.4-1968', 'latin-1', 'ISO-8859-1', 'cp1252', 'utf-16', 'UTF-16', 'koi8-r', '']
ENVS = [None, NOATTR, NOSTDIN, 'utf-8', 'latin-1', 'ascii', 'cp1252', 'UTF-16', '']

def rand_other(rng):
    return O(rng.choice(sorted(OTHERS)))

def rand_value(rng, fam=None):
    r = rng.random()
    if r < 0.08: return rand_other(rng)
    if r < 0.45: return S(rand_text_for(rng, fam or rng.choice(FAMILIES)))
    return B(rand_bytes(rng, fam))

def one_case(rng):
    r = rng.random()
    stdin = rng.choice(STDINS)
    if r < 0.22:
        fam = rng.choice(FAMILIES)
        return {'op': 'roundtrip', 'text': rand_text_for(rng, fam), 'encoding': rand_name(rng, fam if rng.random() < 0.95 else None),
                'errors': rand_errors(rng, False), 'stdin': stdin}
    if r < 0.40:
        fam = rng.choice(FAMILIES)
        c = {'op': 'safe_decode', 'value': rand_value(rng, fam), 'stdin': stdin}
        q = rng.random()
        if q < 0.6: c['incoming'] = rand_name(rng, fam if rng.random() < 0.7 else None)
        elif q < 0.7: c['incoming'] = None
        elif q < 0.75: c['incoming'] = ''
        e = rand_errors(rng)
        if e is not None: c['errors'] = e
        return c
    if r < 0.62:
        fam = rng.choice(FAMILIES)
        c = {'op': 'safe_encode', 'value': rand_value(rng, fam), 'stdin': stdin}
        q = rng.random()
        inc = None
        if q < 0.7: inc = c['incoming'] = rand_name(rng, fam if rng.random() < 0.8 else None)
        elif q < 0.75: c['incoming'] = ''
        q = rng.random()
        if q < 0.25 and inc is not None: c['encoding'] = mixcase(rng, inc)          # the two agree up to letter case
        elif q < 0.35 and inc is not None: c['encoding'] = rng.choice(ENC_NAMES.get(fam))  # an alias of the same codec
        elif q < 0.9: c['encoding'] = rand_name(rng)
        e = rand_errors(rng)
        if e is not None: c['errors'] = e
        return c
    if r < 0.68:
        return {'op': 'to_utf8', 'value': rand_value(rng), 'stdin': stdin}
    if r < 0.86:
        c = {'op': 'to_slug', 'value': rand_slug_value(rng), 'stdin': stdin}
        if c['value']['t'] == 'b' and rng.random() < 0.7: c['incoming'] = rand_name(rng, rng.choice(['utf-8', 'latin-1', 'ascii', 'cp1252']))
        e = rand_errors(rng)
        if e is not None and c['value']['t'] == 'b': c['errors'] = e
        return c
    if r < 0.91:
        fam = rng.choice(FAMILIES)
        return {'op': 'enc', 'text': rand_text_for(rng, fam) if rng.random() < 0.6 else rand_text(rng, surrogates=0.1),
                'codec': rand_name(rng, fam if rng.random() < 0.9 else None), 'errors': rand_errors(rng, False)}
    if r < 0.96:
        fam = rng.choice(['utf-8', 'utf-8', 'ascii', 'latin-1', 'cp1252', 'utf-16', 'utf-16', 'utf-32', 'utf-32'])
        return {'op': 'dec', 'data': rand_bytes(rng, fam).hex(), 'codec': rand_name(rng, fam), 'errors': rand_errors(rng, False)}
    if r < 0.98:
        return {'op': 'lookup', 'name': rand_lookup_name(rng)}
    return {'op': 'fold', 'text': rand_text(rng, surrogates=0.02)}

SLUG_WORDS = ['Hello', 'World', 'café', 'naïve', 'Straße', 'İstanbul', 'ﬁsh', 'ＡＢ', '①', 'x²', '--', '-', '_', '__', ' ', '  ', '\t', '\n',
              '\x1c', '\x85', '\xa0', ' ', '　', '.', '!', '@#$', '½', '1/2', 'A-B', 'a--b', ' - ', '- -', '日本', '́', 'é', '\U0001d400', 'K', 'Å',
              'Ⅸ', 'ﷺ', '㎧', '℀', '¨', 'ͺ', '⑴', '㈀', '－', '‐', '−', '﹣', '­', '\x00', '\x7f', '~', '^', '`', "'", '"']

def rand_slug_value(rng):
    r = rng.random()
    if r < 0.05: return rand_other(rng)
    n = rng.choice([0, 1, 2, 3, 4, 6, 9])
    s = ''.join(rng.choice(SLUG_WORDS) if rng.random() < 0.75 else rand_text(rng, maxlen=4) for _ in range(n))
    if r < 0.25:
        fam = rng.choice(['utf-8', 'latin-1', 'cp1252', 'ascii'])
        return B(s.encode(fam, 'replace') if rng.random() < 0.8 else rand_bytes(rng))
    return S(s)

def rand_lookup_name(rng):
    r = rng.random()
    if r < 0.5: return rand_name(rng)
    base = rng.choice(sum(ENC_NAMES.values(), []) + BAD_NAMES)
    out = []
    for ch in base:
        q = rng.random()
        if q < 0.1: out.append(rng.choice(' -_.:/'))
        elif q < 0.15: out.append(ch + rng.choice('-_ '))
        elif q < 0.18: continue
        else: out.append(ch)
    s = ''.join(out)
    if rng.random() < 0.2: s = rng.choice(' -_') + s
    if rng.random() < 0.2: s = s + rng.choice(' -_')
    return mixcase(rng, s)

def boundary_cases():
    """fixed cases first: the statement's corner cases"""
    out = []
    for fam in FAMILIES:
        for name in ENC_NAMES[fam][:3]:
            for t in ['', 'a', 'abc-XYZ_09', '\xe9', '€', '\U0001f600', 'é', '﻿a', 'İı', '\xa5', '‾', '\x00', '\x7f\x80\xff']:
                for e in POLICIES:
                    out.append({'op': 'roundtrip', 'text': t, 'encoding': name, 'errors': e, 'stdin': None})
    for x in [0, 0x7f, 0x80, 0x7ff, 0x800, 0xfff, 0x1000, 0xd7ff, 0xe000, 0xffff, 0x10000, 0x3ffff, 0x40000, 0xfffff, 0x100000, 0x10ffff, 0xd800, 0xdfff]:
        for cdc in ['utf-8', 'latin-1', 'ascii']:
            for e in POLICIES + ('nope',):
                out.append({'op': 'enc', 'text': 'a' + chr(x) + 'b', 'codec': cdc, 'errors': e})
    for b in MALFORMED_UTF8:
        for pre, post in [(b'', b''), (b'a', b'b'), (b'\xc3\xa9', b'\xe2\x82\xac')]:
            for e in POLICIES + ('nope',):
                out.append({'op': 'dec', 'data': (pre + b + post).hex(), 'codec': 'utf-8', 'errors': e})
                out.append({'op': 'safe_decode', 'value': B(pre + b + post), 'incoming': 'ascii', 'errors': e, 'stdin': None})
    for lst, cdcs in ((MALFORMED_UTF16, ['utf-16', 'utf-16-le', 'utf-16-be']), (MALFORMED_UTF32, ['utf-32', 'utf-32-le', 'utf-32-be'])):
        for b in lst:
            for cdc in cdcs:
                for pre in (b'', b'A\x00', b'\x00A', b'A\x00\x00\x00'):
                    for e in POLICIES:
                        out.append({'op': 'dec', 'data': (pre + b).hex(), 'codec': cdc, 'errors': e})
                out.append({'op': 'safe_decode', 'value': B(b), 'incoming': cdc, 'errors': 'replace', 'stdin': None})
    for x in [0, 0xff, 0x100, 0xd7ff, 0xd800, 0xdbff, 0xdc00, 0xdfff, 0xe000, 0xfeff, 0xfffe, 0xffff, 0x10000, 0x103ff, 0x10400, 0x10ffff]:
        for cdc in ['utf-16', 'utf-16-le', 'utf-16-be', 'utf-32', 'utf-32-le', 'utf-32-be']:
            for e in POLICIES + ('nope',):
                out.append({'op': 'enc', 'text': chr(x) + 'a' + chr(x), 'codec': cdc, 'errors': e})
    for env in ENVS:
        for v in [B(b'caf\xe9'), B(b'caf\xc3\xa9'), B(b'\x80\x9f'), B(b'\xff\xfeA\x00'), B(b''), B(b'abc'), S('caf\xe9'), S('\u20ac\U0001f600'), S(''), O('none'), O('bytearray')]:
            out.append({'op': 'to_utf8', 'value': v, 'stdin': env})
            out.append({'op': 'safe_decode', 'value': v, 'stdin': env})
            out.append({'op': 'safe_decode', 'value': v, 'stdin': env, 'errors': 'replace'})
            out.append({'op': 'to_slug', 'value': v, 'stdin': env})
            for enc in (None, 'utf-8', 'UTF-8', 'latin-1', 'ascii'):
                c = {'op': 'safe_encode', 'value': v, 'stdin': env}
                if enc is not None: c['encoding'] = enc
                out.append(c)
                out.append(dict(c, errors='replace'))
    for name in sorted(OTHERS):
        for op in ('safe_decode', 'safe_encode', 'to_utf8', 'to_slug'):
            out.append({'op': op, 'value': O(name), 'stdin': None})
    for inc, enc in [('utf-8', 'UTF-8'), ('UTF-8', 'utf-8'), ('utf-8', 'utf8'), ('latin-1', 'LATIN-1'), ('nope', 'NOPE'), ('nope', 'utf-8'), ('utf-8', 'nope'),
                     ('ascii', 'utf-8'), ('latin-1', 'utf-8'), ('utf-8', 'latin-1'), ('utf-8', 'ascii'), ('latin-1', 'utf-16'), ('cp1252', 'koi8-r'), (None, 'utf-8'), (None, 'ascii'), ('', 'UTF-8')]:
        for v in [b'', b'abc', b'\xc3\xa9', b'\xe9', b'\xff\xfe', b'\x81']:
            for e in POLICIES:
                for stdin in (None, 'ascii', 'latin-1'):
                    c = {'op': 'safe_encode', 'value': B(v), 'encoding': enc, 'errors': e, 'stdin': stdin}
                    if inc is not None: c['incoming'] = inc
                    out.append(c)
    for s in ['', 'Hello World', '  Hello   World  ', 'a--b', 'a - b', '-a-', '--a--', ' - ', 'a\t\n b', 'caf\xe9 au lait', 'Stra\xdfe', 'İstanbul', 'ﬁsh & chips',
              'x² + y²', 'ＡＢＣ', '日本語', '__init__', 'a_b-c', 'A\x1cB', 'A\x85B', 'A\xa0B', 'a b', '\x1c-\x1c', '-\x1c-', 'a.b.c', 'é', 'K']:
        out.append({'op': 'to_slug', 'value': S(s), 'stdin': None})
        out.append({'op': 'fold', 'text': s})
    out.append({'op': 'fold', 'text': ''.join(map(chr, range(0x80)))})
    return out

def gen_cases(rng, tier):
    yield from boundary_cases()
    n = 7000 if tier == 'quick' else 600000
    for _ in range(n):
        yield one_case(rng)
    # the whole NFKD table, 512 code points per case (surrogates excluded), and every alias CPython knows
    step = 512 if tier == 'quick' else 128
    for lo in range(0, 0x110000, step):
        yield {'op': 'fold', 'text': ''.join(chr(x) for x in range(lo, lo + step) if not 0xd800 <= x <= 0xdfff)}
    import encodings.aliases
    for k in sorted(encodings.aliases.aliases):
        yield {'op': 'lookup', 'name': mixcase(rng, k)}

def search(rng, budget):
    yield from boundary_cases()
    for _ in range(budget):
        yield one_case(rng)

RULE = ('boundary cases (13 texts x 3 spellings x 8 codec families x 3 policies; every code point range edge through the three modelled encoders; '
        '36 malformed UTF-8 sequences x contexts x policies; 14 non-text types x 4 functions; incoming/encoding agreement table; slug corner cases), then '
        'random cases: texts drawn from ASCII / Latin-1 / fold-sensitive / Greek+Cyrillic / CJK / combining / BMP edge / astral / whitespace pools and raw code points '
        '(lone surrogates 3 %), codec names = aliases of 8 families in mixed letter case plus unknown names, errors = strict/ignore/replace (+ default, unknown, '
        'unmodelled registered handlers), sys.stdin.encoding from 11 settings; the whole NFKD table and every alias of encodings.aliases once; '
        'distinct = distinct case JSON; trivial = none')
TRUSTED = ['shift_jis (and any codec other than the eleven modelled ones) and sys.stdin.encoding are runtime: they enter the theorems as a `world` record with explicit contracts '
           '(error handler consulted only on error; strict decode of a strict encoding gives the text back; lookup independent of letter case) which the oracle tests on every generated triple',
           'UTF-8, Latin-1, ASCII, UTF-16 / -LE / -BE, UTF-32 / -LE / -BE, cp1252, koi8-r encoders and decoders (strict, ignore, replace; error spans as CPython reports them), codec-name '
           'normalisation + alias table, and the NFKD->ASCII residue are Coq models tied to CPython by correspondence (ops enc/dec/lookup/fold, malformed inputs included), with the contracts PROVED for them',
           'CPython re / str.strip / str.lower as modelled in Base/Regex.v, Base/PyInt.v, Base/Str.v; regex ASTs and Unicode tables regenerated on every run']
ASSUMPTIONS = ['error handlers other than strict/ignore/replace and codec names with non-ASCII characters are outside the correspondence (oracle only)',
               'NFKD of a string = concatenation of per-character residues after dropping non-ASCII (tested on every fold/to_slug case; holds because ASCII characters are starters)']
LEVEL_TEXT = ('Theorems for all inputs over an arbitrary codec registry with stated contracts (str identity, decode with UTF-8 fallback, encode/decode round trip for every '
              'representable text in any letter case and error policy, bytes untouched when the names agree, transcoding otherwise, to_utf8, TypeError for every other type); '
              'closed instances (no premises) for eleven concrete codecs - UTF-8, Latin-1, ASCII, UTF-16/-LE/-BE, UTF-32/-LE/-BE, cp1252, koi8-r - each with decode(encode t) = t proved for every '
              'representable text of any length, canonicity of the BOM-less decoders, closed transcoding between any two of them, soundness of the name-comparing "same codec" shortcut and the alias case; '
              'to_slug alphabet, single hyphens and idempotence for all inputs with the generated NFKD table (no hypothesis left) from regex-engine lemmas applied to the regenerated regex ASTs; '
              'the four functions are translated statement by statement on every run and proved equal to the model.')
LEVEL_NOTE = ('Trusted: Coq kernel; translator tools/gen/gen_C16.py (CPython ast, re._parser, unicodedata, encodings.aliases); CPython codec behaviour for the other codecs as contracts '
              '(tested); correspondence harness. No axioms.')
