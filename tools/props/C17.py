"""C17 — version helpers (oslo_utils/versionutils.py)"""
import sys, os, random
import gen_versionutils
import pep440

ID = 'C17'
GEN = [('Gen/Versionutils.v', gen_versionutils.generate), ('Gen/VersionutilsCode.v', gen_versionutils.generate_code)]
EQUIV_FILES = ['Proofs/C17.v']
EXTRACT = 'Extract/C17_x.v'
TRUSTED = ['packaging.version ordering is a contract (abstract order in the theorems); tested against tools/pep440.py (written from the PEP)',
           'CPython int()/str() and re modelled in Base/PyInt.v, Base/Regex.v; regex ASTs regenerated from the source patterns']
ASSUMPTIONS = ['int() digit-count limit (4300) not modelled; generated inputs stay below it',
               'suffix-stripping and predicate parsing are tied by correspondence only (no universal theorem about the regex yet)']
RULE = ('component tuples of length 1..5 over {0,1,9,10,99,100,999,1000,random}; dotted strings with pre-release suffixes, '
        'signs, padding, non-ASCII digits, malformed parts; integers for to_str; PEP 440 version pairs x same_major; '
        'predicate conjunctions incl. malformed; distinct = distinct case JSON; trivial = none')

def _vu():
    from oslo_utils import versionutils
    return versionutils

COMPS = [0, 1, 9, 10, 99, 100, 999, 1000]
def rand_tuple(rng, allow_big=True):
    n = rng.randint(1, 5)
    pool = COMPS if allow_big else COMPS[:-1]
    return [rng.choice(pool) if rng.random() < 0.7 else rng.randint(0, 1200 if allow_big else 999) for _ in range(n)]

SUFF = ['a', 'alpha', 'b', 'beta', 'rc']
def rand_verstr(rng):
    t = rand_tuple(rng)
    s = '.'.join(map(str, t))
    r = rng.random()
    if r < 0.35: s += rng.choice(SUFF) + str(rng.randint(0, 30))
    elif r < 0.45: s += rng.choice(['x', 'rc', 'a', 'dev1', '-1', 'rc1x', 'RC1', 'c1', 'alpha', 'b2b3', 'rc1\n'])
    elif r < 0.55:
        parts = s.split('.')
        i = rng.randrange(len(parts))
        parts[i] = rng.choice([' %s', '+%s', '-%s', '%s ', '0%s', '%s_0', '_%s', '%s_', '١%s', '%sa1', '', ' ', '1e3', '0x1'])
        parts[i] = parts[i] % rng.randint(0, 99) if '%s' in parts[i] else parts[i]
        s = '.'.join(parts)
    elif r < 0.6: s = rng.choice(['', '.', '1..2', 'a.b', '1.2.', '.1', '٣.٤', '1.2rc', 'rc1', '1rc1.2', '1.2rc1rc2', '1.2beta١'])
    return s

def pep_ver(rng):
    s = ''
    if rng.random() < 0.15: s += '%d!' % rng.randint(0, 2)
    s += '.'.join(str(rng.choice([0, 1, 2, 10])) for _ in range(rng.randint(1, 4)))
    if rng.random() < 0.3: s += rng.choice(['a', 'b', 'rc', 'alpha', '.beta', '-rc', 'c', 'pre']) + rng.choice(['', '0', '1', '2'])
    if rng.random() < 0.2: s += rng.choice(['.post', '-', 'post', '.rev', 'r']) + str(rng.randint(0, 2))
    if rng.random() < 0.2: s += rng.choice(['.dev', 'dev', '-dev']) + rng.choice(['', '0', '1'])
    if rng.random() < 0.1: s += '+' + rng.choice(['abc', '1', 'a.1', '1.a'])
    return s

OPS = ['<', '<=', '==', '>', '>=', '!=']
def rand_pred(rng):
    parts = []
    for _ in range(rng.randint(1, 3)):
        r = rng.random()
        if r < 0.8:
            parts.append(rng.choice(['', ' ', '  ', '\t']) + rng.choice(OPS) + rng.choice(['', ' ', '  ']) + pep_ver(rng) + rng.choice(['', ' ']))
        else:
            parts.append(rng.choice(['', '1.0', '=1.0', '=>1', '~=1.0', '> =1', '>1 2', '<>', '>=', '== 1.0 ', '\n>=1', '>=1\n', '===1', '<=x']))
    return ','.join(parts)

def gen_cases(rng, tier):
    n = 1500 if tier == 'quick' else 40000
    for _ in range(n):
        r = rng.random()
        if r < 0.25: yield {'op': 'roundtrip', 'v': rand_tuple(rng)}
        elif r < 0.35: yield {'op': 'order', 'a': (t := rand_tuple(rng, False)), 'b': [rng.choice([x, x, rng.randint(0, 999)]) for x in t]}
        elif r < 0.55: yield {'op': 'to_int_str', 's': rand_verstr(rng)}
        elif r < 0.65: yield {'op': 'to_str', 'n': rng.choice([0, 1, 999, 1000, 1001, 10**6, 10**9 - 1, rng.randint(0, 10**15), rng.randint(0, 10**40)])}
        elif r < 0.8:
            req = pep_ver(rng)
            q = rng.random()
            cur = req if q < 0.15 else (req + '.0' if q < 0.25 and req[-1].isdigit() and '+' not in req and 'v' not in req and not any(ch.isalpha() for ch in req) else pep_ver(rng))
            yield {'op': 'compat', 'req': req, 'cur': cur, 'sm': rng.random() < 0.5}
        else: yield {'op': 'pred', 'p': rand_pred(rng), 'v': pep_ver(rng)}
    yield {'op': 'roundtrip', 'v': []}

def _call(f, *a):
    try:
        return f(*a)
    except Exception as e:
        return 'EXN:' + type(e).__name__

def _cls(e):
    # packaging.version.InvalidVersion is a ValueError subclass
    return 'EXN:' + ('ValueError' if isinstance(e, ValueError) else type(e).__name__)

def impl(c):
    vu = _vu()
    op = c['op']
    if op == 'roundtrip':
        n = _call(vu.convert_version_to_int, tuple(c['v']))
        if isinstance(n, str): return n
        return '%d %s' % (n, vu.convert_version_to_str(n))
    if op == 'order':
        return '%d %d' % (vu.convert_version_to_int(tuple(c['a'])), vu.convert_version_to_int(tuple(c['b'])))
    if op == 'to_int_str':
        return str(_call(vu.convert_version_to_int, c['s']))
    if op == 'to_str':
        return vu.convert_version_to_str(c['n'])
    if op == 'compat':
        try: return str(vu.is_compatible(c['req'], c['cur'], same_major=c['sm']))
        except Exception as e: return _cls(e)
    if op == 'pred':
        # R: what the implementation's own predicate regex extracts (the part the model covers)
        rx = []
        for part in c['p'].split(','):
            m = vu.VersionPredicate._PREDICATE_MATCH.match(part)
            if not m: rx = None; break
            rx.append('%s %s' % m.groups())
        R = 'None' if rx is None else '|'.join(rx)
        try:
            p = vu.VersionPredicate(c['p'])
        except Exception as e: return 'R:%s F:init:%s' % (R, _cls(e))
        try: return 'R:%s F:%s' % (R, p.satisfied_by(c['v']))
        except Exception as e: return 'R:%s F:%s' % (R, _cls(e))
    raise KeyError(op)

def encode(c):
    op = c['op']
    if op == 'roundtrip': return ['roundtrip'] + [str(x) for x in c['v']]
    if op == 'order': return ['order', ','.join(map(str, c['a'])), ','.join(map(str, c['b']))]
    if op == 'to_int_str': return ['to_int_str', c['s']]
    if op == 'to_str': return ['to_str', str(c['n'])]
    if op == 'pred': return ['parse_pred', c['p']]
    return None

def decode(c, out):
    return out

def project(c, io):
    if c['op'] == 'pred':
        return io[2:io.index(' F:')]
    return io

def oracle(c, io):
    op = c['op']
    if op == 'roundtrip':
        v = c['v']
        if v and all(0 <= x <= 999 for x in v) and v[0] != 0:
            want = '.'.join(map(str, v))
            if io.startswith('EXN') or io.split(' ', 1)[1] != want:
                return 'round trip of %r gives %r' % (v, io)
    elif op == 'order':
        a, b = c['a'], c['b']
        na, nb = map(int, io.split())
        if ((na > nb) - (na < nb)) != ((a > b) - (a < b)):
            return 'order of %r,%r not preserved: %d,%d' % (a, b, na, nb)
    elif op == 'to_int_str':
        s = c['s']
        import re
        m = re.fullmatch(r'(\d+(?:\.\d+)*)((?:a|alpha|b|beta|rc)\d+)?', s, re.A)
        if m:
            comps = [int(x) for x in m.group(1).split('.')]
            want = 0
            for x in comps: want = want * 1000 + x
            if io != str(want): return 'convert_version_to_int(%r) = %s, expected %d' % (s, io, want)
        else:
            parts = s.split('.')
            if any(re.search(r'[^\d\s+\-_]', p) for p in parts[:-1]) or any(p.strip() == '' for p in parts[:-1]):
                if io != 'EXN:ValueError': return 'non-numeric component in %r gives %s' % (s, io)
        if io.startswith('EXN:') and io != 'EXN:ValueError':
            return 'convert_version_to_int(%r) raised %s' % (s, io)
    elif op == 'compat':
        try:
            r, cu = pep440.parse(c['req']), pep440.parse(c['cur'])
        except ValueError:
            return None if io == 'EXN:ValueError' else 'invalid version accepted: %s' % io
        want = (cu['key'] >= r['key']) and (not c['sm'] or r['major'] == cu['major'])
        # epoch: "major" in packaging is release[0]
        if io != str(want): return 'is_compatible(%r,%r,%r) = %s, PEP 440 says %s' % (c['req'], c['cur'], c['sm'], io, want)
    elif op == 'pred':
        import re
        preds = []
        ok = True
        for p in c['p'].split(','):
            m = re.fullmatch(r'\s*(<=|>=|<|>|!=|==)\s*(\S+)\s*', p)
            if not m: ok = False; break
            try: pep440.parse(m.group(2))
            except ValueError: ok = False; break
            preds.append((m.group(1), m.group(2)))
        io = io[io.index(' F:') + 3:]
        if not ok:
            return None if io == 'init:EXN:ValueError' else 'malformed predicate %r gives %s' % (c['p'], io)
        if io.startswith('init:') or io.startswith('EXN'):
            return 'well-formed predicate %r gives %s' % (c['p'], io)
        import operator
        M = {'<': operator.lt, '<=': operator.le, '==': operator.eq, '>': operator.gt, '>=': operator.ge, '!=': operator.ne}
        want = all(M[o](pep440.cmp(c['v'], v), 0) for o, v in preds)
        if io != str(want):
            return 'satisfied_by(%r, %r) = %s, expected %s' % (c['p'], c['v'], io, want)
    return None

def classify(c, io):
    return c['op'] + (':exn' if 'EXN' in io else '')

def search(rng, budget):
    for _ in range(budget):
        yield from gen_cases(rng, 'quick')

LEVEL_TEXT = ('Theorems for all tuples of any length: radix round trip (components 0..999, first non-zero), order preservation for equal '
              'lengths, is_compatible / satisfied_by against their reading for any version order; the radix, separator, regexes and operator '
              'map are regenerated from the source on every run, convert_version_to_str is translated statement by statement and proved equal '
              'to the model. Suffix stripping, predicate parsing and the packaging order are decided by correspondence/oracle only (partial).')
LEVEL_NOTE = ('Trusted: Coq kernel; translator (AST template for the reduce lambda, py2gal for convert_version_to_str, re._parser for regexes); '
              'CPython int()/str()/re semantics as modelled in Base/; packaging.version as an abstract total preorder (tested against an '
              'independent PEP 440 implementation). Closed under the global context (no axioms).')
