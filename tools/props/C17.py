"""C17 — version helpers (oslo_utils/versionutils.py)"""
import sys, os, random, re, operator
import gen_versionutils
import pep440

ID = 'C17'
GEN = [('Gen/Versionutils.v', gen_versionutils.generate), ('Gen/VersionutilsCode.v', gen_versionutils.generate_code),
       ('Gen/C17_Code.v', gen_versionutils.generate_code17)]
EQUIV_FILES = ['Proofs/C17.v', 'Proofs/C17_Equiv.v']
EXTRACT = 'Extract/C17_x.v'
TRUSTED = ['packaging.version is a contract: an abstract type with parse (None = InvalidVersion, a ValueError), <=, == and .major; the theorems hold '
           'for every such structure. The clauses the model relies on (totality, transitivity, antisymmetry up to ==, < > != derived from <= and ==, '
           '.major = first release number, which strings parse) are TESTED on every run on the generated PEP 440 versions, and the order is compared '
           'with tools/pep440.py, an independent implementation written from the PEP text',
           'CPython int()/str() and re modelled in Base/PyInt.v, Base/Regex.v; int() is tied by its own correspondence op on every run; '
           'regex ASTs and the template are regenerated from the source patterns through re._parser',
           'translator: py2gal (statement level, extended in tools/gen/gen_versionutils.py for re.sub/split/generator expressions/reduce/'
           'isinstance on a typed entry point/try-except-raise-from/packaging objects) with *_equiv lemmas against the hand model']
ASSUMPTIONS = ['int() digit-count limit (4300) not modelled; generated inputs stay below it',
               'packaging.version contract (see trusted base): tested, not proved; InvalidVersion is counted as the ValueError it subclasses',
               '`_()` (gettext) and the message formatting in the except handler are modelled only as far as they can raise '
               '(formatting a tuple of length != 1 raises TypeError — the empty tuple case)']
RULE = ('component tuples of length 1..5 over {0,1,9,10,99,100,999,1000,random}; dotted strings with pre-release suffixes (ASCII and non-ASCII digits, '
        'trailing newline), signs, padding, underscores, malformed parts; component strings for int(); integers for to_str; PEP 440 version pairs x '
        'same_major; predicate conjunctions incl. blanks/newlines/empty parts/malformed; contract checks on version pairs and triples; '
        'distinct = distinct case JSON; trivial = none')

def _vu():
    from oslo_utils import versionutils
    return versionutils

COMPS = [0, 1, 9, 10, 99, 100, 999, 1000]
def rand_tuple(rng, allow_big=True):
    n = rng.randint(1, 5)
    pool = COMPS if allow_big else COMPS[:-1]
    return [rng.choice(pool) if rng.random() < 0.7 else rng.randint(0, 1200 if allow_big else 999) for _ in range(n)]

SUFF = ['a', 'alpha', 'b', 'beta', 'rc']
UDIG = ['٣', '१२', '７', '0', '00', '12', '5', '٠١']
def rand_digits(rng):
    return str(rng.randint(0, 30)) if rng.random() < 0.7 else rng.choice(UDIG)

_ALT_DIGITS = [0x0660, 0x06F0, 0x0966, 0xFF10]      # Arabic-Indic, Extended Arabic-Indic, Devanagari, fullwidth
def render_comp(rng, x):
    """a component as text int() reads back as x: plain, zero padded, or (partly) in non-ASCII decimal digits"""
    r = rng.random()
    t = str(x)
    if r < 0.7: return t
    if r < 0.8: return '0' + t
    base = rng.choice(_ALT_DIGITS)
    if r < 0.9: return ''.join(chr(base + int(ch)) for ch in t)
    return t[:-1] + chr(base + int(t[-1]))             # only the digit next to the marker is non-ASCII

def rand_verstr(rng):
    t = rand_tuple(rng)
    s = '.'.join(map(str, t))
    r = rng.random()
    if r < 0.3: s += rng.choice(SUFF) + rand_digits(rng) + rng.choice(['', '', '\n'])
    elif r < 0.45: s += rng.choice(['x', 'rc', 'a', 'dev1', '-1', 'rc1x', 'RC1', 'c1', 'alpha', 'b2b3', 'rc1\n', 'rc1\n\n', 'rc1 ', 'ab1', 'alph1', 'bet1',
                                     'r1', 'c1', 'beta', 'alpha1a', 'a1\n', '\n', ' ', 'rc 1', 'rc_1', 'rc+1', 'A1', 'Beta2', 'arc1', 'ba1', 'alphabeta1',
                                     'a1b1', 'b1\nx', 'rc1\r', 'a١'])
    elif r < 0.58:
        parts = s.split('.')
        i = rng.randrange(len(parts))
        parts[i] = rng.choice([' %s', '+%s', '-%s', '%s ', '0%s', '%s_0', '_%s', '%s_', '١%s', '%sa1', '', ' ', '1e3', '0x1', '%s__1', '+ %s', '+-%s',
                               '\t%s\n', '\x1c%s', '%s\x1f', '\xa0%s', '%s ', '%s.', '１%s', 'a%s', '%sb', '+', '-', '_', '%s\n'])
        parts[i] = parts[i] % rng.randint(0, 99) if '%s' in parts[i] else parts[i]
        s = '.'.join(parts)
    elif r < 0.64: s = rng.choice(['', '.', '1..2', 'a.b', '1.2.', '.1', '٣.٤', '1.2rc', 'rc1', '1rc1.2', '1.2rc1rc2', '1.2beta١', 'a1', '.a1', '1a1', '1.a1',
                                    '1a1a1', '1alpha1', '1.2\n', '\n', '1.2a1\n', '1.2\n\n', '1 .2', '1. 2', '-1.-2', '1.-2rc1', '0', '0.0', '000.1'])
    return s

INTS = ['0', '7', '42', ' 7', '7 ', '+7', '-7', '--7', '+-7', '1_000', '1__0', '_1', '1_', '', ' ', '+', '-', '٣', '１２', '1٣', '٣_4', '\t7\n', '\x0b7\x0c',
        '\x1c7', '7\x1f', '\xa07', '7 ', ' 7', '7　', '0x10', '1e3', '1.0', 'seven', '1 2', '+ 7', '- 7', '７_８', '007', '-0', '+0', '٠', '1a', 'a1',
        '\x857', '​7', '7\n', '\n7', '7\n\n', '²', '½', '①', '𝟏𝟐', '۱۲۳']

def pep_ver(rng):
    s = ''
    if rng.random() < 0.15: s += '%d!' % rng.randint(0, 2)
    s += '.'.join(str(rng.choice([0, 1, 2, 10])) for _ in range(rng.randint(1, 4)))
    if rng.random() < 0.3: s += rng.choice(['a', 'b', 'rc', 'alpha', '.beta', '-rc', 'c', 'pre']) + rng.choice(['', '0', '1', '2'])
    if rng.random() < 0.2: s += rng.choice(['.post', '-', 'post', '.rev', 'r']) + str(rng.randint(0, 2))
    if rng.random() < 0.2: s += rng.choice(['.dev', 'dev', '-dev']) + rng.choice(['', '0', '1'])
    if rng.random() < 0.1: s += '+' + rng.choice(['abc', '1', 'a.1', '1.a'])
    return s

BAD_VERS = ['', 'x', '1.x', '=', '=1', '1..2', '1.2.', 'v', '1!', '!1', '1+', '1-', '1a.b', 'a', '1.0 0', '1,0', '>1', '1.0+', '1.0+a..b', '1 ', ' 1', '\n1', '1\n',
            'v1', 'V1.0', '1.0A1', '1.0.RC1', '1_0', '1.0-r', '1.0.post', '01', '1.0dev', '1.0.dev.1']

OPS = ['<', '<=', '==', '>', '>=', '!=']
WS = ['', '', ' ', '  ', '\t', '\n', ' \n', '\r\n', '\x0b', '\x1c', '\xa0', ' ']
def rand_pred(rng):
    parts = []
    for _ in range(rng.randint(1, 3)):
        r = rng.random()
        if r < 0.75:
            parts.append(rng.choice(WS) + rng.choice(OPS) + rng.choice(WS[:6]) + pep_ver(rng) + rng.choice(WS))
        elif r < 0.8:
            parts.append(rng.choice(OPS) + rng.choice(WS) + rng.choice(BAD_VERS))
        else:
            parts.append(rng.choice(['', ' ', '\n', '1.0', '=1.0', '=>1', '~=1.0', '> =1', '>1 2', '<>', '>=', '<=', '==', '!=', '<', '>', '== 1.0 ', '\n>=1', '>=1\n',
                                     '===1', '<=x', '<=1', '< =1', '>==1', '>= 1 ', '>=\t1\n', '>=1\n\n', '>=1 \n ', '> = 1', '!1', '! =1', '=<1', '=!1', '>=1;',
                                     '>=1.0.0 .1', 'x>=1', '> =', '>= =', '>=1\x001', '>=\x001']))
    return ','.join(parts)

def gen_cases(rng, tier):
    n = 2200 if tier == 'quick' else 60000
    # boundary values first
    for t, sfx in [('1.999', 'rc1'), ('999', 'a0'), ('1٣', 'a1'), ('1.٢', 'beta2'), ('6.7.999', 'rc1'), ('１', 'b1')]:
        yield {'op': 'suffix', 'v': [int(x) for x in t.split('.')], 'text': t, 'sfx': sfx[:-1], 'd': sfx[-1], 'tail': ''}
    for v in [[999], [1, 999], [999, 999], [999, 0, 999], [1, 0, 999, 999, 999], [999, 999, 999, 999, 999]]:
        yield {'op': 'roundtrip', 'v': v}
        yield {'op': 'str_roundtrip', 'v': v}
        yield {'op': 'order', 'a': v, 'b': [max(0, x - 1) for x in v]}
    for s in ['1.2rc1', '1.2rc1\n', '1.2', '1.2\n', ' 1.+2', '1.2RC1', '1.2rc', '', '.', '999.999', '1000.0', '1.2alpha٣', '1٣a1']:
        yield {'op': 'to_int_str', 's': s}
    for s in INTS:
        yield {'op': 'int', 's': s}
    for p in ['', ',', '>=1.0,', ',>=1.0', '>=1,,<2', '>=', '<=', '==', '<=1', '< =1', '\n>=1.0\n', ' >= 1.0 , < 2', '>=1 0', '>=1.0,<2\n']:
        yield {'op': 'pred', 'p': p, 'v': '1.5'}
    for _ in range(n):
        r = rng.random()
        if r < 0.12: yield {'op': 'roundtrip', 'v': rand_tuple(rng)}
        elif r < 0.2: yield {'op': 'str_roundtrip', 'v': rand_tuple(rng)}
        elif r < 0.28: yield {'op': 'order', 'a': (t := rand_tuple(rng, False)), 'b': [rng.choice([x, x, rng.randint(0, 999)]) for x in t]}
        elif r < 0.44: yield {'op': 'to_int_str', 's': rand_verstr(rng)}
        elif r < 0.5: yield {'op': 'to_tuple', 's': rand_verstr(rng)}
        elif r < 0.58:
            v = rand_tuple(rng)
            yield {'op': 'suffix', 'v': v, 'text': '.'.join(render_comp(rng, x) for x in v), 'sfx': rng.choice(SUFF), 'd': rand_digits(rng),
                   'tail': rng.choice(['', '', '\n'])}
        elif r < 0.62:
            base = rng.choice(INTS)
            yield {'op': 'int', 's': rng.choice(['%s', ' %s', '%s ', '+%s', '-%s', '%s_1', '1_%s', '%s\n']) % base}
        elif r < 0.68: yield {'op': 'to_str', 'n': rng.choice([0, 1, 999, 1000, 1001, 10**6, 10**9 - 1, rng.randint(0, 10**15), rng.randint(0, 10**40)])}
        elif r < 0.8:
            req = pep_ver(rng)
            q = rng.random()
            if q < 0.15: cur = req
            elif q < 0.25 and req[-1].isdigit() and not any(ch.isalpha() or ch in '+-' for ch in req): cur = req + '.0'
            elif q < 0.3: cur = rng.choice(BAD_VERS)
            else: cur = pep_ver(rng)
            if rng.random() < 0.03: req = rng.choice(BAD_VERS)
            yield {'op': 'compat', 'req': req, 'cur': cur, 'sm': rng.random() < 0.5}
        else:
            p = rand_pred(rng)
            q = rng.random()
            used = re.findall(r'(?:<=|>=|<|>|!=|==)\s*([^\s,]+)', p)
            # the boundary of every comparison is the version named in the predicate itself
            v = rng.choice(used) if used and q < 0.35 else (rng.choice(BAD_VERS) if q > 0.96 else pep_ver(rng))
            yield {'op': 'pred', 'p': p, 'v': v}
    yield {'op': 'roundtrip', 'v': []}

def _call(f, *a):
    try:
        return f(*a)
    except Exception as e:
        return 'EXN:' + type(e).__name__

def _cls(e):
    # packaging.version.InvalidVersion is a ValueError subclass
    return 'EXN:' + ('ValueError' if isinstance(e, ValueError) else type(e).__name__)

def impl(c):
    vu = _vu()
    op = c['op']
    if op == 'roundtrip':
        n = _call(vu.convert_version_to_int, tuple(c['v']))
        if isinstance(n, str): return n
        return '%d %s' % (n, vu.convert_version_to_str(n))
    if op == 'str_roundtrip':
        n = _call(vu.convert_version_to_int, '.'.join(map(str, c['v'])))
        if isinstance(n, str): return n
        return '%d %s' % (n, vu.convert_version_to_str(n))
    if op == 'order':
        return '%s %s' % (_call(vu.convert_version_to_int, tuple(c['a'])), _call(vu.convert_version_to_int, tuple(c['b'])))
    if op == 'to_int_str':
        return str(_call(vu.convert_version_to_int, c['s']))
    if op == 'to_tuple':
        r = _call(vu.convert_version_to_tuple, c['s'])
        return 'None' if isinstance(r, str) else '|'.join(map(str, r))      # any exception = the model's None (the caller turns it into ValueError)
    if op == 'int':
        try: return str(int(c['s']))
        except ValueError: return 'None'
    if op == 'suffix':
        base = c['text']
        return '%s %s' % (_call(vu.convert_version_to_int, base), _call(vu.convert_version_to_int, base + c['sfx'] + c['d'] + c['tail']))
    if op == 'to_str':
        return vu.convert_version_to_str(c['n'])
    if op == 'compat':
        try: return str(vu.is_compatible(c['req'], c['cur'], same_major=c['sm']))
        except Exception as e: return _cls(e)
    if op == 'pred':
        try:
            p = vu.VersionPredicate(c['p'])
        except Exception as e:
            return 'init:' + _cls(e)
        try: return str(p.satisfied_by(c['v']))
        except Exception as e: return _cls(e)
    raise KeyError(op)

def encode(c):
    op = c['op']
    if op == 'roundtrip': return ['roundtrip'] + [str(x) for x in c['v']]
    if op == 'str_roundtrip': return ['str_roundtrip', '.'.join(map(str, c['v']))]
    if op == 'order': return ['order', ','.join(map(str, c['a'])), ','.join(map(str, c['b']))]
    if op in ('to_int_str', 'to_tuple', 'int'): return [op, c['s']]
    if op == 'suffix':
        base = c['text']
        return ['suffix', base, base + c['sfx'] + c['d'] + c['tail']]
    if op == 'to_str': return ['to_str', str(c['n'])]
    if op == 'pred': return ['parse_pred', c['p']]
    return None

def decode(c, out):
    if c['op'] == 'pred':
        # the model parses the predicate text; the version library (the contract instance) supplies parsing and comparison
        import packaging.version as pv
        if out == 'None': return 'init:EXN:ValueError'
        pairs = []
        for item in out.split('|'):
            o, _, text = item.partition(' ')
            try: pairs.append((o, pv.Version(text)))
            except ValueError: return 'init:EXN:ValueError'
        try: v = pv.Version(c['v'])
        except ValueError: return 'EXN:ValueError'
        return str(all(_M[o](v, x) for o, x in pairs))
    return out

_M = {'<': operator.lt, '<=': operator.le, '==': operator.eq, '>': operator.gt, '>=': operator.ge, '!=': operator.ne}
_BAD = re.compile(r'[^\d\s+\-_]')
_SUFFIXED = re.compile(r'(?s).*\d(a|alpha|b|beta|rc)\d+\n?')

def _fold(comps):
    want = 0
    for x in comps: want = want * 1000 + x
    return want

def oracle(c, io):
    op = c['op']
    if op in ('roundtrip', 'str_roundtrip'):
        v = c['v']
        if v and all(0 <= x <= 999 for x in v) and v[0] != 0:
            want = '.'.join(map(str, v))
            if io.startswith('EXN') or io.split(' ', 1)[1] != want:
                return 'round trip of %r gives %r' % (v, io)
    elif op == 'order':
        a, b = c['a'], c['b']
        if 'EXN' in io: return 'convert_version_to_int raised on components within 0..999: %r, %r -> %s' % (a, b, io)
        na, nb = map(int, io.split())
        if ((na > nb) - (na < nb)) != ((a > b) - (a < b)):
            return 'order of %r,%r not preserved: %d,%d' % (a, b, na, nb)
    elif op == 'suffix':
        # an alpha/beta/rc suffix (marker + digits) on the last component is ignored
        a, b = io.split(' ')
        if a != b: return 'suffix %r not ignored on %r: %s vs %s' % (c['sfx'] + c['d'] + c['tail'], c['text'], a, b)
        if c['v'] and all(0 <= x <= 999 for x in c['v']) and a != str(_fold(c['v'])):
            return 'convert_version_to_int(%r) = %s' % (c['v'], a)
    elif op == 'to_int_str':
        s = c['s']
        m = re.fullmatch(r'(\d+(?:\.\d+)*)((?:a|alpha|b|beta|rc)\d+)?', s, re.A)
        if m:
            comps = [int(x) for x in m.group(1).split('.')]
            want = _fold(comps)
            # the property speaks about components in 0..999; beyond that only "no exception other than ValueError" is demanded
            if all(x <= 999 for x in comps) and io != str(want): return 'convert_version_to_int(%r) = %s, expected %d' % (s, io, want)
        else:
            parts = s.split('.')
            # a component with a character int() can never accept raises ValueError; in the last component
            # only when it does not end with a suffix the regex strips
            nonnum = any(_BAD.search(p) or p.strip() == '' for p in parts[:-1]) or \
                     ((_BAD.search(parts[-1]) and not _SUFFIXED.fullmatch(parts[-1])) or parts[-1].strip() == '')
            if nonnum and io != 'EXN:ValueError': return 'non-numeric component in %r gives %s' % (s, io)
        if io.startswith('EXN:') and io != 'EXN:ValueError':
            return 'convert_version_to_int(%r) raised %s' % (s, io)
    elif op == 'compat':
        try:
            r, cu = pep440.parse(c['req']), pep440.parse(c['cur'])
        except ValueError:
            return None if io == 'EXN:ValueError' else 'invalid version accepted: %s' % io
        want = (cu['key'] >= r['key']) and (not c['sm'] or r['major'] == cu['major'])
        if io != str(want): return 'is_compatible(%r,%r,%r) = %s, PEP 440 says %s' % (c['req'], c['cur'], c['sm'], io, want)
    elif op == 'pred':
        preds = []
        ok = True
        for p in c['p'].split(','):
            m = re.fullmatch(r'\s*(<=|>=|<|>|!=|==)\s*(\S+)\s*', p)
            if not m: ok = False; break
            try: pep440.parse(m.group(2))
            except ValueError: ok = False; break
            preds.append((m.group(1), m.group(2)))
        if not ok:
            return None if io == 'init:EXN:ValueError' else 'malformed predicate %r gives %s' % (c['p'], io)
        if io.startswith('init:'):
            return 'well-formed predicate %r gives %s' % (c['p'], io)
        try: pep440.parse(c['v'])
        except ValueError:
            return None if io == 'EXN:ValueError' else 'satisfied_by(%r) on an invalid version gives %s' % (c['v'], io)
        want = all(_M[o](pep440.cmp(c['v'], v), 0) for o, v in preds)
        if io != str(want):
            return 'satisfied_by(%r, %r) = %s, expected %s' % (c['p'], c['v'], io, want)
    return None

def extra_checks(rng, tier):
    """the packaging.version contract used by the theorems (abstract total preorder + major), tested on
    generated PEP 440 versions, and compared with the independent implementation tools/pep440.py"""
    import packaging.version as pv
    n = 40 if tier == 'quick' else 160
    texts = []
    while len(texts) < n:
        t = pep_ver(rng)
        if t not in texts: texts.append(t)
    vs = []
    for t in texts + BAD_VERS:
        try: v = pv.Version(t)
        except Exception as e: v = e
        try: k = pep440.parse(t)
        except ValueError: k = None
        msg = None
        if isinstance(v, Exception):
            if not isinstance(v, ValueError): msg = 'Version(%r) raised %s, not a ValueError' % (t, type(v).__name__)
            elif k is not None: msg = 'Version(%r) rejected, PEP 440 accepts it' % t
        elif k is None: msg = 'Version(%r) accepted, PEP 440 rejects it' % t
        elif v.major != k['major']: msg = 'Version(%r).major = %r, release[0] = %r' % (t, v.major, k['major'])
        yield ('contract-parse', {'op': 'contract', 'a': t}, msg)
        if not isinstance(v, Exception) and k is not None: vs.append((t, v, k['key']))
    for ta, a, ka in vs:
        for tb, b, kb in vs:
            msg = None
            le, ge, eq = a <= b, a >= b, a == b
            if not (le or ge): msg = 'order not total'
            elif (le and ge) != eq: msg = 'antisymmetry up to == fails'
            elif (a < b) != (le and not eq) or (a > b) != (ge and not eq) or (a != b) != (not eq): msg = '<, >, != are not derived from <=, =='
            elif le != (ka <= kb) or eq != (ka == kb): msg = 'order differs from PEP 440 (%r vs %r)' % (le, ka <= kb)
            yield ('contract-pair', {'op': 'contract', 'a': ta, 'b': tb}, msg and '%s on %r, %r' % (msg, ta, tb))
    for _ in range(3000 if tier == 'quick' else 60000):
        (ta, a, _), (tb, b, _), (tc, c3, _) = rng.choice(vs), rng.choice(vs), rng.choice(vs)
        msg = None
        if a <= b and b <= c3 and not a <= c3: msg = 'transitivity fails on %r <= %r <= %r' % (ta, tb, tc)
        yield ('contract-triple', {'op': 'contract', 'a': ta, 'b': tb, 'c': tc}, msg)

def classify(c, io):
    return c['op'] + (':exn' if 'EXN' in io else '')

def search(rng, budget):
    for _ in range(budget):
        yield from gen_cases(rng, 'quick')

LEVEL_TEXT = ('Theorems, all unbounded (any length, any string): radix round trip and order on tuples and on dotted strings; convert_version_to_int on '
              'strings end to end (generated suffix regex through the backtracking engine, split, int(), reduce): suffix ignored for every alternative of '
              'the regex + digits (+ final newline), ValueError exactly when a component is not an int() literal (int() acceptance characterised exactly), '
              'no other outcome; VersionPredicate: the parser returns exactly the (operator, version) pairs for every comma-joined list of well-formed '
              'comparisons, the generated regex is characterised completely (functional description of the matcher, accepted <-> blanks op blanks version '
              'blanks), rejection families (blank/empty part, no operator, empty version, inner blanks), regex alternatives = keys of the operator map; '
              'is_compatible / satisfied_by / __init__ over the packaging contract. Regexes, template, radix, separator, operator map are regenerated; '
              'the functions are translated statement by statement and proved equal to the model (*_equiv).')
LEVEL_NOTE = ('Trusted: Coq kernel; translator (py2gal + the C17 extension in gen_versionutils.py; re._parser for regexes); CPython int()/str()/re '
              'semantics as modelled in Base/ (int() tied by correspondence); packaging.version as an abstract structure whose contract clauses are '
              'tested on every run and compared with an independent PEP 440 implementation. Closed under the global context (no axioms).')
