"""C01 / VHDX — ties the whole-buffer SPECIFICATION `vhdx_spec` (coq/Model/C01_Vhdx.v, theorem
C01_vhdx_refines_spec) to the implementation.

The extracted specification (driver built from coq/Extract/C01_Vhdx_x.v, op `vspec <data>`) is evaluated
on generated VHDX images; outside the two zones its verdict (escaped exception, format_match, complete,
virtual_size, safety) must equal what the REAL VHDXInspector reports after finish() under several
chunkings (one chunk, fixed sizes, cuts at +-1 of the structure boundaries, random cuts with empty
chunks).  Inside a zone only the classification is checked: the Coq zone must imply the plugin's zone.

Wiring (the lead; tools/props/C01.py is not edited here):

    import props.C01_vhdx_spec as _vx           # or: from props import C01_vhdx_spec as _vx
    def extra_checks(rng, tier):
        yield from _vx.extra_checks(rng, tier, zone=zone)
    # and, so that a disagreement on an input the theorem covers is never absorbed by the (wider) Python zone:
    #   first line of zone(c):   if c.get('nozone'): return None

Cases are ordinary C01 'insp' cases ({'op':'insp','fmt':'vhdx','n','bg','p','sizes'} + 'k':'vspec:<label>'),
so C01.zone / C01.data_of / --replay work on them unchanged.
"""
import os, sys, random, re, types
HERE = os.path.dirname(os.path.abspath(__file__))
TOOLS = os.path.dirname(HERE)
for _p in (TOOLS, os.path.join(TOOLS, 'gen')):
    if _p not in sys.path: sys.path.insert(0, _p)
import insp_obs, imgbuild

KI = 1024
DRIVER_ID = 'C01_Vhdx'
EXTRACT = 'Extract/C01_Vhdx_x.v'

# ------------------------------------------------------------------ the extracted specification
_exe = None
def spec_driver():
    """build (once) the driver that evaluates vhdx_spec; returns the executable path"""
    global _exe
    if _exe is None:
        import runner
        exe, err = runner.build_driver(types.SimpleNamespace(ID=DRIVER_ID, EXTRACT=EXTRACT))
        if err: raise RuntimeError('C01_vhdx_spec: ' + err)
        _exe = exe
    return _exe

def spec_eval(datas):
    """[bytes] -> [(verdict 5-tuple of str, F2 bool, F4 bool)] by the extracted Coq specification"""
    import runner
    outs = runner.run_model(spec_driver(), [runner.enc_arg('vspec') + ' ' + runner.enc_arg(bytes(d)) for d in datas])
    res = []
    for o in outs:
        f = o.split(';')
        if len(f) != 7: raise RuntimeError('C01_vhdx_spec: bad driver output %r' % o[:80])
        res.append((tuple(f[:5]), f[5] == 'True', f[6] == 'True'))
    return res

# ------------------------------------------------------------------ the implementation
def impl_verdict(data, sizes):
    """(exn, format_match, complete, virtual_size, safety) of the real VHDXInspector: chunks until the first
    exception, then finish()"""
    obs = insp_obs.observe('vhdx', data, sizes, queries=False)
    recs, _ = insp_obs.final_record(obs)
    exn = next((r.split(';')[0] for r in recs if not r.startswith('-;')), '-')
    f = recs[-1].split(';')
    return (exn,) + tuple(f[1:5])

# ------------------------------------------------------------------ cases
_RUN = re.compile(rb'[^\0]+(?:\0{1,63}[^\0]+)*')
def patches_of(data):
    """sparse encoding of `data` over a zero background: [[off, hex], ...] (zero gaps >= 64 bytes are skipped)"""
    return [[m.start(), m.group().hex()] for m in _RUN.finditer(data)]

def case_of(data, sizes, label):
    data = bytes(data)
    return {'op': 'insp', 'fmt': 'vhdx', 'n': len(data), 'bg': 'z', 'p': patches_of(data), 'sizes': list(sizes), 'k': 'vspec:' + label}

def data_of_case(c):
    b = bytearray(c['n'])
    for off, hx in c['p']:
        v = bytes.fromhex(hx)
        if off < c['n']:
            v = v[:c['n'] - off]; b[off:off + len(v)] = v
    return bytes(b)

def images(rng, tier):
    """(label, Image) — builder-style VHDX layouts: padding entries, region placement, counts at the limits,
    truncations at every structure boundary, field mutations, both zones"""
    B = lambda **kw: imgbuild.build('vhdx', rng, **kw)
    reps = {'quick': 1, 'thorough': 12}[tier]
    for _ in range(reps):
        yield 'valid', B()
        yield 'valid-pad', B(region_pad_before=rng.choice([1, 7, 40]), meta_pad_before=rng.choice([1, 9, 60]))
        yield 'meta-off', B(meta_offset=rng.choice([256 * KI, 256 * KI + 1, 300 * KI + 7, 2**20]))
        yield 'item-off', B(item_offset=rng.choice([64 * KI + 8, 65 * KI, 100000]))
        yield 'item-at-table-end', B(meta_pad_before=3, meta_pad_after=0, item_offset=32 + 32 * 4)
        for v in ([0, 4, 7, 8, 9, 16, 65536, 65537, 2**32 - 1] if _ == 0 else [rng.choice([0, 7, 9, 65537])]):
            yield 'item-len', B(item_length=v)
        yield 'no-meta-entry', B(include_meta_entry=False)
        yield 'no-vds-entry', B(include_vds_entry=False)
        yield 'no-vds-entry-long', B(include_vds_entry=False, tail=70000)
        # the limits, every boundary value (first round) — stored counts above/below the entries written
        for v in ([0, 1, 2046, 2047, 2048, 2049, 2**32 - 1] if _ == 0 else [rng.choice([2047, 2048])]):
            yield 'region-count', B(region_count=v)
        for v in ([0, 1, 200, 2046, 2047, 2048, 65535] if _ == 0 else [rng.choice([2047, 2048])]):
            yield 'meta-count', B(meta_count=v)
        yield 'region-count-guid-last', B(region_count=2048, region_entries=[(imgbuild.guid_bytes(imgbuild.GUID_BAT), 2**20, 0, 0)] * 2047
                                          + [(imgbuild.guid_bytes(imgbuild.GUID_METAREGION), 300 * KI, 2**20, 1)])
        yield 'meta-count-long', B(meta_count=rng.choice([200, 2047]), tail=70000)
        yield 'meta-full-table', B(meta_pad_before=2046, meta_pad_after=0, item_offset=65536, tail=rng.choice([0, 8, 4096]))
        yield 'regi', B(region_sig=b'regj')
        yield 'ident', B(ident=b'vhdxfilf')
        yield 'vds-second', B(meta_pad_before=2, meta_pad_after=3)
        yield 'far-meta', B(meta_offset=2**40 + 512)
        yield 'random-fill', B(fill='random')
        # the zones
        yield 'zone-back-meta', B(meta_offset=rng.choice([0, 64 * KI, 192 * KI, 200 * KI, 256 * KI - 1]))
        yield 'zone-back-item', B(meta_pad_before=0, meta_pad_after=3, item_offset=rng.choice([64, 100, 152]))
        yield 'zone-back-item-self', B(item_offset=rng.choice([0, 32, 40, 63]))
        # inside the plugin's (wider) Python zone F2 but outside the Coq zone: the entry table is not all there
        yield 'back-item-table-truncated', B(meta_offset=300 * KI, meta_pad_before=0, meta_pad_after=3, item_offset=100,
                                             length=300 * KI + rng.choice([64, 70, 127, 159]))
        yield 'zone-meta-sig-short', B(meta_offset=300 * KI, meta_sig=b'metadatb', length=300 * KI + rng.choice([8, 31, 32, 33]))
        yield 'zone-meta-sig', B(meta_sig=b'metadatb', tail=rng.choice([0, 70000]))
        img = B()
        for t in imgbuild.truncations(img):
            if rng.random() < (0.25 if tier == 'quick' else 1.0): yield 'trunc', t
        for _k in range(3 if tier == 'quick' else 12):
            yield 'mutated', imgbuild.mutate_fields(B(), rng)
        yield 'extended', imgbuild.extend(B(), rng.choice([1, 4096, 70000]), rng)
    for n in (0, 31, 32, 256 * KI - 1, 256 * KI, 300 * KI):
        yield 'zeros', types.SimpleNamespace(data=bytes(n), boundaries=[32, 192 * KI, 256 * KI])

def chunk_lists(rng, n, bounds):
    out = [[n] if n else []]
    k = rng.choice([4096, 65536, 100000])
    out.append([k] * ((n + k - 1) // k))
    bs = sorted({min(n, max(0, b + d)) for b in bounds for d in (-1, 0, 1)})
    if bs:
        cuts = sorted(set(rng.sample(bs, min(len(bs), rng.choice([1, 2, 3])))))
        out.append([b - a for a, b in zip([0] + cuts, cuts)])
    # a cut at EVERY structure boundary, and one byte past every boundary (each structure arrives split)
    for d in (0, 1, -1):
        cuts = sorted({min(n, max(0, b + d)) for b in bounds})
        if cuts: out.append([b - a for a, b in zip([0] + cuts, cuts)])
    cuts = sorted(rng.randint(0, n) for _ in range(rng.randint(1, 8)))
    sz = [b - a for a, b in zip([0] + cuts, cuts)]
    out.append([x for s in sz for x in ([0, s] if rng.random() < 0.3 else [s])] + [0])
    return out

# ------------------------------------------------------------------ the Coq zones, as Python predicates on the bytes
G_META = imgbuild.guid_bytes(imgbuild.GUID_METAREGION)
G_VDS = imgbuild.guid_bytes(imgbuild.GUID_VDS)
def _le(b, o, w): return int.from_bytes(b[o:o + w], 'little')
def zone_tight(d):
    """exactly zone_vhdx_backptr / zone_vhdx_metasig of coq/Model/C01_Vhdx.v: -> (F2 bool, F4 bool).
    (tools/props/C01.py zone() is a superset: it also looks for the size item in an entry table that the
    stream does not contain completely.)"""
    if len(d) < 256 * KI: return (False, False)
    t = d[192 * KI:256 * KI]
    if t[:4] != b'regi' or _le(t, 8, 4) >= 2048: return (False, False)
    for i in range(_le(t, 8, 4)):
        e = t[16 + 32 * i:48 + 32 * i]
        if e[:16] == G_META:
            mo = _le(e, 16, 8)
            mt = d[mo:mo + 64 * KI]
            f4 = len(mt) >= 32 and mt[:8] != b'metadata'
            f2 = mo < 256 * KI
            cnt = _le(mt, 10, 2); es = 32 + 32 * cnt
            if not f4 and len(mt) >= 32 and len(mt) >= es and cnt < 2048:
                for j in range(cnt):
                    me = mt[32 + 32 * j:64 + 32 * j]
                    if me[:16] == G_VDS:
                        f2 = f2 or _le(me, 16, 4) < es
                        break
            return (f2, f4)
    return (False, False)

def default_zone(c):
    import importlib
    return importlib.import_module('props.C01').zone(c)

def extra_checks(rng, tier, zone=None):
    """yields (name, case, message_or_None) in the runner's extra_checks protocol"""
    zone = zone or default_zone
    todo = [(lab, bytes(img.data), list(getattr(img, 'boundaries', []))) for lab, img in images(rng, tier)]
    specs = spec_eval([d for _, d, _ in todo])
    for (lab, data, bounds), (sv, f2, f4) in zip(todo, specs):
        c0 = case_of(data, [len(data)], lab)
        pz = zone(c0)
        # the Python rendering of the Coq zones agrees with the extracted Coq predicates
        tz = zone_tight(data)
        yield 'vspec-zone-eq', c0, (None if tz == (f2, f4) else
                                    'zone predicates: Coq says (F2,F4)=%r, their Python rendering zone_tight says %r' % ((f2, f4), tz))
        if f2 or f4:
            # the Coq zones must lie inside the plugin's (the theorem's hypothesis and the check's zone must agree)
            msg = None if pz else 'vhdx_spec: Coq zone %s holds but the plugin zone() is None' % ('F2' if f2 else 'F4')
            yield 'vspec-zone', c0, msg
            continue
        for sizes in chunk_lists(rng, len(data), bounds):
            iv = impl_verdict(data, sizes)
            c = case_of(data, sizes, lab)
            msg = None
            if iv != sv:
                msg = ('vhdx_spec (whole-buffer specification, input outside the Coq zones F2/F4) says %r but VHDXInspector reports %r under sizes %r'
                       % (sv, iv, sizes[:12]))
                c['nozone'] = True       # the theorem covers this input: a (wider) plugin zone must not absorb it
            yield 'vspec', c, msg

def selftest(tier='quick', seed=1):
    rng = random.Random(seed)
    n = bad = 0; cats = {}
    for name, c, msg in extra_checks(rng, tier):
        n += 1; cats[c['k']] = cats.get(c['k'], 0) + 1
        if msg:
            bad += 1; print('FAIL', name, c['k'], c['n'], c['sizes'][:8], msg)
    print('C01_vhdx_spec selftest: %d checks, %d failures' % (n, bad)); print(sorted(cats.items()))
    return bad

if __name__ == '__main__':
    sys.exit(1 if selftest(*(sys.argv[1:2] or ['quick'])) else 0)
