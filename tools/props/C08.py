"""C08 — mask_dict_password masks recursively and never modifies its argument (oslo_utils/strutils.py)

Cases are JSON node trees (so that a replay file is self-contained):
  ['s', str] ['i', int] ['f', float.hex] ['b', hex] ['n'] ['B', 0|1] ['l', [nodes]] ['t', [nodes]]
  ['m', kind, [[keynode, valuenode], ...]]     kind: 0 dict, 1 OrderedDict, 2 MappingProxyType, 3 read-only Mapping subclass
  ['x', kind, [[keynode, valuenode], ...]]   an object that is NOT a collections.abc.Mapping but has an items() method:
                kind 0 ad-hoc class, 1 list subclass with items(), 2 email.message.Message, 3 xml.etree Element (2, 3: str keys/values)
  ['r', name]   a reference to case['defs'][name]: every reference to one name is THE SAME OBJECT (DAG-shaped arguments:
                a mapping / list / str reachable twice or more, at one level or across depths); defs may refer to earlier defs
ops:  mdp  {'secret': str|None (None = call without the argument), 'd': node, 'defs': {name: node} (optional),
            'pre': [secrets] (optional: calls made on the same argument object before the observed one)}
      key  {'k': str}      the secret-key test alone, observed through mask_dict_password({k: 0}, 'M')
"""
import sys, os, collections, collections.abc, types, inspect
import gen_C08

ID = 'C08'
GEN = [('Gen/C08_Keys.v', gen_C08.generate_keys), ('Gen/C08_Shape.v', gen_C08.generate_shape), ('Gen/C08_Frame.v', gen_C08.generate_frame)]
EQUIV_FILES = ['Proofs/C08.v']
EXTRACT = 'Extract/C08_x.v'


def _su():
    from oslo_utils import strutils
    return strutils


# ------------------------------------------------------------------ values

class ROMapping(collections.abc.Mapping):
    """a read-only Mapping that is not a dict"""
    __slots__ = ('_d',)
    def __init__(self, d): self._d = d
    def __getitem__(self, k): return self._d[k]
    def __iter__(self): return iter(self._d)
    def __len__(self): return len(self._d)

class ItemsObj:
    """not a Mapping: an object that merely has items()"""
    def __init__(self, pairs): self._pairs = pairs
    def items(self): return list(self._pairs)

class ItemsList(list):
    """not a Mapping: a list (of pairs) subclass that has items()"""
    def items(self): return list(self)

def _duck(kind, pairs):
    if kind == 0: return ItemsObj(pairs)
    if kind == 1: return ItemsList(pairs)
    if kind == 2:
        import email.message
        m = email.message.Message()
        for k, v in pairs: m[k] = v
        return m
    import xml.etree.ElementTree as ET
    return ET.Element('e', dict(pairs))

def is_duck(o):
    return not isinstance(o, collections.abc.Mapping) and callable(getattr(o, 'items', None))

KIND_NAMES = {0: 'dict', 1: 'OrderedDict', 2: 'MappingProxyType', 3: 'ROMapping'}

def build(n, defs=None, memo=None, reg=None):
    if memo is None: memo = {}
    t = n[0]
    if t == 'r':
        if n[1] not in memo: memo[n[1]] = build(defs[n[1]], defs, memo, reg=n[1])
        return memo[n[1]]
    if t == 's': return n[1]
    if t == 'i': return n[1]
    if t == 'f': return float.fromhex(n[1])
    if t == 'b': return bytes.fromhex(n[1])
    if t == 'n': return None
    if t == 'B': return bool(n[1])
    if t == 'l': return [build(x, defs, memo) for x in n[1]]
    if t == 't': return tuple(build(x, defs, memo) for x in n[1])
    if t == 'x':
        return _duck(n[1], [(build(k, defs, memo), build(v, defs, memo)) for k, v in n[2]])
    if t == 'm':
        d = collections.OrderedDict() if n[1] == 1 else {}
        w = {0: d, 1: d, 2: types.MappingProxyType(d), 3: ROMapping(d)}[n[1]]
        if reg is not None: memo[reg] = w            # registered before it is filled: a def may (indirectly) contain itself
        for k, v in n[2]:
            d[build(k, defs, memo)] = build(v, defs, memo)
        return w
    raise ValueError('bad node %r' % (n,))

def expand(n, defs):
    """the tree a node denotes (references replaced by what they name)"""
    t = n[0]
    if t == 'r': return expand(defs[n[1]], defs)
    if t in ('l', 't'): return [t, [expand(x, defs) for x in n[1]]]
    if t in ('m', 'x'): return [t, n[1], [[expand(k, defs), expand(v, defs)] for k, v in n[2]]]
    return n

def kind_of(o):
    if type(o) is dict: return 0
    if type(o) is collections.OrderedDict: return 1
    if type(o) is types.MappingProxyType: return 2
    if type(o) is ROMapping: return 3
    if isinstance(o, dict): return 8          # some other dict subclass
    return 9

def tag(o):
    """injective text for a value the function must hand back as it is"""
    if o is None: return 'n'
    if isinstance(o, bool): return 'B%d' % o
    if isinstance(o, int): return 'i%d' % o
    if isinstance(o, float): return 'f' + o.hex()
    if isinstance(o, bytes): return 'b' + o.hex()
    if isinstance(o, str): return 'u%d:%s' % (len(o), o)
    if isinstance(o, tuple): return 't(' + ','.join(tag(x) for x in o) + ')'
    if isinstance(o, list): return 'l[' + ','.join(tag(x) for x in o) + ']'
    if isinstance(o, collections.abc.Mapping):
        return 'm%d{' % kind_of(o) + ','.join(tag(k) + '=' + tag(v) for k, v in o.items()) + '}'
    if is_duck(o):
        return 'X%s{' % type(o).__name__ + ','.join(tag(k) + '=' + tag(v) for k, v in o.items()) + '}'
    return 'X' + type(o).__name__

def canon_key(k):
    return ('s', k) if isinstance(k, str) else ('o', tag(k))

def canon(o):
    if isinstance(o, str): return ('S', o)
    if isinstance(o, collections.abc.Mapping):
        return ('M', kind_of(o), [(canon_key(k), canon(v)) for k, v in o.items()])
    return ('O', tag(o))

def ser(t):
    if t[0] in 'SO': return '%s%d:%s' % (t[0], len(t[1]), t[1])
    return 'M%d,%d:' % (t[1], len(t[2])) + ''.join('%s%d:%s' % (k[0], len(k[1]), k[1]) + ser(v) for k, v in t[2])

def unser(s, i=0):
    c = s[i]
    if c in 'SOso':
        j = s.index(':', i); n = int(s[i + 1:j])
        return (c, s[j + 1:j + 1 + n]), j + 1 + n
    if c == 'M':
        j = s.index(':', i); kd, n = s[i + 1:j].split(',')
        items = []; p = j + 1
        for _ in range(int(n)):
            k, p = unser(s, p); v, p = unser(s, p); items.append((k, v))
        return ('M', int(kd), items), p
    raise ValueError('unser at %d' % i)

def tokens(t):
    if t[0] in 'SO': return [t[0], t[1]]
    out = ['M', str(t[1]), str(len(t[2]))]
    for k, v in t[2]:
        out += [k[0], k[1]] + tokens(v)
    return out

def strings_under_mappings(t, acc):
    if t[0] == 'M':
        for _, v in t[2]:
            if v[0] == 'S': acc.append(v[1])
            else: strings_under_mappings(v, acc)
    return acc

def snapshot(o, seen=None):
    """deep picture of the argument: content, order, concrete types, and the identity of every container
    (an object met again — shared or cyclic — is recorded as a back reference)"""
    if seen is None: seen = {}
    if isinstance(o, (collections.abc.Mapping, list, tuple)):
        if id(o) in seen: return ('ref', seen[id(o)])
        seen[id(o)] = len(seen)
    if isinstance(o, collections.abc.Mapping):
        return ('M', kind_of(o), id(o), [(tag(k), id(k), snapshot(v, seen)) for k, v in o.items()])
    if isinstance(o, (list, tuple)):
        return (type(o).__name__, id(o), [snapshot(x, seen) for x in o])
    return (tag(o), id(o))

def mapping_ids(o, acc):
    if isinstance(o, collections.abc.Mapping):
        if id(o) in acc: return acc
        acc.add(id(o))
        if isinstance(o, (ROMapping,)): acc.add(id(o._d))
        for v in o.values(): mapping_ids(v, acc)
    elif isinstance(o, (list, tuple)):
        for x in o: mapping_ids(x, acc)
    return acc

def result_mapping_ids(r, acc):
    # only the mappings the function is to rebuild: the result and mappings stored directly in mappings
    if isinstance(r, collections.abc.Mapping):
        acc.add(id(r))
        for v in r.values(): result_mapping_ids(v, acc)
    return acc


# ------------------------------------------------------------------ object identity (op mdph)

def heap_of(obj, secret_obj):
    """a location for every object reachable from the argument through mapping values (by identity, pre-order),
    then one for the secret object.  Returns ({id: loc}, [objects], secret loc, whether '@s' is reported)."""
    locs = {}; objs = []
    stack = [obj]
    def visit(o):
        if id(o) in locs: return
        locs[id(o)] = len(objs); objs.append(o)
        if isinstance(o, collections.abc.Mapping):
            for v in o.values(): visit(v)
    visit(obj)
    # the identity of the secret is only reported when the secret object is not also an object of the argument
    # (CPython shares '' and one-character strings, and mask_password may hand its argument back)
    report = 0
    if id(secret_obj) not in locs:
        locs[id(secret_obj)] = len(objs); objs.append(secret_obj); report = 1
    return locs, objs, locs[id(secret_obj)], report

def ser_id(r, locs, secret_obj, report, depth=0):
    if depth > 80: return '!'
    ident = '@%d' % locs[id(r)] if id(r) in locs else '#'
    if isinstance(r, str):
        return 'S%d:%s' % (len(r), r) + ('@s' if (r is secret_obj and report) else '~')
    if isinstance(r, collections.abc.Mapping):
        out = 'M%d,%d%s:' % (kind_of(r), len(r), ident)
        for k, v in r.items():
            ck = canon_key(k)
            out += '%s%d:%s' % (ck[0], len(ck[1]), ck[1]) + ser_id(v, locs, secret_obj, report, depth + 1)
        return out
    t = tag(r)
    return 'O%d:%s' % (len(t), t) + ident

def _secret_obj(c):
    if c['secret'] is not None: return c['secret']
    return inspect.signature(_su().mask_dict_password).parameters['secret'].default

MODEL_FUEL = 64          # stands for the interpreter's recursion limit (generated structures are at most ~8 deep)

def impl_h(c):
    su = _su()
    obj = build(c['d'], c.get('defs'))
    secret_obj = _secret_obj(c)
    locs, objs, sloc, report = heap_of(obj, secret_obj)
    before = snapshot(obj)
    try:
        r = su.mask_dict_password(obj) if c['secret'] is None else su.mask_dict_password(obj, c['secret'])
    except RecursionError:
        out = 'EXN:RuntimeError'       # RecursionError is a RuntimeError; the model's fuel plays the recursion limit
    except Exception as e:
        out = 'EXN:' + type(e).__name__
    else:
        out = ser_id(r, locs, secret_obj, report)
    mut = 0 if snapshot(obj) == before else 1
    return 'MUT:%d H %s' % (mut, out)

def encode_h(c):
    su = _su()
    obj = build(c['d'], c.get('defs'))
    secret_obj = _secret_obj(c)
    if not isinstance(secret_obj, str): return None
    locs, objs, sloc, report = heap_of(obj, secret_obj)
    secs = []
    for s in (secret_obj, inspect.signature(su.mask_dict_password).parameters['secret'].default,
              inspect.signature(su.mask_password).parameters['secret'].default):
        if isinstance(s, str) and s not in secs: secs.append(s)
    table = []
    try:
        for s in sorted({o for o in objs if isinstance(o, str)}):
            for sec in secs:
                r = su.mask_password(s, sec)
                if type(r) is not str: return None
                table += [s, sec, r]
    except Exception:
        return None
    toks = []
    for o in objs:
        if isinstance(o, str): toks += ['S', o]
        elif isinstance(o, collections.abc.Mapping):
            toks += ['D', str(kind_of(o)), str(len(o))]
            for k, v in o.items():
                ck = canon_key(k)
                toks += [ck[0], ck[1], str(locs[id(v)])]
        else: toks += ['O', tag(o)]
    return ['mdph', str(MODEL_FUEL), str(sloc), str(report), '0', str(len(table) // 3)] + table + [str(len(objs))] + toks


# ------------------------------------------------------------------ implementation side

def _defaults():
    su = _su()
    return (inspect.signature(su.mask_dict_password).parameters, inspect.signature(su.mask_password).parameters)

def impl(c):
    su = _su()
    if c['op'] == 'key':
        k = c['k']
        try:
            r = su.mask_dict_password({k: 0}, 'M')
        except Exception as e:
            return 'EXN:' + type(e).__name__
        if isinstance(r, dict) and list(r.keys()) == [k]:
            if r[k] == 'M' and type(r[k]) is str: return 'True'
            if r[k] == 0 and type(r[k]) is int: return 'False'
        return 'OTHER:' + repr(r)[:80]
    if c['op'] == 'mdph': return impl_h(c)
    obj = build(c['d'], c.get('defs'))
    before = snapshot(obj)
    arg_ids = mapping_ids(obj, set())
    for s in c.get('pre', []):          # earlier calls on the same argument object, other secrets
        try: su.mask_dict_password(obj, s)
        except Exception: pass
    try:
        r = su.mask_dict_password(obj) if c['secret'] is None else su.mask_dict_password(obj, c['secret'])
    except Exception as e:
        out = 'EXN:' + type(e).__name__
        alias = 0
    else:
        out = ser(canon(r)) if isinstance(r, collections.abc.Mapping) else 'NONMAP:' + tag(r)
        alias = 1 if (result_mapping_ids(r, set()) & arg_ids) else 0
    mut = 0 if snapshot(obj) == before else 1
    return 'MUT:%d ALIAS:%d %s' % (mut, alias, out)

def project(c, io):
    if c['op'] == 'key': return io
    if c['op'] == 'mdph': return io.split(' ', 2)[2]
    return io.split(' ', 2)[2]

def _secret_of(c):
    if c['secret'] is not None: return c['secret']
    return inspect.signature(_su().mask_dict_password).parameters['secret'].default

def encode(c):
    if c['op'] == 'key':
        return ['key', c['k']]
    if c['op'] == 'mdph': return encode_h(c)
    su = _su()
    t = canon(build(c['d'], c.get('defs')))      # a DAG is encoded as the tree it denotes
    secret = _secret_of(c)
    if not isinstance(secret, str): return None
    strs = sorted(set(strings_under_mappings(t, [])))
    secs = []
    for s in (secret, inspect.signature(su.mask_dict_password).parameters['secret'].default,
              inspect.signature(su.mask_password).parameters['secret'].default):
        if isinstance(s, str) and s not in secs: secs.append(s)
    table = []
    try:
        for s in strs:
            for sec in secs:
                r = su.mask_password(s, sec)
                if type(r) is not str: return None        # contract "mask_password : str -> str -> str" not met
                table += [s, sec, r]
    except Exception:
        return None
    return ['mdp', secret, str(len(table) // 3)] + table + tokens(t)


# ------------------------------------------------------------------ oracle: the four rules, read directly

# the 35 sanitize keys of the property / documentation reading
SPEC_KEYS = ['adminpass', 'admin_pass', 'password', 'admin_password', 'auth_token', 'new_pass', 'auth_password',
             'secret_uuid', 'secret', 'sys_pswd', 'token', 'configdrive', 'chappassword', 'encrypted_key', 'private_key',
             'fernetkey', 'sslkey', 'passphrase', 'cephclusterfsid', 'octaviaheartbeatkey', 'rabbitcookie',
             'cephmanilaclientkey', 'pacemakerremoteauthkey', 'designaterndckey', 'cephadminkey', 'heatauthencryptionkey',
             'cephclientkey', 'keystonecredential', 'barbicansimplecryptokek', 'cephrgwkey', 'swifthashsuffix',
             'migrationsshkey', 'cephmdskey', 'cephmonkey', 'chapsecret']

def _contains_ci(k, fold, keys):
    """some run of characters of k equals a sanitize key once case is removed character by character
    with `fold` (which may expand one character into several) — a plain scan, no `in`, no whole-string fold"""
    f = [fold(ch) for ch in k]
    n = len(f)
    for sk in keys:
        m = len(sk)
        if m == 0: return True
        for i in range(n):
            got = ''; j = i
            while len(got) < m and j < n:
                got += f[j]; j += 1
                if not sk.startswith(got): break
            if got == sk: return True
    return False

def key_verdict(k):
    """True: the key contains a sanitize key case-insensitively under every reading (must be masked);
       False: under none (must not be); None: the readings disagree (non-ASCII letters whose lower()/casefold()
       differ, e.g. long s, sharp s; a match ending inside the expansion of dotted capital I) — the property
       text does not decide, the oracle accepts both.  Sanitize keys: the 35 of the property reading plus
       whatever else the module lists (a key may be added, none dropped)."""
    if not isinstance(k, str): return False
    keys = all_keys()
    a = _contains_ci(k, str.lower, keys)
    if k.isascii(): return a
    b = _contains_ci(k, str.casefold, keys)
    c = any(sk in k.lower() for sk in keys)
    d = any(sk in k.casefold() for sk in keys)
    return a if (a == b == c == d) else None

def expected(n, secret, mp):
    """the result the property prescribes for mapping node n: dict key -> list of acceptable canonical trees"""
    out = {}
    for kn, vn in n[2]:
        k = build(kn); ck = canon_key(k)
        if vn[0] == 'm':
            alts = [expected_tree(vn, secret, mp)]
        else:
            v = build(vn)
            plain = ('S', mp(v, secret)) if isinstance(v, str) else canon(v)
            kv = key_verdict(k)
            if kv is True: alts = [('S', secret)]
            elif kv is False: alts = [plain]
            else: alts = [('S', secret), plain]
        out[ck] = alts
    return out

def expected_tree(n, secret, mp):
    return ('X', expected(n, secret, mp))

def _match(res, exp, path):
    """res: canonical tree from the implementation; exp: ('X', {key: alternatives}) or a canonical tree"""
    if exp[0] != 'X':
        return None if res == exp else '%s: got %s, expected %s' % (path, ser(res)[:120], ser(exp)[:120])
    if res[0] != 'M': return '%s: a mapping was not rebuilt as a mapping: %s' % (path, ser(res)[:80])
    # "a new dict": any dict instance satisfies the text (the model, like the code, says exactly dict)
    if res[1] not in (0, 1, 8): return '%s: result container is not a dict (kind %d)' % (path, res[1])
    want = exp[1]
    got = {}
    for k, v in res[2]:
        if k in got: return '%s: duplicate key %r' % (path, k)
        got[k] = v
    if set(got) != set(want):
        return '%s: keys differ: missing %r, extra %r' % (path, sorted(set(want) - set(got))[:3], sorted(set(got) - set(want))[:3])
    for k, alts in want.items():
        msgs = [_match(got[k], a, path + '[%s]' % k[1][:30]) for a in alts]
        if all(msgs): return msgs[-1]
    return None

def oracle(c, io):
    su = _su()
    if c['op'] == 'key':
        kv = key_verdict(c['k'])
        if io not in ('True', 'False'): return 'mask_dict_password({%r: 0}) gives %s' % (c['k'], io)
        if kv is not None and io != str(kv):
            return 'key %r: masked=%s, but it %s a sanitize key case-insensitively' % (c['k'], io, 'contains' if kv else 'does not contain')
        return None
    if c['op'] == 'mdph':
        # model-free part: the argument is unmodified; on a cyclic argument nothing else is demanded
        if not io.startswith('MUT:0 '): return 'the argument was modified by the call'
        if c.get('cyclic'): return None
        c = dict(c, op='mdp')
        plain, alias = _strip_ids(io.split(' ', 2)[2])
        io = 'MUT:0 ALIAS:%d %s' % (alias, plain)
    mutf, aliasf, out = io.split(' ', 2)
    n = expand(c['d'], c.get('defs'))
    if mutf != 'MUT:0': return 'the argument was modified by the call'
    if n[0] != 'm':
        return None if out == 'EXN:TypeError' else 'non-mapping argument gives %s instead of TypeError' % out[:80]
    secret = _secret_of(c)
    def mp(v, s):
        r = su.mask_password(v, s)
        if type(r) is not str: raise TypeError('mask_password contract')
        return r
    try:
        exp = expected_tree(n, secret, mp)
    except Exception:
        return None      # mask_password itself raises on a value of this case: outside the contract, no verdict
    if out.startswith('EXN:') or out.startswith('NONMAP:'):
        return 'mapping argument gives %s' % out[:80]
    res, p = unser(out)
    msg = _match(res, exp, 'result')
    if msg: return msg
    if aliasf != 'ALIAS:0': return 'a mapping inside the result is an object of the argument (not a new dict)'
    return None

def _strip_ids(s):
    """the plain serialisation (ser) of an identity-annotated one (ser_id)"""
    if s.startswith('EXN:'): return s, 0
    out = []; alias = [0]
    def node(i):
        c0 = s[i]
        if c0 in 'SOso':
            j = s.index(':', i); n = int(s[i + 1:j]); e = j + 1 + n
            out.append(s[i:e])
            if c0 in 'so': return e
            if c0 == 'S': return e + (2 if s.startswith('@s', e) else 1)
            if s[e] == '#': return e + 1
            k = e + 1
            while k < len(s) and s[k].isdigit(): k += 1
            return k
        if c0 == 'M':
            j = s.index(':', i); head = s[i + 1:j]
            kd, rest = head.split(',')
            n = ''
            while rest and rest[0].isdigit(): n += rest[0]; rest = rest[1:]
            if rest.startswith('@'): alias[0] = 1
            out.append('M%s,%s:' % (kd, n)); p = j + 1
            for _ in range(int(n)):
                p = node(p); p = node(p)
            return p
        raise ValueError('strip at %d' % i)
    node(0)
    return ''.join(out), alias[0]

def classify(c, io):
    if c['op'] == 'key': return 'key:' + io[:5]
    if c['op'] == 'mdph': return 'mdph:%s%s' % ('cyclic' if c.get('cyclic') else 'dag' if c.get('defs') else 'tree', ':exn' if ' EXN:' in io else '')
    n = c['d']
    if c.get('defs'): return 'mdp:dag%s' % (':exn' if ' EXN:' in io else '')
    return 'mdp:%s%s' % (KIND_NAMES.get(n[1], '?') if n[0] == 'm' else 'nonmapping', ':exn' if ' EXN:' in io else '')


# ------------------------------------------------------------------ generators

def module_keys():
    try:
        ks = list(_su()._SANITIZE_KEYS)
        return [k for k in ks if isinstance(k, str)]
    except Exception:
        return []

def all_keys():
    out = list(SPEC_KEYS)
    for k in module_keys():
        if k not in out: out.append(k)
    return out

SECRETS = ['***', '???', '', 'X', '<masked>', 'sëcret★', 'password', '*' * 12, ' ']
WORDS = ['user', 'name', 'id', 'x', 'db', 'os', 'my', 'old', 'the', 'config', 'key', 'pass', 'auth', 'admin', 'a1', '0']
SEPS = ['', '_', '-', '.', ' ', ':', '/', '__']
# non-ASCII characters that interact with lower()/casefold(): KELVIN SIGN (lower = k), I WITH DOT ABOVE
# (lower = i + U+0307), LONG S (casefold = s), SHARP S (casefold = ss), capital/final/small sigma,
# fullwidth letters, Cyrillic look-alikes, a combining mark
ODD = ['K', 'İ', 'ſ', 'ß', 'Σ', 'ς', 'σ', 'Ｐ', 'ｐ', 'а', 'е', '̇', 'Å', 'ẞ', '\U00010400']

def case_variants(rng, k):
    alt = ''.join(ch.upper() if i % 2 else ch for i, ch in enumerate(k))
    rnd = ''.join(ch.upper() if rng.random() < 0.5 else ch for ch in k)
    return [k, k.upper(), k.title(), alt, alt.swapcase(), rnd]

def near_miss(rng, k):
    i = rng.randrange(len(k))
    r = rng.randrange(9)
    if r == 0: return k[:i] + k[i + 1:]
    if r == 1: return k[:i] + rng.choice('xq_-0 ') + k[i:]
    if r == 2: return k[:i] + rng.choice('xqz0') + k[i + 1:]
    if r == 3 and len(k) > 1:
        i = min(i, len(k) - 2); return k[:i] + k[i + 1] + k[i] + k[i + 2:]
    if r == 4: return k[1:]
    if r == 5: return k[:-1]
    if r == 6: return k[:i] + rng.choice(ODD) + k[i + 1:]
    if r == 7:
        sub = {'k': 'K', 'i': 'İ', 's': 'ſ', 'p': 'ｐ', 'a': 'а', 'e': 'е'}
        idx = [j for j, ch in enumerate(k) if ch in sub]
        if idx:
            j = rng.choice(idx); return k[:j] + sub[k[j]] + k[j + 1:]
    return k[:i] + rng.choice(SEPS[1:]) + k[i:]

def embed(rng, core):
    r = rng.randrange(6)
    pre = rng.choice(WORDS) + rng.choice(SEPS)
    post = rng.choice(SEPS) + rng.choice(WORDS)
    if rng.random() < 0.15: pre = rng.choice(ODD) + pre
    if rng.random() < 0.15: post = post + rng.choice(ODD)
    if rng.random() < 0.3: pre = pre.upper()
    if r == 0: return core
    if r == 1: return pre + core
    if r == 2: return core + post
    if r == 3: return pre + core + post
    if r == 4: return core + str(rng.randrange(100))
    return rng.choice(ODD) + core + rng.choice(ODD)

def str_key(rng, keys):
    r = rng.random()
    if r < 0.45:
        return embed(rng, rng.choice(case_variants(rng, rng.choice(keys))))
    if r < 0.7:
        nm = near_miss(rng, rng.choice(keys))
        if rng.random() < 0.5: nm = rng.choice([nm.upper(), nm.title()])
        return embed(rng, nm)
    if r < 0.9:
        return rng.choice(WORDS) + rng.choice(SEPS) + rng.choice(WORDS)
    return rng.choice(['', ' ', 'Password ', 'PASS WORD', 'tok en', 'pass​word', 'pаssword', 'TOKEN', 'toKen',
                       'admİnpass', 'tokenİ', 'ſecret', 'SECRETΣ', 'paßphrase', 'Ｐassword',
                       'secret', 'SSLKEY', 'sslKey2', 'key', 'ssl_key', '\U00010400token', 'tokentoken', 'passwordsecret'])

def other_key(rng, keys):
    r = rng.randrange(8)
    if r == 0: return ['i', rng.choice([0, 1, -1, 7, 42, 2 ** 70])]
    if r == 1: return ['t', [['s', rng.choice(keys)], ['i', rng.randrange(5)]]]
    if r == 2: return ['b', rng.choice(keys).encode().hex()]
    if r == 3: return ['b', bytes([rng.randrange(256) for _ in range(rng.randrange(4))]).hex()]
    if r == 4: return ['n']
    if r == 5: return ['t', [['s', rng.choice(keys).upper()]]]
    if r == 6: return ['f', rng.choice([0.5, -2.25, 1e300]).hex()]
    return ['t', []]

def str_value(rng, keys):
    k = rng.choice(keys)
    kk = rng.choice([k, k.upper(), k.title()])
    pw = rng.choice(['abc123', 'p@ss w0rd', "x'y", 'a"b', 'über', '', 'secret', 'l0ng-' * 3])
    r = rng.randrange(14)
    if r == 0: return "%s = '%s'" % (kk, pw)
    if r == 1: return '%s=%s' % (kk, pw)
    if r == 2: return '--%s %s --other 5' % (kk, pw)
    if r == 3: return '{"%s": "%s", "user": "bob"}' % (kk, pw)
    if r == 4: return "{'%s': u'%s'}" % (kk, pw)
    if r == 5: return '<%s>%s</%s>' % (kk, pw, kk)
    if r == 6: return 'nothing to see here'
    if r == 7: return ''
    if r == 8: return 'user=bob host=example.org port=5432'
    if r == 9: return kk
    if r == 10: return 'the %s is %s' % (kk, pw)
    if r == 11: return "'%s', '--%s', '%s'" % (kk, rng.choice(['p', 'pw']), pw)
    if r == 12: return 'line1\n%s : "%s"\nline3' % (kk, pw)
    return rng.choice(ODD) + ' %s="%s" ' % (kk, pw) + rng.choice(ODD)

def other_value(rng, keys, depth):
    r = rng.randrange(12)
    if r == 11:
        kd = rng.randrange(4)
        pairs = [[['s', rng.choice(keys)], ['s', 'hunter2']], [['s', 'user'], ['s', str_value(rng, keys)]]]
        if kd < 2 and rng.random() < 0.5: pairs.append([['i', 3], ['m', 0, [[['s', rng.choice(keys)], ['i', 1]]]]])
        return ['x', kd, pairs]
    if r == 0: return ['i', rng.choice([0, 1, -5, 10 ** 20])]
    if r == 1: return ['f', rng.choice([0.0, -0.0, 1.5, float('inf'), float('nan'), 1e-310]).hex()]
    if r == 2: return ['n']
    if r == 3: return ['B', rng.randrange(2)]
    if r == 4: return ['b', ('%s=%s' % (rng.choice(keys), 'hunter2')).encode().hex()]
    if r == 5: return ['b', bytes([rng.randrange(256) for _ in range(rng.randrange(5))]).hex()]
    if r == 6: return ['l', []]
    if r == 7: return ['l', [['s', str_value(rng, keys)], ['i', 3], ['n']]]
    if r == 8: return ['l', [['m', rng.randrange(4), [[['s', rng.choice(keys)], ['s', 'hunter2']]]]]]      # a dict inside a list: as it is
    if r == 9: return ['t', [['s', '%s=%s' % (rng.choice(keys), 'hunter2')], ['i', 1]]]
    return ['l', [['l', [['s', rng.choice(keys)]]], ['b', '00ff']]]

def _hashkey(kn):
    return build(kn)

def mapping(rng, keys, depth, maxdepth, maxwidth, kinds=(0, 0, 0, 1, 2, 3)):
    """depth counts mapping levels: a mapping whose values are no mappings has depth 1"""
    width = rng.choice([0, 1, 1, 2, 3, 4, 5]) if maxwidth >= 5 else rng.randint(0, maxwidth)
    width = min(width, maxwidth)
    items = []; seen = set()
    for _ in range(width):
        kn = ['s', str_key(rng, keys)] if rng.random() < 0.8 else other_key(rng, keys)
        hk = _hashkey(kn)
        if hk in seen: continue
        seen.add(hk)
        r = rng.random()
        if depth < maxdepth and r < 0.35:
            vn = mapping(rng, keys, depth + 1, maxdepth, maxwidth, kinds)
        elif r < 0.7:
            vn = ['s', str_value(rng, keys)]
        else:
            vn = other_value(rng, keys, depth)
        items.append([kn, vn])
    return ['m', rng.choice(kinds), items]

def chain(rng, keys, depth, leafkey, leafval):
    """a chain of mappings of the given depth, every level under a secret key, of mixed kinds"""
    n = ['m', rng.randrange(4), [[['s', leafkey], leafval]]]
    for _ in range(depth - 1):
        n = ['m', rng.randrange(4), [[['s', rng.choice(keys) if rng.random() < 0.7 else 'nested'], n], [['s', 'user'], ['s', 'bob']]]]
    return n

def duck_cases(rng, keys):
    """non-Mappings that have items(): as the argument (TypeError) and as values (non-mapping values)"""
    S = lambda x: ['s', x]
    strpairs = [[S('password'), S('hunter2')], [S('user'), S("token = 'abc'")]]
    anypairs = strpairs + [[['i', 1], ['m', 0, [[S('secret'), S('x')]]]], [S('n'), ['l', []]]]
    ducks = [['x', 0, anypairs], ['x', 0, []], ['x', 1, anypairs], ['x', 1, []], ['x', 2, strpairs], ['x', 2, []], ['x', 3, strpairs], ['x', 3, []]]
    for d in ducks:
        yield {'d': d}
        for kd in range(4):
            yield {'d': ['m', kd, [[S('obj'), d], [S('Admin_Password'), d], [['i', 7], d], [S('user'), S('password=abc')]]]}
        yield {'d': ['m', 0, [[S('n'), ['m', 3, [[S('token'), d], [S('inner'), d]]]], [S('l'), ['l', [d]]]]]}
        yield {'defs': {'o': d}, 'd': ['m', 0, [[S('a'), ['r', 'o']], [S('secret'), ['r', 'o']], [S('n'), ['m', 1, [[S('b'), ['r', 'o']]]]]]]}

def dag_boundary(rng, keys):
    """the same object referenced 2-3 times at one level and across depths: every mapping kind, empty and not;
    shared lists / strings; a shared mapping that itself holds a shared mapping"""
    S = lambda x: ['s', x]
    R = lambda x: ['r', x]
    for kd in range(4):
        for inner in ([], [[S('token'), S('hunter2')], [S('user'), S("password='abc'")]]):
            d = ['m', kd, inner]
            for top_kd in (0, 3):
                yield {'defs': {'d': d}, 'd': ['m', top_kd, [[S('a'), R('d')], [S('b'), R('d')]]]}
                yield {'defs': {'d': d}, 'd': ['m', top_kd, [[S('password'), R('d')], [S('x'), R('d')], [['i', 3], R('d')]]]}
                yield {'defs': {'d': d}, 'd': ['m', top_kd, [[S('a'), R('d')], [S('n'), ['m', kd, [[S('c'), R('d')]]]]]]}
                yield {'defs': {'d': d}, 'd': ['m', top_kd, [[S('n'), ['m', 0, [[S('secret'), ['m', 1, [[S('c'), R('d')]]]]]]], [S('z'), R('d')]]]}
            yield {'defs': {'d': d, 'e': ['m', (kd + 1) % 4, [[S('p'), R('d')], [S('q'), R('d')]]]},
                   'd': ['m', 0, [[S('e1'), R('e')], [S('auth_token'), R('e')], [S('d'), R('d')]]]}
    for leaf in (['l', [S('password=hunter2'), ['m', 0, [[S('secret'), S('x')]]]]], ['l', []], S("token = 'abc'"), ['b', '70617373'], ['t', [['i', 1]]]):
        yield {'defs': {'v': leaf}, 'd': ['m', 0, [[S('a'), R('v')], [S('password'), R('v')], [S('n'), ['m', 2, [[S('c'), R('v')]]]]]]}

def dag_case(rng, keys):
    defs = {}; names = []
    for i in range(rng.randint(1, 3)):
        r = rng.random()
        if r < 0.25: node = ['m', rng.randrange(4), []]
        elif r < 0.75:
            node = mapping(rng, keys, 1, 2, 3)
            if names and rng.random() < 0.5:      # a shared mapping holding an earlier shared object (once or twice)
                for j in range(rng.randint(1, 2)):
                    node[2].append([['s', 'ref%d_%s' % (j, rng.choice(WORDS))], ['r', rng.choice(names)]])
        elif r < 0.9: node = other_value(rng, keys, 0)
        else: node = ['s', str_value(rng, keys)]
        nm = 'd%d' % i; defs[nm] = node; names.append(nm)
    def level(depth):
        items = []; seen = set()
        for _ in range(rng.randint(2, 5)):
            ks = str_key(rng, keys) if rng.random() < 0.8 else None
            kn = ['s', ks] if ks is not None else other_key(rng, keys)
            hk = build(kn)
            if hk in seen: continue
            seen.add(hk)
            r = rng.random()
            if r < 0.6: vn = ['r', rng.choice(names)]
            elif r < 0.8 and depth < 2: vn = level(depth + 1)
            elif r < 0.9: vn = ['s', str_value(rng, keys)]
            else: vn = other_value(rng, keys, depth)
            items.append([kn, vn])
        return ['m', rng.choice((0, 0, 1, 2, 3)), items]
    return {'defs': defs, 'd': level(1)}

VALUE_SAMPLES = [['s', 'hunter2'], ['s', ''], ['i', 5], ['n'], ['b', '68756e74657232'], ['l', [['s', 'hunter2']]], ['f', (1.5).hex()], ['B', 1],
                 ['t', [['i', 1]]], ['m', 0, []], ['m', 3, [[['s', 'user'], ['s', 'bob']]]]]

def boundary_cases(rng, keys):
    sec = lambda: rng.choice(SECRETS)
    # non-mapping arguments
    for n in [['s', 'password'], ['i', 0], ['n'], ['l', []], ['l', [['m', 0, []]]], ['b', '00'], ['t', []], ['f', (0.0).hex()], ['B', 0],
              ['l', [['t', [['s', 'password'], ['s', 'x']]]]], ['t', [['t', [['s', 'a'], ['i', 1]]]]]]:
        yield {'op': 'mdp', 'secret': sec(), 'd': n}
        yield {'op': 'mdp', 'secret': None, 'd': n}
    # empty mappings of every kind
    for kd in range(4):
        yield {'op': 'mdp', 'secret': sec(), 'd': ['m', kd, []]}
        yield {'op': 'mdp', 'secret': None, 'd': ['m', kd, [[['s', 'password'], ['s', 'x']], [['s', 'k'], ['m', kd, [[['s', 'token'], ['i', 1]]]]]]]}
    # objects with an items() method that are not Mappings
    for c in duck_cases(rng, keys):
        yield dict(c, op='mdp', secret=sec())
    # DAG-shaped arguments (one object reachable several times), also after earlier calls with other secrets
    for c in dag_boundary(rng, keys):
        yield dict(c, op='mdp', secret=sec())
    for i, c in enumerate(dag_boundary(rng, keys)):
        if i % 3 == 0: yield dict(c, op='mdp', secret=None, pre=['???'])
    d3 = ['m', 0, [[['s', 'user'], ['s', "password='abc' token=xyz"]], [['s', 'n'], ['m', 3, [[['s', 'note'], ['s', '--password abc']]]]]]]
    for a, b in (('***', '???'), ('???', '***'), ('X', ''), ('', 'X')):
        yield {'op': 'mdp', 'secret': b, 'pre': [a], 'd': d3}
        yield {'op': 'mdp', 'secret': b, 'pre': [a, b, a], 'd': d3}
    # every sanitize key x case variant x position, alone in a dict, against every kind of value
    for k in keys:
        for cv in case_variants(rng, k):
            for pos in range(4):
                ks = [cv, 'my_' + cv, cv + '2', 'x-' + cv + '.old'][pos]
                vn = VALUE_SAMPLES[rng.randrange(len(VALUE_SAMPLES))]
                yield {'op': 'mdp', 'secret': sec(), 'd': ['m', rng.randrange(4), [[['s', ks], vn], [['s', 'user'], ['s', "password='abc'"]]]]}
        for vn in VALUE_SAMPLES:
            yield {'op': 'mdp', 'secret': sec(), 'd': ['m', 0, [[['s', k], vn]]]}
        # the key at depth 2..4 with a mapping under a secret key on the way
        for depth in (2, 3, 4):
            yield {'op': 'mdp', 'secret': sec(), 'd': chain(rng, keys, depth, rng.choice(case_variants(rng, k)), rng.choice(VALUE_SAMPLES))}
        # the same text as a key that is not a str
        yield {'op': 'mdp', 'secret': sec(), 'd': ['m', 0, [[['b', k.encode().hex()], ['s', 'hunter2']], [['t', [['s', k]]], ['s', 'hunter2']], [['i', 1], ['s', '%s=hunter2' % k]]]]}
        yield {'op': 'key', 'k': k}
        yield {'op': 'key', 'k': k.upper()}
        for _ in range(3): yield {'op': 'key', 'k': near_miss(rng, k)}

def cyclic_cases(rng, keys):
    S = lambda x: ['s', x]; R = lambda x: ['r', x]
    for kd in range(4):
        yield {'defs': {'d': ['m', kd, [[S('self'), R('d')]]]}, 'd': R('d')}
        yield {'defs': {'d': ['m', kd, [[S('password'), S('x')], [S('n'), ['m', 0, [[S('back'), R('d')], [S('token'), ['i', 1]]]]]]]}, 'd': R('d')}
        yield {'defs': {'d': ['m', kd, [[S('a'), R('e')]]], 'e': ['m', 3 - kd, [[S('secret'), R('d')], [S('l'), ['l', []]]]]},
               'd': ['m', 0, [[S('x'), S('password=abc')], [S('cyc'), R('d')]]]}

def gen_cases(rng, tier):
    for c in _gen_cases(rng, tier):
        yield c
        if c['op'] == 'mdp' and 'pre' not in c:
            yield dict(c, op='mdph')        # the same argument through the identity-aware comparison
    for c in cyclic_cases(rng, all_keys()):
        yield dict(c, op='mdph', secret=rng.choice(SECRETS), cyclic=True)

def _gen_cases(rng, tier):
    keys = all_keys()
    yield from boundary_cases(rng, keys)
    n = 2500 if tier == "quick" else 150000
    for i in range(n):
        r = rng.random()
        secret = None if rng.random() < 0.12 else rng.choice(SECRETS)
        if r < 0.12:
            c = dag_case(rng, keys)
            c.update(op='mdp', secret=secret)
            if rng.random() < 0.3: c['pre'] = [rng.choice(SECRETS) for _ in range(rng.randint(1, 2))]
            yield c
        elif r < 0.55:
            big = tier != 'quick' and rng.random() < 0.05
            c = {'op': 'mdp', 'secret': secret, 'd': mapping(rng, keys, 1, 6 if big else 4, 8 if big else 5)}
            if rng.random() < 0.1: c['pre'] = [rng.choice(SECRETS) for _ in range(rng.randint(1, 2))]
            yield c
        elif r < 0.62:
            yield {'op': 'mdp', 'secret': secret, 'd': chain(rng, keys, rng.randint(1, 4), str_key(rng, keys), rng.choice(VALUE_SAMPLES))}
        elif r < 0.66:
            yield {'op': 'mdp', 'secret': secret, 'd': rng.choice([['s', str_value(rng, keys)], other_value(rng, keys, 0), other_value(rng, keys, 0)])}
        else:
            yield {'op': 'key', 'k': str_key(rng, keys)}

def search(rng, budget):
    for _ in range(budget):
        yield from gen_cases(rng, 'quick')


RULE = ('every sanitize key (35 of the property reading + whatever the module lists) x 6 case variants x 4 positions x value kinds, alone and at depth 2-4 '
        'under secret keys; random mappings depth <= 4 width <= 5 (thorough: 5% up to depth 6 width 8) over dict/OrderedDict/MappingProxyType/read-only Mapping, '
        'keys str (embedded keys, near-misses, Kelvin sign / dotted I / long s / sharp s / sigma / fullwidth / Cyrillic) or int/tuple/bytes/None/float, '
        'values str (12 secret-bearing shapes and plain), bytes, numbers incl. nan/inf, None, bool, lists/tuples (also holding dicts), mappings; '
        'non-mapping arguments incl. objects that merely have an items() method (ad-hoc class, list subclass, email Message, xml Element) — also as values under '
        'ordinary and secret keys; secrets incl. empty, non-ASCII, default; DAG-shaped arguments (one mapping object — every kind, empty and not — or one list/str '
        'referenced 2-3 times at one level and across depths, shared mappings holding shared mappings); repeated calls on one argument object with '
        'different secrets before the observed call; every mdp case again through the identity-aware comparison (op mdph); self-containing (cyclic) '
        'mappings of every kind; key-test stream; distinct = distinct case JSON')
LEVEL_TEXT = ('Proved for nested mappings of any depth and width (no bound): the result satisfies the four-rule relation Masked (mapping -> recursed whatever '
              'the key; non-mapping under a secret str key -> the mask; other str -> mask_password; anything else unchanged), Masked is functional, the keys '
              'are the same in the same order at every level and every rebuilt container is a dict, a mapping under a secret key is recursed into, a '
              'non-mapping argument gives TypeError; the 35 documented keys are all in the regenerated key list and the key test is substring-of-lower(). '
              'The loop body is regenerated from the AST as a term and evaluated by the model (reordered branches / dropped recursion change it). '
              'Object identity is modelled by a heap semantics (locations, objects, values are references; out = {} allocates, out[k] = ... writes to that '
              'location only; where the function writes and what it returns are regenerated from the source): C08_argument_unmodified — every location that '
              'existed before the call holds the same object afterwards, for ANY heap (shared, cyclic); C08_heap_agrees_with_tree_and_result_fresh — for an '
              'acyclic (arbitrarily shared) argument the call succeeds, the result reads back as exactly the functional model\'s tree, and every dict in it '
              'was allocated by the call; C08_result_sharing — secret slots are the secret reference, lists/bytes/numbers are the argument\'s own references; '
              'C08_cycle_RecursionError. The implementation\'s `is` relation between result slots and argument objects is compared with the model\'s on every case.')
LEVEL_NOTE = ('Trusted: Coq kernel; translator tools/gen/gen_C08.py (syntactic AST-to-term; evaluated key list; write targets / return variable); CPython '
              'isinstance/dict/str.lower as modelled (Base/Str.py_lower from the interpreter\'s Unicode table, final-sigma rule proved irrelevant for sigma-free '
              'keys); the heap abstraction (keys inline, items() read when the loop starts, strings immutable); mask_password is an abstract function (Section '
              'variables mp / mp_h with the contract "only allocates; returns a reference holding mask_password(message, secret)" as premises), instantiated in '
              'the correspondence by the real function\'s graph.')
TRUSTED = ['mask_password is abstract in the theorems (Section variable, total str -> str -> str); the correspondence supplies the real function\'s graph, '
           'the oracle calls the real function for rule 3',
           'str.lower() = Base/Str.py_lower (per-code-point table regenerated from the running CPython); the context-sensitive final-sigma rule is not '
           'modelled and proved irrelevant for key lists without sigma (C08_final_sigma_irrelevant)']
ASSUMPTIONS = ['"never modifies its argument" / "new dict" are theorems about the HEAP MODEL (Model/C08_Heap.v), tied to the implementation by comparing, on every case, '
               'content plus identity of every result slot (argument object @loc / allocated by the call / the secret object) and by the before/after snapshot of the '
               'argument (content, order, types, object identities); identity of strings returned by mask_password is not compared (CPython may hand its argument back)',
               'cyclic arguments: the model\'s fuel stands for the interpreter\'s recursion limit (RecursionError is reported as its base class RuntimeError); only '
               'non-modification is demanded of the implementation there',
               'the functional model has no object identity: an argument in which one object is reachable several times (a DAG) is encoded for the model as '
               'the tree it denotes; the implementation is run on the real shared objects, and the two occurrences in the result may or may not be one object '
               '(neither is demanded)',
               'mappings have pairwise distinct keys at every level (hypothesis wf of the theorems; true of every dict / Mapping built by the harness)',
               'secrets are str without backslashes (a backslash makes mask_password\'s own re template raise; such cases give no verdict)',
               'keys whose case-insensitive reading is ambiguous (lower() vs casefold() disagree: long s, sharp s, dotted capital I at a match border) '
               'are accepted either way by the oracle; the model follows lower()']
