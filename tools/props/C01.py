"""C01 — image inspection verdict depends on the bytes only, never on the chunking
(oslo_utils/imageutils/format_inspector.py).  Also the correspondence harness of the SHARED
inspector model (coq/Model/Insp_*.v) that C02, C03, C05, C07 build on.

A case is  {'op':'insp', 'fmt', 'n', 'bg', 'p':[[off, hex],...], 'sizes':[...], ['late':hex], 'k':label}
  data  = background `bg` ('z' zeros | 'r<seed>' random | 't<seed>' printable text) of length n with the
          patches p applied in order (clipped to n);
  sizes = chunk sizes (the rest, if any, is one more chunk; 0 = empty chunk);
  late  = a chunk presented after finish().
"""
import sys, os, random, struct, uuid
import gen_insp, gen_insp_engine, gen_insp_hooks
sys.path.insert(0, os.path.dirname(os.path.dirname(os.path.abspath(__file__))))
import insp_obs

import os
ID = 'C01'
GEN = [('Gen/Insp_Consts.v', gen_insp.generate), ('Gen/Insp_Code.v', gen_insp.generate_code),
       ('Gen/Insp_EngineCode.v', gen_insp_engine.generate), ('Gen/Insp_FormatCode.v', gen_insp_engine.generate_formats),
       ('Gen/Insp_HookCode.v', lambda: gen_insp_hooks.generate(HOOKS))]
HOOKS = ('qcow', 'vhdx', 'vmdk')
EQUIV_FILES = ['Proofs/Insp_Equiv.v', 'Proofs/Insp_EngineEquiv.v', 'Proofs/Insp_FormatEquiv.v', 'Proofs/Insp_FormatMatchEquiv.v', 'Proofs/Insp_HookEquiv.v']
# further theorem files are picked up when present (VMDK / VHDX refinement, wrapper verdict)
THEOREM_FILES = ['Properties/C01.v'] + [f for f in ('Properties/C01_Vmdk.v', 'Properties/C01_Vhdx.v', 'Properties/C01_Wrapper.v')
                                        if os.path.exists(os.path.join(os.path.dirname(os.path.dirname(os.path.dirname(os.path.abspath(__file__)))), 'coq', f))]
EXTRACT = 'Extract/Insp_x.v'
FORMATS = ['raw', 'qcow2', 'vhd', 'vhdx', 'vmdk', 'vdi', 'qed', 'iso', 'gpt', 'luks']
KI = 1024

# ------------------------------------------------------------------ data
_cache = {}
def background(bg, n):
    if bg == 'z': return bytearray(n)
    r = random.Random(int(bg[1:]))
    if bg[0] == 'r': return bytearray(r.randbytes(n))
    if bg[0] == 't':
        alpha = b'abcdefghijklmnopqrstuvwxyzABCDEFGHIJKLMNOPQRSTUVWXYZ0123456789 =#"/._-\n\n\t'
        return bytearray(r.choice(alpha) for _ in range(n))
    raise KeyError(bg)

def data_of(c):
    key = (c['n'], c['bg'], repr(c['p']))
    d = _cache.get(key)
    if d is None:
        b = background(c['bg'], c['n'])
        for off, hx in c['p']:
            v = bytes.fromhex(hx)
            if off < c['n']:
                v = v[:c['n'] - off]
                b[off:off + len(v)] = v
        d = bytes(b)
        if len(_cache) > 64: _cache.clear()
        _cache[key] = d
    return d

# ------------------------------------------------------------------ layout builders -> (n, patches, boundaries)
def P(off, b): return [off, bytes(b).hex()]
SIZES = [0, 1, 511, 512, 513, 2**31 - 1, 2**32, 2**32 + 1, 2**63, 2**64 - 1]
def rsize(rng, bits=64):
    r = rng.random()
    if r < 0.5: return rng.choice([s for s in SIZES if s < 2**bits])
    return rng.getrandbits(rng.randint(1, bits))

def b_raw(rng, **kw):
    return rng.choice([0, 1, 100, 512, 2000]), [], [1, 512]

def b_qcow2(rng, version=3, bf=0, feats=0, size=None, magic=b'QFI\xfb', **kw):
    size = rsize(rng) if size is None else size
    h = struct.pack('>4sIQIIQ', magic, version, bf, 0, 16, size)
    return 512 + rng.choice([0, 0, 1, 700]), [P(0, h), P(72, struct.pack('>Q', feats))], [4, 8, 16, 24, 32, 72, 79, 80, 104, 512]

def b_qed(rng, **kw):
    return 512 + rng.choice([0, 1, 300]), [P(0, b'QED\x00')], [4, 512]

def b_vhd(rng, size=None, **kw):
    size = rsize(rng) if size is None else size
    return 512 + rng.choice([0, 1, 300]), [P(0, b'conectix'), P(40, struct.pack('>Q', size))], [8, 40, 48, 512]

def b_vdi(rng, size=None, **kw):
    size = rsize(rng) if size is None else size
    return 512 + rng.choice([0, 1, 300]), [P(0, b'<<< Oracle VM VirtualBox Disk Image >>>\n'), P(0x40, struct.pack('<I', 0xbeda107f)),
                                           P(0x170, struct.pack('<Q', size))], [0x40, 0x44, 0x170, 0x178, 512]

def b_iso(rng, blocks=None, bs=2048, sig=b'CD001', typ=1, **kw):
    blocks = rsize(rng, 32) if blocks is None else blocks
    hdr = [P(32 * KI, bytes([typ]) + sig + b'\x01'), P(32 * KI + 80, struct.pack('<L', blocks) + struct.pack('>L', blocks)),
           P(32 * KI + 128, struct.pack('<H', bs) + struct.pack('>H', bs))]
    return 34 * KI + rng.choice([0, 1, 2048]), hdr, [32 * KI, 32 * KI + 1, 32 * KI + 6, 32 * KI + 80, 32 * KI + 132, 34 * KI]

def pte(boot=0, chs=(0, 2, 0), ostype=0xEE, lba=1, size=0xFFFFFFFF):
    return struct.pack('<B3BB3BII', boot, chs[0], chs[1], chs[2], ostype, 0xFF, 0xFF, 0xFF, lba, size)
def b_gpt(rng, ptes=None, sig=0xAA55, fat=False, **kw):
    ptes = [pte()] if ptes is None else ptes
    p = [P(446 + 16 * i, e) for i, e in enumerate(ptes)] + [P(510, struct.pack('<H', sig))]
    if fat: p += [P(0x10, b'\x02'), P(0x15, b'\xf8')]
    return 512 + rng.choice([0, 1, 512, 1000]), p, [0x10, 0x15, 446, 462, 510, 512]

def b_luks(rng, version=1, payload=None, **kw):
    payload = rng.choice([0, 1, 8, 4096, 2**32 - 1]) if payload is None else payload
    h = struct.pack('>6sh32s32s32sI', b'LUKS\xba\xbe', version, b'aes', b'xts-plain64', b'sha256', payload)
    return 592 + rng.choice([0, 1, 4096]), [P(0, h)], [6, 8, 104, 108, 592]

GD_AT_END = 0xffffffffffffffff
def sparse_header(ver=1, sectors=2048, desc_sec=1, desc_num=1, gd=21, sig=b'KDMV'):
    return struct.pack('<4sIIQQQQIQQ', sig, ver, 3, sectors, 128, desc_sec, desc_num, 512, 1, gd)
DESC = ('# Disk DescriptorFile\nversion=1\nCID=fffffffe\nparentCID=ffffffff\ncreateType="%s"\n\n'
        '# Extent description\n%s\n\n# The Disk Data Base\n#DDB\nddb.virtualHWVersion = "4"\nddb.adapterType = "ide"\n')
def descriptor(rng, ctype='monolithicSparse', extent='RW 2048 SPARSE "disk.vmdk"', extra=''):
    return (DESC % (ctype, extent) + extra).encode('latin-1')
def b_vmdk(rng, ver=1, sectors=None, desc_sec=1, desc_num=None, footer=False, desc=None, sig=b'KDMV', fgd=21, fver=None, pad=0, **kw):
    sectors = rsize(rng, 55) if sectors is None else sectors
    desc = descriptor(rng) if desc is None else desc
    desc_num = (len(desc) + 511) // 512 if desc_num is None else desc_num
    h = sparse_header(ver, sectors, desc_sec, desc_num, GD_AT_END if footer else 21, sig)
    p = [P(0, h), P(512, desc)]
    if 'shortfoot' in kw:
        return kw['shortfoot'], [P(0, sparse_header(ver, sectors, desc_sec, desc_num, GD_AT_END, sig)), P(512, desc)], [4, 10, 63, 64, 65, 512, kw['shortfoot'] - 1536]
    n = 512 + max(desc_num if desc_num <= 64 else 0, (len(desc) + 511) // 512) * 512 + pad
    bounds = [4, 8, 56, 63, 64, 65, 512, 512 + len(desc), min(n, 512 + desc_num * 512)]
    if footer:
        n = max(n, 2048) + rng.choice([0, 512, 1024])
        fh = sparse_header(ver if fver is None else fver, sectors, desc_sec, desc_num, fgd, sig)
        p += [P(n, struct.pack('<QII', 1, 0, 3)), P(n + 512, fh), P(n + 1024, b'\x00' * 512)]
        bounds += [n, n + 512, n + 576, n + 1024, n + 1536]
        n += 1536
    return n, p, bounds
def b_vmdk_text(rng, ctype='monolithicSparse', extent='RW 2048 SPARSE "disk.vmdk"', extra='', **kw):
    d = descriptor(rng, ctype, extent, extra)
    return len(d), [P(0, d)], [4, 63, 64, 65, len(d)]

def guid_le(s): return uuid.UUID(s).bytes_le
G_META = '8B7CA206-4790-4B9A-B8FE-575F050F886E'
G_VDS = '2FA54224-CD1B-4876-B211-5DBED83BF4B8'
G_BAT = '2DC27766-F623-4200-9D64-115E9BFD4A08'
G_OTHER = 'CAA16737-FA36-4D43-B3B6-33F0AA44E76B'
def b_vhdx(rng, size=None, meta_off=None, item_off=None, item_len=8, rt_pad=None, mt_pad=None, rt_count=None, mt_count=None,
           sig=b'metadata', regi=b'regi', ident=b'vhdxfile', **kw):
    size = rsize(rng) if size is None else size
    meta_off = rng.choice([256, 256, 320, 1024]) * KI if meta_off is None else meta_off
    rt_pad = rng.choice([0, 1, 3]) if rt_pad is None else rt_pad
    mt_pad = rng.choice([0, 1, 4]) if mt_pad is None else mt_pad
    item_off = 64 * KI if item_off is None else item_off
    rt = [guid_le(G_BAT) + struct.pack('<QII', 3 * 1024 * KI, 1024 * KI, 1)] * rt_pad + [guid_le(G_META) + struct.pack('<QII', meta_off, 1024 * KI, 1)]
    rth = struct.pack('<4sIII', regi, 0, len(rt) if rt_count is None else rt_count, 0)
    mt = [guid_le(G_OTHER) + struct.pack('<III', 65536 + 8, 4, 0) + b'\0' * 4] * mt_pad + [guid_le(G_VDS) + struct.pack('<III', item_off, item_len, 0) + b'\0' * 4]
    mth = struct.pack('<8sHH', sig, 0, len(mt) if mt_count is None else mt_count) + b'\0' * 20
    p = [P(0, ident + 'vhdx'.encode('utf-16-le')), P(192 * KI, rth + b''.join(rt)), P(meta_off, mth + b''.join(mt)),
         P(meta_off + item_off, struct.pack('<Q', size))]
    n = max(meta_off + 32 + 32 * len(mt), meta_off + item_off + 8) + rng.choice([0, 1, 4096])
    if kw.get('full'): n = max(n, meta_off + 64 * KI + kw['full'])
    return n, p, [8, 32, 192 * KI, 192 * KI + 16, 192 * KI + 16 + 32 * len(rt), 256 * KI, meta_off, meta_off + 32,
                  meta_off + 32 + 32 * len(mt), meta_off + 64 * KI, meta_off + item_off, meta_off + item_off + 8]

BUILD = {'raw': b_raw, 'qcow2': b_qcow2, 'qed': b_qed, 'vhd': b_vhd, 'vdi': b_vdi, 'iso': b_iso, 'gpt': b_gpt, 'luks': b_luks,
         'vmdk': b_vmdk, 'vhdx': b_vhdx}

# format-specific variations (keyword sets for the builders): (label, kwargs-maker)
def variants(fmt, rng):
    V = [('valid', {})]
    if fmt == 'qcow2':
        V += [('ver', {'version': rng.choice([0, 1, 2, 2, 4, 5, 2**32 - 1])}), ('bf', {'bf': rng.choice([1, 512, 2**63, 2**64 - 1])}),
              ('feat', {'feats': 1 << rng.randrange(64)}), ('feat', {'feats': rng.getrandbits(64) & rng.getrandbits(64)}),
              ('feat2', {'feats': rng.choice([1, 2, 3, 4, 8, 15, 16]), 'version': rng.choice([2, 3])}), ('magic', {'magic': rng.choice([b'QFI\xfa', b'QFI\x00', b'qfi\xfb'])})]
    if fmt == 'iso':
        V += [('sig', {'sig': rng.choice([b'NSR02', b'NSR03', b'CD002', b'BEA01'])}), ('typ', {'typ': rng.choice([0, 2, 255])}),
              ('bs', {'bs': rng.choice([0, 512, 4096, 65535])})]
    if fmt == 'gpt':
        V += [('boot', {'ptes': [pte(boot=rng.choice([0x80, 1, 0x7f, 0xff]))]}), ('chs', {'ptes': [pte(chs=rng.choice([(0, 1, 0), (1, 2, 0), (0, 2, 1)]))]}),
              ('lba', {'ptes': [pte(lba=rng.choice([0, 2, 2**32 - 1]))]}), ('mbr', {'ptes': [pte(ostype=rng.choice([0x83, 0x07, 0x0c]), boot=0x80, lba=2048)] * rng.randint(1, 4)}),
              ('extra', {'ptes': [pte(), pte(ostype=0x83)]}), ('second', {'ptes': [pte(ostype=0), pte()]}), ('none', {'ptes': [pte(ostype=0)]}),
              ('fat', {'fat': True}), ('sig', {'sig': rng.choice([0x55AA, 0, 0xAA54])})]
    if fmt == 'luks':
        V += [('ver', {'version': rng.choice([0, 2, -1, 257])})]
    if fmt == 'vmdk':
        V += [('ver', {'ver': rng.choice([0, 2, 3, 4, 2**32 - 1])}), ('descsec', {'desc_sec': rng.choice([0, 2, 2**55])}),
              ('descnum', {'desc_num': rng.choice([0, 1, 2, 20, 2047, 2048, 2**55, 2**64 - 1])}),
              ('ctype', {'desc': descriptor(rng, rng.choice(['streamOptimized', 'MONOLITHICSPARSE', 'monolithicFlat', 'vmfs', 'x' * 63, 'x' * 64, '']))}),
              ('extent', {'desc': descriptor(rng, extent=rng.choice(['RW 1 FLAT "/etc/passwd" 0', 'RDONLY 1 SPARSE "a"', 'NOACCESS 1 ZERO', 'RWX 1 SPARSE "a"', '']))}),
              ('line', {'desc': descriptor(rng, extra=rng.choice(['foo bar\n', 'a b=c\n', ' \t\n', 'ddb.x\n', '=\n', 'x=\n', 'caf\xe9=1\n', 'createType="vmfs"\n', '#\n', 'noquote="']))}),
              ('footer', {'footer': True}), ('footer-gd', {'footer': True, 'fgd': GD_AT_END}), ('footer-ver', {'footer': True, 'fver': 2}),
              ('sig', {'sig': rng.choice([b'KDMW', b'kdmv', b'COWD'])}), ('pad', {'pad': rng.choice([1, 511, 4096])}),
              ('shortfoot', {'shortfoot': rng.choice([1536, 1537, 1545, 1546, 1598, 1599, 1600, 1535, 1024])})]
    if fmt == 'vhdx':
        V += [('size', {}), ('metaoff', {'meta_off': rng.choice([256 * KI + 512, 300 * KI + 7, 2**20])}), ('itemoff', {'item_off': rng.choice([64 * KI + 8, 65 * KI, 32 + 32 * 5, 64 * KI - 8])}),
              ('itemlen', {'item_len': rng.choice([0, 4, 7, 9, 16, 2**32 - 1])}), ('rtpad', {'rt_pad': rng.choice([7, 40])}), ('mtpad', {'mt_pad': rng.choice([9, 60])}),
              ('rtcount', {'rt_count': rng.choice([0, 2047, 2048, 2**32 - 1])}), ('mtcount', {'mt_count': rng.choice([0, 200, 2047, 2048, 65535])}),
              ('sig', {'sig': b'metadatb'}), ('regi', {'regi': b'regj'}), ('ident', {'ident': b'vhdxfilf'}),
              ('back-meta', {'meta_off': rng.choice([0, 64 * KI, 192 * KI, 200 * KI, 255 * KI])}), ('back-item', {'item_off': rng.choice([0, 32, 64, 100])})]
    return V

SIGS = [(0, b'QFI\xfb'), (0, b'QED\x00'), (0, b'conectix'), (0, b'vhdxfile'), (0, b'KDMV'), (0x40, struct.pack('<I', 0xbeda107f)),
        (32 * KI + 1, b'CD001'), (510, b'\x55\xaa'), (0, b'LUKS\xba\xbe')]

def image(rng, fmt):
    """-> (n, bg, patches, bounds, label)"""
    r = rng.random()
    if r < 0.07:        # unstructured
        n = rng.choice([0, 1, 3, 4, 5, 63, 64, 65, 100, 511, 512, 513, 600, 2000, 5000, 40000]) if fmt != 'vhdx' else rng.choice([0, 100, 200 * KI, 257 * KI, 400 * KI])
        bg = rng.choice(['z', 'r%d' % rng.randrange(10**6), 't%d' % rng.randrange(10**6)])
        p = []
        if rng.random() < 0.5:
            o, s = rng.choice(SIGS); p.append(P(o, s))
        return n, bg, p, [4, 64, 512], 'unstructured'
    if fmt == 'vmdk' and r < 0.25:
        lab, kw = rng.choice([('text', {}), ('text-flat', {'ctype': 'monolithicFlat'}), ('text-path', {'extent': 'RW 1 FLAT "/etc/passwd" 0'}),
                              ('text-long', {'extra': '# pad\n' * rng.choice([20, 100, 900]) + 'RW 1 FLAT "/dev/sda" 0\n'}),
                              ('text-bin', {'extra': 'x\x01y\n'}), ('text-nonascii', {'extra': '# caf\xe9\n'})])
        n, p, bounds = b_vmdk_text(rng, **kw)
        return n, 'z', p, bounds, lab
    lab, kw = rng.choice(variants(fmt, rng))
    n, p, bounds = BUILD[fmt](rng, **kw)
    bg = 'z'
    r = rng.random()
    if r < 0.15:      # truncate at / around a structure boundary
        b = rng.choice(bounds + [n]); n = max(0, min(n, b + rng.choice([-1, 0, 1]))); lab += '+trunc'
    elif r < 0.22:    # extend
        n += rng.choice([1, 511, 512, 4096, 70000]); lab += '+ext'
    elif r < 0.32:    # field mutation at a boundary offset
        b = rng.choice(bounds); w = rng.choice([1, 2, 4, 8])
        v = rng.choice([b'\x00' * w, b'\xff' * w, rng.randbytes(w), b'\x01' + b'\x00' * (w - 1)])
        p.append(P(max(0, b - rng.choice([0, 0, w])), v)); lab += '+mut'
    elif r < 0.40:    # polyglot overlay
        o, s = rng.choice(SIGS); p.append(P(o, s)); lab += '+poly'
    elif r < 0.45:
        bg = 'r%d' % rng.randrange(10**6); lab += '+randbg'
    return n, bg, p, bounds, lab

def chunkings(rng, n, bounds, big):
    """a few chunk-size lists for a stream of length n"""
    out = [[n]] if n else [[]]
    fixed = [k for k in ([1, 7, 64, 512, 4096] if not big else [4096, 65536, 100000, 2**20]) if n // k <= 700]
    if fixed:
        k = rng.choice(fixed); out.append([k] * ((n + k - 1) // k))
    bs = sorted({min(n, max(0, b + d)) for b in bounds for d in (-1, 0, 1)})
    if bs:
        cuts = sorted(set(rng.sample(bs, min(len(bs), rng.choice([1, 1, 2, 3])))))
        out.append([b - a for a, b in zip([0] + cuts, cuts)])
    m = rng.randint(1, 12)
    cuts = sorted(rng.randint(0, n) for _ in range(m))
    sz = [b - a for a, b in zip([0] + cuts, cuts)]
    if rng.random() < 0.5: sz = [x for s in sz for x in ([0, s] if rng.random() < 0.3 else [s])] + [0]
    out.append(sz)
    return out

def vhdx_item_sweep(rng, tier):
    """VHDX size items placed anywhere behind the entry table: inside the first 64 KiB of the metadata region (32+32*count <= off < 65536),
    at 65536 and beyond; small tables and tables near the 2047-entry limit; several region placements; the 64 KiB metadata area is present
    completely; cuts between the item and the end of that area"""
    k = 9 if tier == 'quick' else 300
    for j in range(k):
        pad = rng.choice([0, 1, 4, 30, 500, 1500, 2000, 2040, 2045])
        es = 32 + 32 * (pad + 1)
        r = rng.random()
        if r < 0.6 and es < 65536 - 8: off = rng.choice([es, es + 1, es + 8, 65536 - 8, 65536 - 9, rng.randrange(es, 65536 - 8), rng.randrange(es, 65536 - 8)])
        elif r < 0.75: off = rng.choice([65536 - 7, 65536 - 1])            # straddles the end of the table area
        else: off = 65536 + rng.choice([0, 0, 1, 8, 511, 4096])
        mo = rng.choice([256 * KI, 256 * KI + 512, 300 * KI + 7, 1024 * KI])
        n, p, bounds = b_vhdx(rng, size=rng.choice([1, 12345, 2**40 + 1, 2**64 - 1]), meta_off=mo, item_off=off, mt_pad=pad, rt_pad=rng.choice([0, 2]),
                              full=rng.choice([0, 1, 8, 5000]))
        a, b, e = mo + off, mo + off + 8, mo + 64 * KI
        cuts = [[n], [65536] * (n // 65536 + 1), [mo + es, n], [b, n], [min(b + 1, n), n], [a, 8, n], [rng.randrange(b, max(b + 1, e)), n], [e - 1, 1, n], [e, n],
                [mo, es, n], [16384] * (n // 16384 + 1)]
        for sizes in [[n]] + rng.sample(cuts[1:], 2 if tier == 'quick' else 5):
            yield {'op': 'insp', 'fmt': 'vhdx', 'n': n, 'bg': 'z', 'p': p, 'sizes': sizes, 'k': 'itemsweep'}

def vmdk_long_descriptors(rng, tier):
    """sparse VMDKs whose descriptor TEXT fills 1..8 sectors, the line that decides the safety verdict placed in each sector (an extent naming a
    device / a path, a junk line, the only extent, the createType line itself), desc_num exact and larger than the text; cuts at every 512-byte
    boundary inside the descriptor +-1, 1-byte and 17-byte chunkings"""
    k = 12 if tier == 'quick' else 400
    DECISIVE = ['RW 1 FLAT "/dev/sda" 0', 'RW 2048 SPARSE "sub/dir/disk.vmdk"', 'foo bar baz', 'RW 2048 SPARSE "only-extent.vmdk"', 'createType="monolithicSparse"',
                'createType="vmfs"', 'RDONLY 4 ZERO', 'caf\xe9 = 1']
    for j in range(k):
        S = rng.randint(1, 8) if j % 4 else rng.choice([2, 3])
        where = rng.randrange(S)                      # the sector (of the descriptor) that holds the decisive line
        dec = DECISIVE[j % len(DECISIVE)] if tier == 'quick' else rng.choice(DECISIVE)
        head = '# Disk DescriptorFile\nversion=1\nCID=fffffffe\nparentCID=ffffffff\n'
        if not dec.startswith('createType'): head += 'createType="%s"\n' % rng.choice(['monolithicSparse', 'streamOptimized'])
        if 'only-extent' not in dec and not dec.startswith('createType="vmfs'): head += 'RW 2048 SPARSE "disk.vmdk"\n'
        lines = [head]
        def filler(i): return rng.choice(['ddb.pad%04d = "%s"\n' % (i, 'x' * rng.randint(1, 40)), '# filler %04d %s\n' % (i, '.' * rng.randint(0, 50)), '\n'])
        text = head; i = 0; placed = False
        while len(text) < S * 512 - 60:
            if not placed and len(text) >= where * 512:
                text += dec + '\n'; placed = True
            text += filler(i); i += 1
        if not placed: text += dec + '\n'
        desc = text.encode('latin-1')
        sect = (len(desc) + 511) // 512
        dn = sect + rng.choice([0, 0, 1, 3, 20 - sect if sect < 20 else 0])
        n, p, bounds = b_vmdk(rng, desc=desc, desc_num=dn, sectors=2048)
        inner = [512 + 512 * q + d for q in range(0, dn + 1) for d in (-1, 0, 1) if 0 < 512 + 512 * q + d < n]
        cuts = [[n]]
        for _ in range(2 if tier == 'quick' else 6):
            a = rng.choice(inner); cuts.append([a, n])
        b2 = sorted(set(rng.sample(inner, min(len(inner), 3)))); cuts.append([y - x for x, y in zip([0] + b2, b2)])
        cuts.append([17] * (n // 17 + 1))
        if n <= 2100 or tier != 'quick': cuts.append([1] * n)
        cuts.append([512] * (n // 512 + 1)); cuts.append([600, 1000, 100000])
        for sizes in [cuts[0]] + rng.sample(cuts[1:], 3 if tier == 'quick' else len(cuts) - 1):
            yield {'op': 'insp', 'fmt': 'vmdk', 'n': n, 'bg': 'z', 'p': p, 'sizes': sizes, 'k': 'longdesc:%d/%d' % (where, S)}

def wrapper_polyglots(rng, tier):
    """two formats in one stream, read through InspectWrapper with expected_format set, one big read vs small reads (clause 'wx' of the oracle)"""
    iso = b_iso(rng)[1]; q = b_qcow2(rng, size=12345)[1]; g = b_gpt(rng)[1]; v = b_vhd(rng, size=777)[1]; l = b_luks(rng)[1]
    combos = [('qcow2', q + iso, 36 * KI), ('iso', q + iso, 36 * KI), ('gpt', g + iso, 36 * KI), ('iso', g + iso, 36 * KI), ('vhd', v + iso, 36 * KI),
              ('qcow2', q + [P(510, b'\x55\xaa'), P(446, pte())], 2048), ('gpt', q + [P(510, b'\x55\xaa'), P(446, pte())], 2048), ('luks', l + iso, 36 * KI)]
    for exp, p, n in combos:
        for sizes in ([n], [512] * (n // 512 + 1), [4096] * (n // 4096 + 1), [100, 411, 1, n]):
            yield {'op': 'insp', 'fmt': exp, 'n': n, 'bg': 'z', 'p': p, 'sizes': sizes, 'k': 'wpoly', 'wx': exp}

def gen_cases(rng, tier):
    per = {'quick': 70, 'thorough': 1500}[tier]
    for fmt in FORMATS:
        big = fmt == 'vhdx'
        k = per // 3 if big else per
        for _ in range(k):
            n, bg, p, bounds, lab = image(rng, fmt)
            for i, sizes in enumerate(chunkings(rng, n, bounds, big or n > 20000)):
                c = {'op': 'insp', 'fmt': fmt, 'n': n, 'bg': bg, 'p': p, 'sizes': sizes, 'k': lab}
                if rng.random() < 0.05: c['late'] = rng.choice(['', '00', '4b444d56'])
                yield c
    yield from tiny_cases(rng, tier)
    yield from vhdx_item_sweep(rng, tier)
    yield from vmdk_long_descriptors(rng, tier)
    yield from wrapper_polyglots(rng, tier)
    # every format on every other format's valid image (detection runs all inspectors on the same bytes)
    for src in FORMATS:
        n, p, bounds = BUILD[src](rng)
        for fmt in FORMATS:
            if fmt != src:
                yield {'op': 'insp', 'fmt': fmt, 'n': n, 'bg': 'z', 'p': p, 'sizes': [rng.choice([512, 4096, 65536])] * (n // 65536 + 2 if n > 65536 else 3), 'k': 'cross:' + src}

# ------------------------------------------------------------------ exhaustive small scope on the real engine classes
def tiny_class():
    m = insp_obs.fi()
    class Tiny(m.FileInspector):
        NAME = 'tiny'
        def _initialize(self):
            self.new_region('a', m.CaptureRegion(1, 2))
            self.new_region('b', m.CaptureRegion(0, 3))
            self.new_region('tail', m.EndCaptureRegion(2))
            self.add_safety_check(m.SafetyCheck.null())
        def post_process(self):
            if self.region('a').complete and not self.has_region('c'):
                self.new_region('c', m.CaptureRegion(3 + self.region('a').data[0], 2))
        @property
        def format_match(self):
            return self.region('b').data.startswith(b'\x01')
    return Tiny

def tiny_run(data, sizes):
    insp = tiny_class()()
    obs = insp_obs.observe('tiny', data, sizes, inspector=insp)
    bad = [nm for nm, r in insp._capture_regions.items() if data[r.offset:r.offset + len(r.data)] != r.data or len(r.data) > r.length]
    recs, tail = insp_obs.final_record(obs)
    return ';'.join(recs[-1].split(';')[1:5]) + '|' + tail + ('|!' + ','.join(bad) if bad else '')

def compositions(n):
    if n == 0:
        yield []; return
    for mask in range(1 << (n - 1)):
        out = []; cur = 1
        for i in range(n - 1):
            if mask >> i & 1: out.append(cur); cur = 1
            else: cur += 1
        out.append(cur); yield out

def tiny_oracle(c, io):
    if '|!' in io: return 'tiny engine: retained bytes of %s are not the stream bytes at the region offset' % io.split('|!')[1]
    ref = tiny_run(bytes(c['data']), [len(c['data'])])
    if io.split('|')[0] != ref.split('|')[0] or io.split('|#')[-1] != ref.split('|#')[-1]:
        return 'tiny engine: verdict %s under sizes %r, %s as one chunk' % (io.split('|')[0], c['sizes'], ref.split('|')[0])
    return None

def tiny_cases(rng, tier):
    maxlen = 6 if tier == 'quick' else 8
    for n in range(maxlen + 1):
        for v in range(1 << n):
            data = [(v >> i) & 1 for i in range(n)]
            for sizes in compositions(n):
                if tier == 'quick' and n == maxlen and rng.random() < 0.5: continue
                for sz in (sizes, [x for s_ in sizes for x in (0, s_)] if n <= 4 else None):
                    if sz is None: continue
                    yield {'op': 'tiny', 'data': data, 'sizes': sz}

# ------------------------------------------------------------------ implementation side
def impl(c):
    if c['op'] == 'tiny': return tiny_run(bytes(c['data']), c['sizes'])
    data = data_of(c)
    m = insp_obs.fi()
    insp = m.ALL_FORMATS[c['fmt']]()
    obs = insp_obs.observe(c['fmt'], data, c['sizes'], bytes.fromhex(c['late']) if 'late' in c else None, inspector=insp)
    # model-free: whatever is retained for a region is the stream's bytes at the region's offsets
    bad = [nm for nm, r in insp._capture_regions.items() if data[r.offset:r.offset + len(r.data)] != r.data or len(r.data) > r.length]
    if 'late' in c: bad = []          # a chunk after finish is not part of the stream
    return obs + ('|!' + ','.join(bad) if bad else '')

def encode(c):
    if c['op'] != 'insp': return None
    a = ['insp', c['fmt'], data_of(c), list(c['sizes'])]
    if 'late' in c: a.append(bytes.fromhex(c['late']))
    return a

def project(c, io):
    return io.split('|!')[0]

def verdict(obs):
    """(format_match, complete, virtual_size, safety) of the record after finish"""
    recs, _ = insp_obs.final_record(obs.split('|!')[0])
    f = recs[-1].split(';')
    return tuple(f[1:5])

_ref = {}
def reference(c):
    key = (c['fmt'], c['n'], c['bg'], repr(c['p']))
    if key not in _ref:
        if len(_ref) > 256: _ref.clear()
        data = data_of(c)
        _ref[key] = verdict(insp_obs.observe(c['fmt'], data, [len(data)], queries=False))
    return _ref[key]

# ---- history independence: what OTHER inspector instances processed in the same process must not matter
_hist_n = [0]
def unrelated_image(fmt):
    """a well-formed image of the format whose size field is different on every call"""
    _hist_n[0] += 1
    k = 0x5A5A0000 + _hist_n[0]
    rng = random.Random(k)
    kw = {'qcow2': {'size': k}, 'vhd': {'size': k}, 'vdi': {'size': k}, 'vhdx': {'size': k, 'meta_off': 256 * KI, 'rt_pad': 0, 'mt_pad': 0, 'item_off': 64 * KI},
          'vmdk': {'sectors': k}, 'iso': {'blocks': k & 0xFFFFFF}, 'luks': {'payload': k & 0xFFFF}}.get(fmt, {})
    n, p, _ = BUILD[fmt](rng, **kw)
    return data_of({'n': n, 'bg': 'z', 'p': p})

def feed_other(fmt, data, upto=None):
    m = insp_obs.fi()
    o = m.ALL_FORMATS[fmt]()
    try:
        o.eat_chunk(data if upto is None else data[:upto])
        if upto is None: o.finish()
        for q in ('format_match', 'virtual_size', 'complete'):
            try: getattr(o, q)
            except Exception: pass
    except Exception:
        pass
    return o

def history_obs(c):
    """the case's observation again, in a process where other instances of the same class have just handled, and keep
    handling between the chunks, an unrelated image"""
    fmt = c['fmt']; data = data_of(c)
    img = unrelated_image(fmt)
    feed_other(fmt, img)                                   # a whole other stream before
    others = []
    def between(k):
        if k % 2 == 0 or not others: others.append(feed_other(fmt, img, upto=min(len(img), 600 if fmt != 'vhdx' else 200 * KI)))
        else:
            try: others[-1].eat_chunk(img[600:])
            except Exception: pass
    return insp_obs.observe(fmt, data, c['sizes'], bytes.fromhex(c['late']) if 'late' in c else None, between=between)

def wrapper_verdict(data, sizes, history=None, empties=(), container=None):
    m = insp_obs.fi()
    import io as _io
    before = None
    if history is not None:
        w0 = m.InspectWrapper(_io.BytesIO(history))
        while w0.read(4096): pass
        w0.close()
        def before(k):
            if k % 3 == 0:
                w1 = m.InspectWrapper(_io.BytesIO(history)); w1.read(70000)
    return insp_obs.observe_wrapper(data, list(sizes), empties=empties, container=container, before=before)

def with_empty_reads(c):
    """the case's read sizes with zero-size reads inserted (first, mid-stream, last) and the indices of transient empty reads"""
    r = random.Random(c['n'] * 1000003 + len(c['sizes']))
    sizes = [x for x in c['sizes'] if x > 0]
    out = []; empties = []
    def zero(): out.append(0)
    def transient():                      # a read of positive size that the source answers with nothing (the stream goes on)
        empties.append(len(out)); out.append(r.choice([1, 512, 4096]))
    zero(); transient()
    for x in sizes:
        out.append(x)
        q = r.random()
        if q < 0.3: zero()
        elif q < 0.5: transient()
    zero(); transient()
    # the non-empty results are exactly the chunks of `sizes`: only empty reads were added
    return out, empties

_nozone = set()
def oracle(c, io):
    _nozone.discard(id(c))
    msg = oracle_(c, io)
    return msg
def oracle_(c, io):
    if io.startswith('HARNESS-ERROR'): return io
    if c['op'] == 'tiny': return tiny_oracle(c, io)
    if '|!' in io:
        _nozone.add(id(c))
        return 'retained bytes of region(s) %s are not the stream bytes at the region offset' % io.split('|!')[1]
    # history independence (every 3rd case; all cases when replayed / searched one by one this is still deterministic)
    if c.get('check') == 'history' or (hash(repr(c['sizes'])) + c['n']) % 3 == 0:
        h = history_obs(c)
        if h != project(c, io):
            i = next((k for k, (a, b) in enumerate(zip(h.split('|'), project(c, io).split('|'))) if a != b), -1)
            _nozone.add(id(c))
            return ('the observation of a FRESH %s inspector depends on what other instances processed in the same process: record %d is %r after other '
                    'instances handled an unrelated image, %r otherwise' % (c['fmt'], i, h.split('|')[i][:120] if i >= 0 else h[-120:], project(c, io).split('|')[i][:120] if i >= 0 else ''))
    # content semantics: the chunk container (bytes / bytearray / re-used buffer / memoryview) must not matter
    kind = insp_obs.container_kind(data_of(c), c['sizes'])
    if kind != 'bytes':
        o2 = insp_obs.observe(c['fmt'], data_of(c), c['sizes'], bytes.fromhex(c['late']) if 'late' in c else None, container='bytes')
        if o2 != project(c, io):
            i = next((k for k, (a, b) in enumerate(zip(o2.split('|'), project(c, io).split('|'))) if a != b), -1)
            _nozone.add(id(c))
            return ('the observation depends on the CONTAINER of the chunks: with %s chunks record %d is %r, with bytes chunks %r'
                    % (kind, i, project(c, io).split('|')[i][:120] if i >= 0 else '', o2.split('|')[i][:120] if i >= 0 else ''))
    # InspectWrapper: zero-size reads, transient empty reads and the chunk container must not matter; what the reader received stays intact
    if c.get('check') == 'wrapper' or (hash(repr(c['sizes'])) + c['n']) % 6 == 1:
        data = data_of(c)
        plain = [x for x in c['sizes'] if x > 0]
        a = wrapper_verdict(data, plain, container='bytes')
        rs, emp = with_empty_reads(c)
        b = wrapper_verdict(data, rs, empties=emp)
        if a != b:
            _nozone.add(id(c))
            return ('InspectWrapper: reads %r with transient empty reads at %r (%s chunks) give %r; the same bytes read with sizes %r (bytes chunks) give %r'
                    % (rs[:14], emp, insp_obs.container_kind(data, rs), b, plain[:12], a))
    # InspectWrapper with expected_format: one big read vs the case's reads (outside the VMDK / VHDX zones of the same bytes)
    if c.get('wx') or (c['fmt'] != 'raw' and (hash(repr(c['sizes'])) + c['n']) % 8 == 3):
        exp = c.get('wx') or c['fmt']
        if not zone(dict(c, fmt='vmdk')) and not zone(dict(c, fmt='vhdx')):
            data = data_of(c)
            a = insp_obs.observe_wrapper(data, [len(data)], expected_format=exp, container='bytes')
            b = insp_obs.observe_wrapper(data, [x for x in c['sizes'] if x > 0], expected_format=exp)
            if a != b:
                _nozone.add(id(c))
                return ('InspectWrapper(expected_format=%r) depends on the read sizes: %r with reads %r, %r with one read of everything' % (exp, b, c['sizes'][:12], a))
    if c.get('check') == 'history' or (hash(repr(c['sizes'])) + c['n']) % 16 == 5:
        data = data_of(c)
        hist = unrelated_image('qcow2') if (c['n'] % 2) else unrelated_image('vmdk')
        a = wrapper_verdict(data, c['sizes']); b = wrapper_verdict(data, c['sizes'], history=hist)
        if a != b:
            _nozone.add(id(c))
            return 'InspectWrapper result depends on what other wrappers processed in the same process: %r vs %r' % (a, b)
    if 'late' in c or c.get('check') in ('retained', 'history'): return None
    v = verdict(io)
    if 'expect' in c and list(v) != list(c['expect']):
        return 'verdict %r, expected %r (the image was built with these values)' % (v, c['expect'])
    ref = reference(c)            # the same bytes as ONE chunk, no queries in between
    if v != ref:
        return 'verdict (match, complete, virtual_size, safety) depends on the chunking: %r under sizes %r, %r as one chunk' % (v, c['sizes'][:12], ref)
    # purity of the queries: same chunking without any query between the chunks
    if hash(repr(c['sizes'])) % 4 == 0:
        data = data_of(c)
        o2 = insp_obs.observe(c['fmt'], data, c['sizes'], queries=False)
        if verdict(o2) != v or o2.split('|#')[1] != io.split('|#')[1]:
            return 'queries between chunks changed the outcome'
    return None

# ------------------------------------------------------------------ zones of the known findings (predicates on the INPUT bytes)
def le(b, o, w): return int.from_bytes(b[o:o + w], 'little')
def zone(c):
    """known findings as predicates on the INPUT bytes.  F1/F3 (VMDK) are checked equal to the extracted Coq predicates
    zone_vmdk_text / zone_vmdk_shortfoot on every case by props/C01_vmdk_spec.py; F2/F4 (VHDX) ARE the Python rendering of
    zone_vhdx_backptr / zone_vhdx_metasig (C01_vhdx_spec.zone_tight, checked equal to the extracted Coq predicates on every case).
    Violations of another kind (retained bytes, history dependence) and cases marked nozone are never absorbed."""
    if c.get('op') != 'insp' or c.get('nozone') or id(c) in _nozone: return None
    d = data_of(c); fmt = c['fmt']
    if fmt == 'vmdk':
        if d[:4] != b'KDMV' or le(d, 4, 4) not in (1, 2, 3):
            # F1: the descriptor region at offset 0 (min_length 4) is parsed once, from whatever the first chunk(s) delivered
            if b'createtype="' in d.split(b'\x00')[0].lower(): return 'F1'
            if len(d) >= 64 and all(chr(x).isprintable() or chr(x).isspace() for x in d[:64] if x < 128) and all(x < 128 for x in d[:64]) and d[:4] != b'KDMV':
                return 'F1'
        elif le(d, 56, 8) == GD_AT_END and len(d) < 63 + 1536:
            return 'F3'
    if fmt == 'vhdx':
        from props import C01_vhdx_spec
        f2, f4 = C01_vhdx_spec.zone_tight(d)
        if f2: return 'F2'
        if f4: return 'F4'
    return None

def classify(c, io):
    if c['op'] != 'insp': return c['op']
    recs, _ = insp_obs.final_record(io.split('|!')[0])
    f = recs[-1 if 'late' not in c else -2].split(';')
    ex = [r.split(';')[0] for r in recs if not r.startswith('-;')]
    vs = 'vs=EXN' if f[3].startswith('EXN') else ('vs=0' if f[3] == '0' else 'vs>0')
    return '%s:%s:%s:%s:%s%s' % (c['fmt'], 'match' if f[1] == 'True' else 'nomatch', 'complete' if f[2] == 'True' else 'incomplete', vs,
                                 f[4].split(':')[0], (':' + ex[0]) if ex else '')

def trivial(c, io):
    return c.get('n') == 0

def search(rng, budget):
    n = 0
    while n < budget:
        for c in gen_cases(rng, 'quick'):
            n += 1
            yield c

RULE = ('per format: layout builder x variant (valid, each header field at boundary values, truncated at/around every structure boundary, extended, '
        'polyglot overlays, random background) and unstructured text/binary/zero streams; x chunkings (single, fixed 1..1 MiB, cuts at +-1 of structure '
        'boundaries, random, empty chunks interleaved); every format on every other format\'s image; distinct = distinct case JSON; trivial = empty stream')
TRUSTED = ['struct.unpack / bytes slicing / str methods of CPython as modelled in Base/Insp_Struct.v, Base/Str.v (tied by this correspondence)',
           'tools/gen/gen_insp.py: positional extraction of literals and struct formats (fail-closed on any change of shape)']
ASSUMPTIONS = ['region_complete callbacks run in dictionary order in the model (Python iterates a set); at most one region per inspector has a non-trivial callback',
               'logging calls are not modelled (their arguments are: see qcow_feature_loop)']
LEVEL_TEXT = ('Proved for all byte strings and all chunk lists (unbounded): (1) for all ten inspectors, in every reachable state (any chunks, empty chunks, '
              'after an exception, after finish) every region holds exactly the stream bytes at its offset and never more than its length; (2) for the eight '
              'inspectors whose regions come from _initialize (raw, qcow2, qed, vhd, vdi, iso, gpt, luks) the whole final state, hence format_match / complete / '
              'virtual_size / safety and the absence of exceptions, is a function of the concatenated bytes alone (chunking-independent, empty chunks irrelevant); '
              '(3) region-level capture_slice and end_capture_tail; (4) the py2gal translations of CaptureRegion.capture/complete and EndCaptureRegion.capture equal '
              'the model.  VMDK and VHDX verdicts are covered by correspondence + the model-free two-chunking oracle only (partial), with the known findings F1-F4 zoned.')
LEVEL_NOTE = ('Trusted: Coq kernel; generator tools/gen/gen_insp.py (+py2gal); CPython struct/bytes/str semantics as modelled in Base/Insp_Struct.v, Base/Str.v and tied by the '
              'every-chunk correspondence of all ten inspectors; region_complete callback order (set iteration) modelled as dictionary order. Closed under the global context.')


# ---- whole-buffer specifications (vmdk_spec / vhdx_spec) evaluated on generated cases and compared with the
# implementation's final verdict: ties the SPEC of the refinement theorems to the code.  Wired correspondence-style:
# a disagreement breaks the correspondence (then the two-chunking oracle searches for a C01 counterexample); a
# consistent change of the verdict function is not by itself a violation of C01.
def extra_corr(rng, tier):
    n = 0; bad = []
    for modname in ('C01_vmdk_spec', 'C01_vhdx_spec'):
        try:
            mod = __import__('props.' + modname, fromlist=['x'])
        except ImportError:
            continue
        for name, c, msg in mod.extra_checks(rng, tier):
            n += 1
            if msg: bad.append({'check': name, 'case': c, 'message': msg})
    return n, bad
