"""C01 — inspection verdict depends on the bytes only (format_inspector.py) — shared inspector model"""
import sys, os, random
import gen_insp
sys.path.insert(0, os.path.dirname(os.path.dirname(os.path.abspath(__file__))))
import insp_obs

ID = 'C01'
GEN = [('Gen/Insp_Consts.v', gen_insp.generate), ('Gen/Insp_Code.v', gen_insp.generate_code)]
EQUIV_FILES = []
EXTRACT = 'Extract/Insp_x.v'

def gen_cases(rng, tier):
    for f in ['raw', 'qcow2', 'vhd', 'vhdx', 'vmdk', 'vdi', 'qed', 'iso', 'gpt', 'luks']:
        yield {'op': 'insp', 'fmt': f, 'data': bytes(range(256)).hex() * 4, 'sizes': [100, 0, 500]}

def impl(c):
    return insp_obs.observe(c['fmt'], bytes.fromhex(c['data']), c['sizes'], bytes.fromhex(c['late']) if 'late' in c else None)

def encode(c):
    a = ['insp', c['fmt'], bytes.fromhex(c['data']), list(c['sizes'])]
    if 'late' in c: a.append(bytes.fromhex(c['late']))
    return a
