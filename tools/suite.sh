#!/bin/bash
# Runs the repository's pinned suite (guard off) and compares with BASELINE.json's stable_pass set.
# exit 0 iff every stable-pass test passes.
OUT=$(mktemp -d /var/tmp/suite.XXXXXX)
cd /repo && env -u OSLO_UTILS_VERIF /venv/bin/python -m pytest -q -p no:cacheprovider --timeout=900 \
   --continue-on-collection-errors --junitxml=$OUT/r.xml >$OUT/log 2>&1
python3 - "$OUT/r.xml" <<'PY'
import json,sys,xml.etree.ElementTree as ET
b=json.load(open('/root/.vp/BASELINE.json'))
res={}
for tc in ET.parse(sys.argv[1]).iter('testcase'):
    res[tc.get('classname')+'::'+tc.get('name')] = not any(c.tag in('failure','error','skipped') for c in tc)
missing=[n for n in b['stable_pass'] if not res.get(n)]
print('stable_pass=%d passing_now=%d missing=%d' % (len(b['stable_pass']), sum(res.values()), len(missing)))
for m in missing: print('  NOT PASSING:', m)
sys.exit(1 if missing else 0)
PY
rc=$?
rm -rf "$OUT"
exit $rc
