#!/bin/bash
# Copies the currently generated Gen/*.v to GenBaseline/ (the committed fallback used when the
# translator cannot regenerate an item).  Run only on the unchanged tree.
cd "$(dirname "$0")/.."
mkdir -p coq/GenBaseline && cp coq/Gen/*.v coq/GenBaseline/ && ls coq/GenBaseline
