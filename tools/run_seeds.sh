#!/bin/bash
# tools/run_seeds.sh "3 4 5" [parallel]: quick tier of every claimed check under several seeds; prints only failures and a summary
seeds=${1:-"3 4 5"}; par=${2:-3}
cd "$(dirname "$0")/.."
ids=$(python3 -c "import json; print(' '.join(c['property_id'] for c in json.load(open('MANIFEST.json'))['checks']))")
mkdir -p build/runseeds
for s in $seeds; do
  echo $ids | tr ' ' '\n' | xargs -P $par -I{} bash -c "VERIF_SEED=$s ./check {} quick > build/runseeds/{}.$s.log 2>&1; rc=\$?; v=\$(grep -c ^VIOLATION build/runseeds/{}.$s.log); if [ \$rc -ne 0 ] || [ \$v -ne 0 ]; then echo \"FAIL {} seed=$s rc=\$rc violations=\$v\"; grep -E 'VIOLATION|property violated|correspondence' build/runseeds/{}.$s.log | head -3 | cut -c1-400; fi"
  echo "seed $s done: $(grep -l 'quick: obligations' build/runseeds/*.$s.log | wc -l) checks ran"
done
