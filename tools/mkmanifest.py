#!/venv/bin/python
"""Regenerates /verif/MANIFEST.json from the plugins in tools/props (claimed
properties) and tools/not_applicable.json (everything else, with its reason)."""
import sys, os, json, importlib, glob
ROOT = os.path.dirname(os.path.dirname(os.path.abspath(__file__)))
sys.path.insert(0, os.path.join(ROOT, 'tools')); sys.path.insert(0, os.path.join(ROOT, 'tools', 'gen')); sys.path.insert(0, '/repo')
props = [json.loads(l)['id'] for l in open(os.path.join(ROOT, 'properties.jsonl'))]
na = json.load(open(os.path.join(ROOT, 'tools', 'not_applicable.json')))
checks = []
for pid in props:
    if not os.path.exists(os.path.join(ROOT, 'tools', 'props', pid + '.py')) or pid in na:
        continue
    m = importlib.import_module('props.' + pid)
    checks.append({
        'property_id': pid,
        'quick_cmd': './check %s quick' % pid,
        'thorough_cmd': './check %s thorough' % pid,
        'evidence_file': '/verif/evidence/%s.json' % pid,
        'replay_cmd_template': './check %s --replay {path}' % pid,
        'engine': 'coq-proof+correspondence',
        'level_claimed': {'category': 'proof', 'text': m.LEVEL_TEXT, 'design_ref': getattr(m, 'DESIGN_REF', 'DESIGN.md §5 ' + pid)},
        'level_note': m.LEVEL_NOTE,
        'technique': getattr(m, 'TECHNIQUE', 'Coq 8.16 theorems on a Gallina model; model tied to /repo by regenerated Gen/*.v (translator) and OCaml-extracted correspondence check'),
    })
man = {
    'version': 1,
    'setup_cmd': './setup.sh',
    'hooks': {'guard': 'OSLO_UTILS_VERIF', 'enable': 'no hooks: checks import /repo as is (observation through public attributes, subclassing and monkey-patching from the harness)',
              'baseline_off_cmd': 'tools/suite.sh', 'source_commits': [], 'add_only': True},
    'engines': [{'name': 'coq-proof+correspondence', 'path': '/verif/coq + /verif/tools/runner.py', 'serves_properties': [c['property_id'] for c in checks],
                 'kind_free_text': 'Coq 8.16.1 project (Base, Gen regenerated from /repo on every run, Model, Proofs, Properties) + extracted OCaml model drivers compared with the implementation on generated cases + model-free oracles'}],
    'checks': checks,
    'notes': 'fix: commits to /repo and known findings are listed in /verif/known_findings.txt; see DESIGN.md §6, §10.',
    'not_applicable': [{'property_id': p, 'reason': na[p]} for p in props if p in na],
}
json.dump(man, open(os.path.join(ROOT, 'MANIFEST.json'), 'w'), indent=1)
print('checks:', [c['property_id'] for c in checks], 'not_applicable:', [p for p in props if p in na])
