"""setup: regenerate all Gen files, build every .vo (full build, no -vos), build every model driver."""
import sys, os, glob, importlib, time
ROOT = os.path.dirname(os.path.dirname(os.path.abspath(__file__)))
sys.path.insert(0, os.path.join(ROOT, 'tools'))
import runner
t0 = time.time()
plugins = []
for f in sorted(glob.glob(os.path.join(ROOT, 'tools', 'props', 'C[0-9][0-9].py'))):
    plugins.append(importlib.import_module('props.' + os.path.basename(f)[:-3]))
with runner.Lock('coq.lock'):
    items = list(runner.COMMON_GEN)
    for p in plugins:
        for it in getattr(p, 'GEN', []):
            if it[0] not in [x[0] for x in items]: items.append(it)
    changed, fb = runner.regenerate(items)
    print('generated:', [i[0] for i in items], 'fallbacks:', fb, flush=True)
    runner.ensure_makefile()
    rc, out = runner.sh('timeout 7000 make -j%d 2>&1' % int(os.environ.get('VERIF_JOBS', '14')), cwd=runner.COQ, timeout=7200)
    print(out[-3000:], flush=True)
    if rc != 0:
        print('setup: coq build failed', flush=True); sys.exit(1)
    for p in plugins:
        exe, err = runner.build_driver(p)
        print('driver', p.ID, exe or err, flush=True)
        if err: sys.exit(1)
print('setup done in %.0fs' % (time.time() - t0))
