#!/bin/bash
# tools/integrate.sh C08 [C19 ...] : merge builder branches, claim the properties, rebuild, run quick checks with 3 seeds
set -e
cd /verif
for id in "$@"; do
  git merge --no-edit w/$id 2>&1 | tail -1; if git diff --name-only --diff-filter=U | grep -q .; then echo "MERGE CONFLICT in: $(git diff --name-only --diff-filter=U | tr "\n" " ")"; exit 1; fi
  python3 - "$id" <<'PY'
import json,sys
p='/verif/tools/not_applicable.json'; d=json.load(open(p)); d.pop(sys.argv[1],None); json.dump(d,open(p,'w'),indent=1)
PY
done
/venv/bin/python tools/mkmanifest.py | tail -1
./setup.sh 2>&1 | tail -2
for id in "$@"; do
  for seed in 1 2 20260926; do
    out=$(VERIF_SEED=$seed ./check $id quick 2>&1); rc=$?
    echo "== $id seed=$seed rc=$rc :: $(echo "$out" | tail -1)"
    echo "$out" | grep -E "VIOLATION|correspondence:|no longer checks|property violated" | head -5
  done
done
