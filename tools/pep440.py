"""PEP 440 version ordering written from the PEP text (normalisation + ordering
rules), used as an oracle independent of packaging.version."""
import re
_RE = re.compile(r"""^\s*v?(?:(?P<epoch>[0-9]+)!)?(?P<release>[0-9]+(?:\.[0-9]+)*)
 (?P<pre>[-_\.]?(?P<pre_l>alpha|a|beta|b|preview|pre|c|rc)[-_\.]?(?P<pre_n>[0-9]+)?)?
 (?P<post>(?:-(?P<post_n1>[0-9]+))|(?:[-_\.]?(?P<post_l>post|rev|r)[-_\.]?(?P<post_n2>[0-9]+)?))?
 (?P<dev>[-_\.]?(?P<dev_l>dev)[-_\.]?(?P<dev_n>[0-9]+)?)?
 (?:\+(?P<local>[a-z0-9]+(?:[-_\.][a-z0-9]+)*))?\s*$""", re.X | re.I)
NEG = (-1,); POS = (1,)
def parse(s):
    m = _RE.match(s)
    if not m: raise ValueError(s)
    epoch = int(m.group('epoch') or 0)
    rel = [int(x) for x in m.group('release').split('.')]
    major = rel[0]
    while len(rel) > 1 and rel[-1] == 0: rel.pop()
    pre = None
    if m.group('pre'):
        l = m.group('pre_l').lower()
        l = {'alpha': 'a', 'beta': 'b', 'c': 'rc', 'pre': 'rc', 'preview': 'rc'}.get(l, l)
        pre = (l, int(m.group('pre_n') or 0))
    post = None
    if m.group('post'):
        post = int(m.group('post_n1') or m.group('post_n2') or 0)
    dev = None
    if m.group('dev'):
        dev = int(m.group('dev_n') or 0)
    local = m.group('local')
    # ordering key
    if pre is None and post is None and dev is not None: kpre = (-2,)          # X.devN sorts before any pre-release
    elif pre is None: kpre = (2,)
    else: kpre = (0, pre[0], pre[1])
    kpost = (-1,) if post is None else (0, post)
    kdev = (1,) if dev is None else (0, dev)
    if local is None: kloc = ()
    else:
        kloc = tuple((1, int(p)) if p.isdigit() else (0, p.lower()) for p in re.split(r'[-_\.]', local))
    return {'key': (epoch, tuple(rel), kpre, kpost, kdev, (0,) if local is None else (1, kloc)), 'major': major}
def ge(a, b): return parse(a)['key'] >= parse(b)['key']
def cmp(a, b):
    ka, kb = parse(a)['key'], parse(b)['key']
    return (ka > kb) - (ka < kb)
