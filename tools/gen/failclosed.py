"""failclosed — shared guards that make the translators refuse (GenError) when the MEANING of an item they
read changed OUTSIDE the text they translate.

A translator reads a function / constant / class of /repo through its AST (first definition found) and/or
through the imported module.  None of the following changes the translated text, all of them change what the
name denotes at run time:

  1. a decorator on the function (cache, wrapper, contextmanager added/removed);
  2. a second definition of the name (the later one wins), a later re-binding (`f = g`, `C.m = g`,
     `NAME = NAME + [...]`, `TABLE.update(..)`, `del TABLE[k]`, `LIST.append(..)`), a `global` declaration;
  3. a changed default argument (when the model hard-wires it);
  4. a changed helper / module constant the function reads but the translator does not translate;
  5. the class gains a different base, or a subclass overrides what the model assumes inherited;
  6. an import that makes a module name (`re`, `struct`, `netaddr`, ...) denote something else.

Guards (each raises GenError; the runner then falls back to the committed baseline copy and the tie rests on
the correspondence check, see DESIGN 2.1):

  guard_function(tree, module, 'f' | 'C.m', decorators=(), defaults=None)
      exactly one binding of the name in its scope (module / class body, compound statements included),
      no `global`, no `X.m = ...` / setattr / globals()[..] re-binding anywhere in the file, the decorator list
      is exactly `decorators`, the defaults are exactly `defaults` ({param: source text | ANY}; None = not
      checked because the translator reads them itself), and the RUNTIME object `module.f` is the function
      compiled from that very AST node (same file, same first line, same name, not wrapped).
  guard_class(tree, module, 'C', bases=None, methods=None)
      single binding, no class decorator, runtime object is that class; optionally the exact base list and
      the exact set of method names the class body defines.
  guard_constant(tree, module, 'NAME' | 'C.NAME', evaluate=True)
      single plain assignment, never mutated in the file (subscript / attribute stores, del, mutating method
      calls, augmented assignment), runtime value == the value of the assigned expression.
  guard_import(tree, module, 'name', 'pkg.mod' | 'pkg.mod:attr', within=[FunctionDef...])
      the module-level name is bound once, by an import, to exactly that object, and is not shadowed inside
      the given functions.
  guard_shape(fn_node, sha, consts)
      for helpers the hand-written model TRANSCRIBES without translating: the function's skeleton (AST with
      every constant replaced by a hole, docstring dropped) hashes to `sha`, and its constants in source order
      are `consts` (ANY where the translator reads the value itself).
  check(spec)   table-driven form of all of the above; every gen_*.py lists what it reads in FAILCLOSED
                and calls check() where it locates its items.  tools/gen/selftest_failclosed.py derives its
                mutation matrix from the same tables.

Nothing here changes what a translator emits; it only changes WHEN it refuses.
"""
import ast, copy, hashlib, importlib, inspect, os, sys
from common import GenError, repo_ast, repo_import
import common

ANY = '<any>'

_SCOPE_STOP = (ast.FunctionDef, ast.AsyncFunctionDef, ast.ClassDef, ast.Lambda)
_MUTATORS = {'append', 'extend', 'insert', 'remove', 'pop', 'clear', 'sort', 'reverse', 'update', 'setdefault',
             'popitem', 'add', 'discard', 'difference_update', 'intersection_update', 'symmetric_difference_update',
             '__setitem__', '__delitem__', '__iadd__', '__ior__', 'move_to_end', 'appendleft', 'extendleft'}
_TAMPER_ATTRS = {'__code__', '__defaults__', '__kwdefaults__', '__wrapped__', '__globals__', '__class__', '__bases__',
                 '__dict__', '__getattribute__', '__getattr__'}


# ------------------------------------------------------------------ static helpers

def _walk_scope(body):
    """every node evaluated in the scope whose statements are `body`: compound statements are entered, nested
    def / class / lambda are yielded but their bodies are not entered (decorators, defaults and bases are)"""
    stack = list(reversed(body))
    while stack:
        n = stack.pop()
        yield n
        if isinstance(n, (ast.FunctionDef, ast.AsyncFunctionDef)):
            stack.extend(n.decorator_list); stack.extend(n.args.defaults); stack.extend(d for d in n.args.kw_defaults if d is not None)
        elif isinstance(n, ast.ClassDef):
            stack.extend(n.decorator_list); stack.extend(n.bases); stack.extend(k.value for k in n.keywords)
        elif isinstance(n, ast.Lambda):
            stack.extend(n.args.defaults)
        else:
            stack.extend(reversed(list(ast.iter_child_nodes(n))))


def bindings(body, name):
    """the nodes that (re)bind or delete `name` in the scope `body`"""
    out = []
    for n in _walk_scope(body):
        if isinstance(n, (ast.FunctionDef, ast.AsyncFunctionDef, ast.ClassDef)) and n.name == name:
            out.append(n)
        elif isinstance(n, ast.Name) and n.id == name and isinstance(n.ctx, (ast.Store, ast.Del)):
            out.append(n)
        elif isinstance(n, (ast.Import, ast.ImportFrom)):
            for a in n.names:
                if a.name == '*' or (a.asname or a.name.split('.')[0]) == name:
                    out.append(n)
        elif isinstance(n, ast.ExceptHandler) and n.name == name:
            out.append(n)
        elif isinstance(n, (ast.MatchAs, ast.MatchStar)) and n.name == name:
            out.append(n)
        elif isinstance(n, ast.MatchMapping) and n.rest == name:
            out.append(n)
    return out


def _where(n):
    return 'line %s' % getattr(n, 'lineno', '?')


def _scope(tree, qualname):
    """-> (owner ClassDef | None, scope body, simple name)"""
    parts = qualname.split('.')
    if len(parts) == 1:
        return None, tree.body, parts[0]
    if len(parts) != 2:
        raise GenError('failclosed: qualified name %s' % qualname)
    cls = _class_node(tree, parts[0])
    return cls, cls.body, parts[1]


def _class_node(tree, name):
    bs = bindings(tree.body, name)
    if len(bs) != 1 or not isinstance(bs[0], ast.ClassDef):
        raise GenError('class %s is not defined exactly once at module level (%d bindings: %s)'
                       % (name, len(bs), ', '.join(_where(b) for b in bs)))
    return bs[0]


def _no_dynamic_rebinding(tree, name, owner):
    """`global name`, setattr/delattr(.., 'name', ..), globals()['name'] = .., X.__dict__['name'] = ..,
    and - for a class member - any `<expr>.name = ..` / `del <expr>.name` anywhere in the file"""
    for n in ast.walk(tree):
        if isinstance(n, (ast.Global, ast.Nonlocal)) and name in n.names and owner is None:
            raise GenError('%s is declared global/nonlocal inside a function (%s): it can be re-bound at run time' % (name, _where(n)))
        if isinstance(n, ast.Call) and isinstance(n.func, ast.Name) and n.func.id in ('setattr', 'delattr') and len(n.args) >= 2 \
                and isinstance(n.args[1], ast.Constant) and n.args[1].value == name:
            raise GenError('%s is re-bound through %s() (%s)' % (name, n.func.id, _where(n)))
        if isinstance(n, ast.Subscript) and isinstance(n.ctx, (ast.Store, ast.Del)) and isinstance(n.slice, ast.Constant) \
                and n.slice.value == name:
            v = n.value
            if (isinstance(v, ast.Call) and isinstance(v.func, ast.Name) and v.func.id in ('globals', 'vars', 'locals')) \
                    or (isinstance(v, ast.Attribute) and v.attr == '__dict__'):
                raise GenError('%s is re-bound through a namespace dictionary (%s)' % (name, _where(n)))
        if owner is not None and isinstance(n, ast.Attribute) and n.attr == name and isinstance(n.ctx, (ast.Store, ast.Del)):
            raise GenError('attribute %s is assigned / deleted outside the class body (%s): %s'
                           % (name, _where(n), ast.unparse(n)[:60]))
        if isinstance(n, ast.Attribute) and n.attr in _TAMPER_ATTRS and isinstance(n.ctx, (ast.Store, ast.Del)):
            raise GenError('%s is assigned (%s): function / class objects are tampered with' % (n.attr, _where(n)))


def _single_binding(tree, qualname, kinds, what):
    owner, body, name = _scope(tree, qualname)
    bs = bindings(body, name)
    if len(bs) != 1:
        raise GenError('%s %s is bound %d times in its scope (%s): the last binding wins at run time, the translator reads the first'
                       % (what, qualname, len(bs), ', '.join(_where(b) for b in bs)))
    if not isinstance(bs[0], kinds):
        raise GenError('%s %s is bound by a %s (%s)' % (what, qualname, type(bs[0]).__name__, _where(bs[0])))
    _no_dynamic_rebinding(tree, name, owner)
    return owner, bs[0]


def defaults_of(fn):
    """{param: source text of its default}"""
    a = fn.args
    pos = list(a.posonlyargs) + list(a.args)
    out = {}
    for p, d in zip(pos[len(pos) - len(a.defaults):], a.defaults):
        out[p.arg] = ast.unparse(d)
    for p, d in zip(a.kwonlyargs, a.kw_defaults):
        if d is not None:
            out[p.arg] = ast.unparse(d)
    return out


# ------------------------------------------------------------------ runtime helpers

def _module_file(module):
    return os.path.realpath(getattr(module, '__file__', '') or '')


def _owner_object(module, owner):
    if owner is None:
        return module
    c = vars(module).get(owner.name)
    if not inspect.isclass(c) or c.__module__ != module.__name__ or c.__qualname__ != owner.name:
        raise GenError('%s.%s is not the class defined in the file (%r)' % (module.__name__, owner.name, c))
    return c


def _runtime_function(module, owner, node, qualname, wrappers):
    ns = vars(_owner_object(module, owner))
    if node.name not in ns:
        raise GenError('%s is not an attribute of its owner at run time' % qualname)
    f = ns[node.name]
    # peel the decorators from the outside in (the first in the list is the outermost)
    for d in wrappers:
        if d in ('staticmethod', 'classmethod'):
            if not isinstance(f, (staticmethod, classmethod)): raise GenError('%s: not a %s object at run time' % (qualname, d))
            f = f.__func__
        elif d == 'property':
            if not isinstance(f, property): raise GenError('%s: not a property at run time' % qualname)
            f = f.fget
        elif d.endswith('.setter'):
            if not isinstance(f, property): raise GenError('%s: not a property at run time' % qualname)
            f = f.fset
        elif d in ('abc.abstractmethod', 'abstractmethod'):
            if not getattr(f, '__isabstractmethod__', False): raise GenError('%s: not abstract at run time' % qualname)
        else:                                       # a wrapping decorator the translator knows (contextlib.contextmanager)
            if not hasattr(f, '__wrapped__'): raise GenError('%s: decorator %s left no __wrapped__' % (qualname, d))
            f = f.__wrapped__
    if hasattr(f, '__wrapped__') or not inspect.isfunction(f):
        raise GenError('%s is wrapped / replaced at run time (%s)' % (qualname, type(f).__name__))
    code = f.__code__
    first = min([node.lineno] + [d.lineno for d in node.decorator_list])
    if os.path.realpath(code.co_filename) != _module_file(module) or code.co_firstlineno != first or code.co_name != node.name:
        raise GenError('%s at run time is %s:%d (%s), not the definition at line %d that the translator reads'
                       % (qualname, os.path.basename(code.co_filename), code.co_firstlineno, code.co_name, first))
    return f


# ------------------------------------------------------------------ guards

def guard_function(tree, module, qualname, decorators=(), defaults=None):
    owner, node = _single_binding(tree, qualname, (ast.FunctionDef,), 'function')
    decs = [ast.unparse(d) for d in node.decorator_list]
    if decs != list(decorators):
        raise GenError('%s: decorators are %r, the translator expects %r (a decorator changes what the name denotes)'
                       % (qualname, decs, list(decorators)))
    if defaults is not None:
        got = defaults_of(node)
        if sorted(got) != sorted(defaults) or any(defaults[k] != ANY and defaults[k] != got[k] for k in got):
            raise GenError('%s: default arguments are %r, the model was written for %r' % (qualname, got, dict(defaults)))
    if module is not None:
        _runtime_function(module, owner, node, qualname, decs)
    return node


def guard_class(tree, module, name, bases=None, methods=None):
    node = _class_node(tree, name)
    _no_dynamic_rebinding(tree, name, None)
    if node.decorator_list:
        raise GenError('class %s is decorated' % name)
    if node.keywords:
        raise GenError('class %s has class keywords (metaclass=...)' % name)
    if bases is not None and [ast.unparse(b) for b in node.bases] != list(bases):
        raise GenError('class %s: bases are %r, expected %r' % (name, [ast.unparse(b) for b in node.bases], list(bases)))
    if methods is not None:
        got = sorted(n.name for n in node.body if isinstance(n, (ast.FunctionDef, ast.AsyncFunctionDef)))
        if got != sorted(methods) or len(set(got)) != len(got):
            raise GenError('class %s defines methods %r, the model was written for %r (an override of an inherited method is unmodelled behaviour)'
                           % (name, got, sorted(methods)))
    if module is not None:
        c = _owner_object(module, node)
        if bases is not None:
            want = []
            for b in node.bases:
                try: want.append(eval(compile(ast.Expression(copy.deepcopy(b)), '<failclosed>', 'eval'), dict(vars(module))))
                except Exception as e: raise GenError('class %s: base %s does not evaluate: %s' % (name, ast.unparse(b), e))
            if list(c.__bases__) != (want or [object]):
                raise GenError('class %s: run-time bases %r differ from the class statement' % (name, c.__bases__))
    return node


def _chain_hits(node, name, in_class):
    """does the attribute / subscript chain `node` go through the constant?"""
    n = node
    while isinstance(n, (ast.Attribute, ast.Subscript, ast.Starred)):
        if in_class and isinstance(n, ast.Attribute) and n.attr == name:
            return True
        n = n.value
    return (not in_class) and isinstance(n, ast.Name) and n.id == name


def _same_value(a, b):
    if hasattr(a, 'pattern') and hasattr(a, 'flags') and hasattr(b, 'pattern') and hasattr(b, 'flags'):
        return type(a) is type(b) and a.pattern == b.pattern and a.flags == b.flags
    if type(a) is not type(b):
        return False
    if isinstance(a, (list, tuple)):
        return len(a) == len(b) and all(_same_value(x, y) for x, y in zip(a, b))
    if isinstance(a, dict):
        return list(a.keys()) == list(b.keys()) and all(_same_value(a[k], b[k]) for k in a)
    try:
        return bool(a == b)
    except Exception:
        return False


def guard_constant(tree, module, qualname, evaluate=True):
    owner, node = _single_binding(tree, qualname, (ast.Name,), 'constant')
    name = node.id
    owner_body = tree.body if owner is None else owner.body
    assign = None
    for n in _walk_scope(owner_body):
        if isinstance(n, ast.Assign) and any(t is node for t in n.targets):
            if len(n.targets) != 1: raise GenError('%s: chained assignment' % qualname)
            assign = n
        elif isinstance(n, ast.AnnAssign) and n.target is node and n.value is not None:
            assign = n
    if assign is None or assign not in owner_body:
        raise GenError('%s is not bound by a plain top-level `NAME = <expression>` of its scope' % qualname)
    for n in ast.walk(tree):
        if isinstance(n, (ast.Attribute, ast.Subscript)) and isinstance(n.ctx, (ast.Store, ast.Del)):
            if isinstance(n, ast.Attribute) and n.attr == name and owner is not None:
                continue        # reported by _no_dynamic_rebinding
            if _chain_hits(n.value if isinstance(n, ast.Subscript) else n.value, name, owner is not None):
                raise GenError('%s is mutated (%s): %s' % (qualname, _where(n), ast.unparse(n)[:60]))
        if isinstance(n, ast.Call) and isinstance(n.func, ast.Attribute) and n.func.attr in _MUTATORS \
                and _chain_hits(n.func.value, name, owner is not None):
            raise GenError('%s is mutated by .%s() (%s)' % (qualname, n.func.attr, _where(n)))
        if isinstance(n, ast.AugAssign) and _chain_hits(n.target, name, owner is not None):
            raise GenError('%s is mutated by an augmented assignment (%s)' % (qualname, _where(n)))
    if module is not None:
        o = _owner_object(module, owner)
        if name not in vars(o):
            raise GenError('%s does not exist at run time' % qualname)
        if evaluate:
            try:
                want = eval(compile(ast.Expression(copy.deepcopy(assign.value)), '<failclosed>', 'eval'), dict(vars(module)),
                            dict(vars(o)) if owner is not None else None)
            except Exception as e:
                raise GenError('%s: the assigned expression does not evaluate (%s: %s)' % (qualname, type(e).__name__, e))
            if not _same_value(want, vars(o)[name]):
                raise GenError('%s at run time is not the value of the expression assigned at line %d' % (qualname, assign.lineno))
    return assign


def _resolve(target):
    mod, _, attr = target.partition(':')
    o = importlib.import_module(mod)
    for a in (attr.split('.') if attr else []):
        o = getattr(o, a)
    return o


def binds_locally(fn, name):
    a = fn.args
    params = [x.arg for x in list(a.posonlyargs) + list(a.args) + list(a.kwonlyargs)] + [x.arg for x in (a.vararg, a.kwarg) if x is not None]
    if name in params:
        return True
    for n in ast.walk(ast.Module(body=fn.body, type_ignores=[])):
        if isinstance(n, ast.Name) and n.id == name and isinstance(n.ctx, (ast.Store, ast.Del)): return True
        if isinstance(n, (ast.Import, ast.ImportFrom)) and any((x.asname or x.name.split('.')[0]) == name or x.name == '*' for x in n.names): return True
        if isinstance(n, (ast.Global, ast.Nonlocal)) and name in n.names: return True
        if isinstance(n, (ast.FunctionDef, ast.AsyncFunctionDef, ast.ClassDef)) and n.name == name: return True
        if isinstance(n, ast.arg) and n.arg == name: return True
        if isinstance(n, ast.ExceptHandler) and n.name == name: return True
    return False


def guard_import(tree, module, name, target, within=()):
    _, node = _single_binding(tree, name, (ast.Import, ast.ImportFrom), 'imported name')
    if node not in tree.body:
        raise GenError('%s is imported conditionally (%s)' % (name, _where(node)))
    for fn in within:
        # a local of the same name matters only where the function uses the name the way a module is used (name.attr)
        if binds_locally(fn, name) and any(isinstance(n, ast.Attribute) and isinstance(n.value, ast.Name) and n.value.id == name
                                           for n in ast.walk(fn)):
            raise GenError('%s is shadowed inside %s' % (name, fn.name))
    if module is not None:
        try:
            want = _resolve(target)
        except Exception as e:
            raise GenError('%s: cannot resolve %s (%s)' % (name, target, e))
        if vars(module).get(name) is not want:
            raise GenError('the name %s in %s is not %s' % (name, module.__name__, target))
    return node


# ------------------------------------------------------------------ shapes of transcribed helpers

class _Holes(ast.NodeTransformer):
    def __init__(self):
        self.vals = []

    def visit_Constant(self, n):
        self.vals.append(n.value)
        return ast.copy_location(ast.Constant(value=type(n.value).__name__), n)


def skeleton(fn):
    """(sha1 of the AST with constants replaced by their type names and the docstring dropped, [constants in source order])"""
    fn = copy.deepcopy(fn)
    if fn.body and isinstance(fn.body[0], ast.Expr) and isinstance(fn.body[0].value, ast.Constant) and isinstance(fn.body[0].value.value, str):
        fn.body = fn.body[1:] or [ast.Pass()]
    h = _Holes()
    fn = h.visit(fn)
    return hashlib.sha1(ast.dump(fn, include_attributes=False).encode()).hexdigest()[:16], h.vals


def guard_shape(fn, sha, consts=None, what=None):
    what = what or fn.name
    got, vals = skeleton(fn)
    if got != sha:
        raise GenError('%s: the statement structure changed (skeleton %s, the model was transcribed from %s)' % (what, got, sha))
    if consts is not None:
        if len(vals) != len(consts) or any(c != ANY and (type(c) is not type(v) or c != v) for c, v in zip(consts, vals)):
            raise GenError('%s: constants %r, the model was transcribed from %r' % (what, vals, list(consts)))
    return vals


# ------------------------------------------------------------------ table-driven form

def check(spec):
    """spec: {'src': path relative to the repository, 'mod': module name | None (static checks only),
              'functions': {qualname: {'decorators': (...), 'defaults': {...} | None}},
              'classes':   {name: {'bases': [...] | None, 'methods': [...] | None}},
              'constants': {qualname: {'evaluate': bool}} | [qualname, ...],
              'imports':   {name: target},
              'shapes':    {qualname: (sha, consts | None)}}
    Returns {qualname: FunctionDef} for the guarded functions."""
    tree = repo_ast(spec['src'])
    module = repo_import(spec['mod']) if spec.get('mod') else None
    if module is not None and _module_file(module) != os.path.realpath(os.path.join(common.REPO, spec['src'])):
        raise GenError('%s was imported from %s' % (spec['mod'], _module_file(module)))
    out = {}
    for cname, o in (spec.get('classes') or {}).items():
        guard_class(tree, module, cname, (o or {}).get('bases'), (o or {}).get('methods'))
    for q, o in (spec.get('functions') or {}).items():
        o = o or {}
        out[q] = guard_function(tree, module, q, o.get('decorators', ()), o.get('defaults'))
    cs = spec.get('constants') or {}
    if not isinstance(cs, dict): cs = {q: {} for q in cs}
    for q, o in cs.items():
        guard_constant(tree, module, q, (o or {}).get('evaluate', True))
    for name, target in (spec.get('imports') or {}).items():
        guard_import(tree, module, name, target, within=list(out.values()))
    for q, (sha, consts) in (spec.get('shapes') or {}).items():
        owner, body, name = _scope(tree, q)
        fn = out.get(q) or guard_function(tree, module, q, decorators=[ast.unparse(d) for d in _first_def(body, name, q).decorator_list])
        guard_shape(fn, sha, consts, q)
    return out


def _first_def(body, name, q):
    for n in body:
        if isinstance(n, ast.FunctionDef) and n.name == name:
            return n
    raise GenError('function %s not found' % q)


def check_all(specs):
    out = {}
    for s in specs:
        out.update(check(s))
    return out


if __name__ == '__main__':
    # python tools/gen/failclosed.py describe oslo_utils/strutils.py mask_password split_path ...
    #   prints, for each function, the FAILCLOSED entry (decorators, defaults) and its shape (sha, constants)
    src = sys.argv[2]
    t = repo_ast(src)
    for q in sys.argv[3:]:
        _, body, nm = _scope(t, q)
        f = _first_def(body, nm, q)
        sha, vals = skeleton(f)
        print('%r: {%s\'defaults\': %r},' % (q, ("'decorators': %r, " % ([ast.unparse(d) for d in f.decorator_list],)) if f.decorator_list else '', defaults_of(f)))
        print('    shape %r: (%r, %r),' % (q, sha, vals))
