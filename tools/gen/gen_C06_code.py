"""Gen/C06_Code.v — statement-level translation of InspectWrapper (__init__, _process_chunk, _finish, formats,
format, read, __next__, close), detect_file_format and _chunked_reader (oslo_utils/imageutils/format_inspector.py)
into Gallina over the ABSTRACT inspector interface of coq/Model/Wrap.v.  coq/Proofs/C06_Equiv.v proves each
generated function equal to the hand-written model (`*_equiv`), so editing a conjunct, the except clause, the
`.add`, the order of _process_chunk / return in read, or the `finally` of detect_file_format changes a generated
definition and breaks a proof obligation.

Object model (coq/Model/C06_CodeLib.v): an inspector object is a `slot` (NAME, abstract state, "in
self._errored_inspectors"); `self._inspectors` is `w_slots w` (list order = the set's iteration order, a parameter);
`self._source` is a separate value `s` of an abstract source type with `src_read / src_next / src_has_close /
src_close`; a block of statements is a term `(state..., outcome T)`.

Subset (anything else -> GenError, i.e. the committed baseline copy is used and the correspondence decides):
  statements  local / self-field assignment, calls to self/wrapper methods and properties, to the source, to
              eat_chunk / finish of the loop variable, `self._errored_inspectors.add(x)`, LOG.* with pure arguments,
              if / elif / else, return, raise (bare, or a known exception class), try / except (classes) / else /
              finally, `for x in <self._inspectors | [i for i in self._inspectors if c]>` mutating only x,
              `for x in <generator function>(..)` by inlining the generator (`while True`, `break`, `yield`),
              `with open(filename, 'rb') as f`
  expressions constants, locals, self fields, x.NAME / x.complete / x.format_match / str(x), == / != on names,
              `is None`, len(l) > n, `in` / `not in` (errored set, allowed_formats), not / and / or with Python
              truthiness by type, all([...]), list / set comprehensions over inspectors, l[0] (IndexError)."""
import ast, copy
from common import *
import failclosed

SRC = 'oslo_utils/imageutils/format_inspector.py'
MOD = 'oslo_utils.imageutils.format_inspector'
FAILCLOSED = {'generate': [{'src': SRC, 'mod': MOD,
    'classes': {'InspectWrapper': {'bases': []}},
    'functions': {'InspectWrapper.__init__': {'defaults': {'expected_format': 'None', 'allowed_formats': 'None'}},
                  'InspectWrapper.__iter__': {'defaults': {}}, 'InspectWrapper._process_chunk': {'defaults': {}},
                  'InspectWrapper.__next__': {'defaults': {}}, 'InspectWrapper.read': {'defaults': {}},
                  'InspectWrapper._finish': {'defaults': {}}, 'InspectWrapper.close': {'defaults': {}},
                  'InspectWrapper.formats': {'decorators': ['property'], 'defaults': {}},
                  'InspectWrapper.format': {'decorators': ['property'], 'defaults': {}},
                  'detect_file_format': {'defaults': {}}, '_chunked_reader': {'defaults': {'chunk_size': '512'}},
                  'FileInspector.__str__': {'defaults': {}}},
    'shapes': {'FileInspector.__str__': ('08f40b2fdd063b1b', [])}}]}

EXN = {'ImageFormatError', 'SafetyViolation', 'SafetyCheckFailed', 'KeyError', 'AttributeError', 'IndexError', 'ValueError',
       'TypeError', 'RuntimeError', 'UnicodeDecodeError', 'OverflowError', 'StopIteration', 'OSError'}
COQ_TY = {'bytes': 'bytes', 'Z': 'Z', 'bool': 'bool', 'str': 'str', 'optstr': 'option str', 'slot': 'slot I', 'slots': 'list (slot I)',
          'optslots': 'option (list (slot I))', 'optslot': 'option (slot I)', 'unit': 'unit', 'allowed': 'option (list str)',
          'src': 'Src', 'exn': 'exn', 'bools': 'list bool', 'nat': 'nat', 'data': 'bytes'}
DEFAULT = {'unit': 'tt', 'optslots': 'None', 'optslot': 'None', 'bytes': '[]'}

# the methods of InspectWrapper as callees: world they thread, result type
METHODS = {'_process_chunk': ('w', 'unit'), '_finish': ('w', 'unit'), 'read': ('ws', 'bytes'), 'close': ('ws', 'unit')}
PROPS = {'formats': 'optslots', 'format': 'optslot'}
SELF_FIELDS = {'_inspectors': ('(w_slots w)', 'slots'), '_finished': ('(w_finished w)', 'bool'), '_expected_format': ('(w_expected w)', 'optstr')}

def U(msg, node=None):
    return GenError(msg + ((': ' + ast.unparse(node)[:70]) if node is not None else ''))

def body_of(fn):
    b = fn.body
    if b and isinstance(b[0], ast.Expr) and isinstance(b[0].value, ast.Constant) and isinstance(b[0].value.value, str): b = b[1:]
    return b

class Tr:
    """translator of one function body; `world`: the state variables threaded ('w','s' or the loop variable)"""
    def __init__(self, name, world, rtype, types, selfnames=('self',), aux=None, fuel=False, gens=None, slotvar=None, exc=None):
        self.name, self.world, self.rtype, self.types = name, list(world), rtype, dict(types)
        self.selfnames, self.aux, self.fuel, self.gens = set(selfnames), (aux if aux is not None else []), fuel, gens or {}
        self.slotvar = slotvar          # inside `for x in self._inspectors`: the python name of x (the world is that slot)
        self.exc = exc                  # inside an except handler: coq name of the exception
        self.nloop = 0; self.uses_fuel = False

    # ---------------------------------------------------------------- helpers
    def pack(self, o): return '(%s)' % ', '.join(self.world + [o])
    def pat(self, o='o__'): return "'(%s)" % ', '.join(self.world + [o])
    def is_self(self, e): return isinstance(e, ast.Name) and e.id in self.selfnames
    def need_w(self, node):
        if 'w' not in self.world and not self.slotvar: raise U('wrapper state used before it exists', node)
    def v(self, name): return 'v_' + name
    def truth(self, e):
        t, ty = self.ex(e)
        if ty == 'bool': return t
        if ty in ('bytes', 'slots', 'str'): return '(negb (is_nil %s))' % t
        if ty == 'optstr': return '(truthy_optstr %s)' % t
        if ty == 'allowed': return '(truthy_optlist %s)' % t
        if ty in ('optslot', 'optslots'): return '(is_some %s)' % t
        if ty == 'none': return 'false'
        raise U('truthiness of a %s' % ty, e)

    # ---------------------------------------------------------------- pure expressions
    def ex(self, e):
        if isinstance(e, ast.Constant):
            if e.value is None: return 'None', 'none'
            if e.value is True: return 'true', 'bool'
            if e.value is False: return 'false', 'bool'
            if type(e.value) is int: return '(%d)%%Z' % e.value, 'Z'
            if isinstance(e.value, str): return '(%s : str)' % lit(e.value), 'str'
            raise U('constant', e)
        if isinstance(e, ast.Name):
            if e.id in self.types: return self.v(e.id), self.types[e.id]
            raise U('unknown name', e)
        if isinstance(e, ast.Attribute):
            if self.is_self(e.value) and e.attr in SELF_FIELDS:
                self.need_w(e); return SELF_FIELDS[e.attr]
            if isinstance(e.value, ast.Name) and self.types.get(e.value.id) == 'slot':
                x = self.v(e.value.id)
                if e.attr == 'NAME': return '(s_name %s)' % x, 'str'
                if e.attr == 'complete': return '(complete (s_insp %s))' % x, 'bool'
                if e.attr == 'format_match': return '(fmatch (s_insp %s))' % x, 'bool'
            raise U('attribute', e)
        if isinstance(e, ast.UnaryOp) and isinstance(e.op, ast.Not):
            return '(negb %s)' % self.truth(e.operand), 'bool'
        if isinstance(e, ast.BoolOp):
            op = ' && ' if isinstance(e.op, ast.And) else ' || '
            t = self.truth(e.values[0])
            for x in e.values[1:]: t = '(%s%s%s)' % (t, op, self.truth(x))
            return t, 'bool'
        if isinstance(e, ast.Compare) and len(e.ops) == 1:
            op, a, b = e.ops[0], e.left, e.comparators[0]
            if isinstance(op, (ast.In, ast.NotIn)):
                neg = isinstance(op, ast.NotIn)
                if isinstance(b, ast.Attribute) and self.is_self(b.value) and b.attr == '_errored_inspectors':
                    ta, tya = self.ex(a)
                    if tya != 'slot': raise U('membership in the errored set', e)
                    t = '(s_err %s)' % ta
                else:
                    (ta, tya), (tb, tyb) = self.ex(a), self.ex(b)
                    if (tya, tyb) != ('str', 'allowed'): raise U('membership', e)
                    t = '(opt_memb %s %s)' % (ta, tb)
                return ('(negb %s)' % t if neg else t), 'bool'
            if isinstance(op, (ast.Is, ast.IsNot)) and isinstance(b, ast.Constant) and b.value is None:
                ta, tya = self.ex(a)
                if tya not in ('allowed', 'optstr', 'optslot', 'optslots'): raise U('is None', e)
                return ('(negb (is_some %s))' if isinstance(op, ast.Is) else '(is_some %s)') % ta, 'bool'
            if isinstance(op, (ast.Eq, ast.NotEq)):
                (ta, tya), (tb, tyb) = self.ex(a), self.ex(b)
                if (tya, tyb) == ('str', 'str'): t = '(beq %s %s)' % (ta, tb)
                elif (tya, tyb) == ('str', 'optstr'): t = '(name_is %s %s)' % (ta, tb)
                elif (tya, tyb) == ('optstr', 'str'): t = '(name_is %s %s)' % (tb, ta)
                else: raise U('comparison of %s with %s' % (tya, tyb), e)
                return ('(negb %s)' % t if isinstance(op, ast.NotEq) else t), 'bool'
            if isinstance(op, (ast.Gt, ast.Lt, ast.GtE, ast.LtE)):
                (ta, tya), (tb, tyb) = self.ex(a), self.ex(b)
                if tya == 'nat' and isinstance(b, ast.Constant) and type(b.value) is int and b.value >= 0:
                    n = '%d' % b.value
                    return {ast.Gt: '(%s <? %s)%%nat' % (n, ta), ast.Lt: '(%s <? %s)%%nat' % (ta, n),
                            ast.GtE: '(%s <=? %s)%%nat' % (n, ta), ast.LtE: '(%s <=? %s)%%nat' % (ta, n)}[type(op)], 'bool'
            raise U('comparison', e)
        if isinstance(e, ast.Call) and isinstance(e.func, ast.Name) and not e.keywords:
            f = e.func.id
            if f == 'str' and len(e.args) == 1:
                t, ty = self.ex(e.args[0])
                if ty == 'slot': return '(s_name %s)' % t, 'str'      # FileInspector.__str__ returns NAME (guarded)
            if f == 'len' and len(e.args) == 1:
                t, ty = self.ex(e.args[0])
                if ty in ('slots', 'bytes'): return '(length %s)' % t, 'nat'
            if f == 'all' and len(e.args) == 1:
                t, ty = self.ex(e.args[0])
                if ty == 'bools': return '(forallb (fun b__ => b__) %s)' % t, 'bool'
            if f == 'hasattr' and len(e.args) == 2 and isinstance(e.args[1], ast.Constant) and e.args[1].value == 'close' \
               and isinstance(e.args[0], ast.Attribute) and self.is_self(e.args[0].value) and e.args[0].attr == '_source':
                return '(src_has_close s)', 'bool'
            raise U('call', e)
        if isinstance(e, (ast.ListComp, ast.SetComp)):
            if len(e.generators) != 1 or e.generators[0].is_async: raise U('comprehension', e)
            g = e.generators[0]
            it, ity = self.ex(g.iter)
            if ity != 'slots' or not isinstance(g.target, ast.Name): raise U('comprehension source', e)
            x = g.target.id
            sub = Tr(self.name, self.world, self.rtype, dict(self.types, **{x: 'slot'}), self.selfnames, self.aux, slotvar=self.slotvar)
            src = it
            for c in g.ifs: src = '(filter (fun %s => %s) %s)' % (self.v(x), sub.truth(c), src)
            if isinstance(e.elt, ast.Name) and e.elt.id == x: return src, 'slots'
            t, ty = sub.ex(e.elt)
            if ty == 'bool': return '(map (fun %s => %s) %s)' % (self.v(x), t, src), 'bools'
            raise U('comprehension element', e)
        raise U('expression', e)

    def pure_msg(self, e):
        """arguments of exception constructors / LOG calls: evaluated by Python, so they must be effect-free and total"""
        if isinstance(e, ast.Constant): return
        if isinstance(e, (ast.Tuple, ast.List)): [self.pure_msg(x) for x in e.elts]; return
        if isinstance(e, ast.BinOp) and isinstance(e.op, ast.Mod): self.pure_msg(e.left); self.pure_msg(e.right); return
        if isinstance(e, ast.Name) and (e.id in self.types or e.id == self.excname_py): return
        if isinstance(e, ast.Attribute) and isinstance(e.value, ast.Name) and self.types.get(e.value.id) == 'slot' and e.attr == 'NAME': return
        if isinstance(e, ast.Call) and isinstance(e.func, ast.Name) and e.func.id == 'str' and len(e.args) == 1: self.pure_msg(e.args[0]); return
        if isinstance(e, ast.Call) and isinstance(e.func, ast.Attribute) and e.func.attr == 'join' and isinstance(e.func.value, ast.Constant) \
           and len(e.args) == 1 and isinstance(e.args[0], ast.GeneratorExp) and len(e.args[0].generators) == 1:
            g = e.args[0].generators[0]
            _, ity = self.ex(g.iter)
            if ity == 'slots' and isinstance(g.target, ast.Name) and not g.ifs:
                sub = Tr(self.name, self.world, self.rtype, dict(self.types, **{g.target.id: 'slot'}), self.selfnames, self.aux)
                sub.excname_py = self.excname_py; sub.pure_msg(e.args[0].elt); return
        raise U('argument that may have an effect or raise', e)
    excname_py = None

    # ---------------------------------------------------------------- calls with effects: (coq term, rebound state, value type)
    def call(self, e):
        """-> (term : state' * res T  as text, pattern of the state it returns, T)  or None if e is not such a call"""
        if isinstance(e, ast.Attribute) and self.is_self(e.value) and e.attr in PROPS:          # property (pure, may raise)
            self.need_w(e); return 'gen_%s w' % e.attr, [], PROPS[e.attr]
        if not isinstance(e, ast.Call) or e.keywords: return None
        f = e.func
        if isinstance(f, ast.Attribute) and self.is_self(f.value) and f.attr in METHODS:
            world, ty = METHODS[f.attr]
            if any(x not in self.world for x in world): raise U('method needs state that is not available here', e)
            args = [self.ex(a)[0] for a in e.args]
            return 'gen_%s %s' % (f.attr.strip('_') if f.attr != '_process_chunk' else 'process_chunk', ' '.join(list(world) + args)), list(world), ty
        if isinstance(f, ast.Attribute) and isinstance(f.value, ast.Attribute) and self.is_self(f.value.value) and f.value.attr == '_source':
            if 's' not in self.world: raise U('source used where it is not available', e)
            if f.attr == 'read' and len(e.args) == 1:
                t, ty = self.ex(e.args[0])
                if ty != 'Z': raise U('read size', e)
                return 'src_read s %s' % t, ['s'], 'bytes'
        if isinstance(f, ast.Name) and f.id == 'next' and len(e.args) == 1 and isinstance(e.args[0], ast.Attribute) \
           and self.is_self(e.args[0].value) and e.args[0].attr == '_source':
            if 's' not in self.world: raise U('source used where it is not available', e)
            return 'src_next s', ['s'], 'bytes'
        return None

    # ---------------------------------------------------------------- statements
    def seq(self, term, rest):
        if not rest: return term
        return 'let %s := %s in\nmatch o__ with Normal => %s | _ => %s end' % (self.pat(), term, self.stmts(rest), self.pack('o__'))

    def bind_call(self, c, var, ty_expected, rest_fn):
        """run the call; on exception raise it; else bind its value to `var` (or nothing) and continue with rest_fn()"""
        term, st, ty = c
        if var is not None: self.types[var] = ty
        inner = 'match r__ with Exn e__ => %s | Ok %s => %s end' % (self.pack('Raise e__'), self.v(var) if var else '_', rest_fn())
        if not st: return 'let r__ := %s in\n%s' % (term, inner)
        return "let '(%s) := %s in\n%s" % (', '.join(st + ['r__']), term, inner)

    def stmts(self, ss):
        if not ss: return self.pack('Normal')
        s, rest = ss[0], ss[1:]
        # ---- LOG.*(pure args): evaluated for nothing
        if isinstance(s, ast.Expr) and isinstance(s.value, ast.Call) and isinstance(s.value.func, ast.Attribute) \
           and isinstance(s.value.func.value, ast.Name) and s.value.func.value.id == 'LOG':
            for a in s.value.args: self.pure_msg(a)
            if s.value.keywords: raise U('LOG keywords', s)
            return self.stmts(rest)
        if isinstance(s, ast.Expr):
            e = s.value
            c = self.call(e)
            if c: return self.bind_call(c, None, None, lambda: self.stmts(rest))
            if isinstance(e, ast.Call) and isinstance(e.func, ast.Attribute) and not e.keywords:
                f = e.func
                # self._source.close()
                if f.attr == 'close' and isinstance(f.value, ast.Attribute) and self.is_self(f.value.value) and f.value.attr == '_source' and not e.args:
                    if 's' not in self.world: raise U('source not available', s)
                    return 'let s := src_close s in\n' + self.stmts(rest)
                # x.eat_chunk(chunk) / x.finish() on the loop variable
                if isinstance(f.value, ast.Name) and f.value.id == self.slotvar:
                    x = self.v(self.slotvar)
                    if f.attr == 'eat_chunk' and len(e.args) == 1:
                        t, ty = self.ex(e.args[0])
                        if ty != 'bytes': raise U('eat_chunk argument', s)
                        return ("let '(i__, oe__) := eat (s_insp %s) %s in\nlet %s := slot_set_insp I %s i__ in\n"
                                "match oe__ with Some e__ => %s | None => %s end" % (x, t, x, x, self.pack('Raise e__'), self.stmts(rest)))
                    if f.attr == 'finish' and not e.args:
                        return 'let %s := slot_set_insp I %s (finish (s_insp %s)) in\n%s' % (x, x, x, self.stmts(rest))
                # self._errored_inspectors.add(x)
                if f.attr == 'add' and isinstance(f.value, ast.Attribute) and self.is_self(f.value.value) and f.value.attr == '_errored_inspectors' \
                   and len(e.args) == 1 and isinstance(e.args[0], ast.Name) and e.args[0].id == self.slotvar:
                    x = self.v(self.slotvar)
                    return 'let %s := slot_set_err I %s in\n%s' % (x, x, self.stmts(rest))
            raise U('statement', s)
        if isinstance(s, ast.Assign) and len(s.targets) == 1:
            tg = s.targets[0]
            if isinstance(tg, ast.Name):
                c = self.call(s.value)
                if c: return self.bind_call(c, tg.id, None, lambda: self.stmts(rest))
                t, ty = self.ex(s.value)
                self.types[tg.id] = ty
                return 'let %s := %s in\n%s' % (self.v(tg.id), t, self.stmts(rest))
            if isinstance(tg, ast.Attribute) and self.is_self(tg.value) and tg.attr == '_finished' and 'w' in self.world:
                t, ty = self.ex(s.value)
                if ty != 'bool': raise U('_finished', s)
                return 'let w := w_set_finished I w %s in\n%s' % (t, self.stmts(rest))
            raise U('assignment', s)
        if isinstance(s, ast.Return):
            if s.value is None: return self.pack('Return tt') if self.rtype == 'unit' else self.pack('Return %s' % DEFAULT[self.rtype])
            c = self.call(s.value)
            if c:
                term, st, ty = c
                if st or ty != self.rtype: raise U('return of a call', s)
                return 'match %s with Exn e__ => %s | Ok r__ => %s end' % (term, self.pack('Raise e__'), self.pack('Return r__'))
            if isinstance(s.value, ast.Subscript) and isinstance(s.value.slice, ast.Constant) and s.value.slice.value == 0:
                t, ty = self.ex(s.value.value)
                if ty == 'slots' and self.rtype == 'optslot':
                    return 'match %s with x__ :: _ => %s | [] => %s end' % (t, self.pack('Return (Some x__)'), self.pack('Raise IndexError'))
                raise U('indexing', s)
            t, ty = self.ex(s.value)
            return self.pack('Return %s' % self.coerce(t, ty, s))
        if isinstance(s, ast.Raise):
            if s.exc is None:
                if not self.exc: raise U('bare raise outside a handler', s)
                return self.pack('Raise %s' % self.exc)
            if isinstance(s.exc, ast.Call) and isinstance(s.exc.func, ast.Name) and s.exc.func.id in EXN and not s.cause:
                for a in s.exc.args: self.pure_msg(a)
                return self.pack('Raise %s' % s.exc.func.id)
            raise U('raise', s)
        if isinstance(s, ast.Pass): return self.stmts(rest)
        if isinstance(s, ast.Break): return self.pack('Break')
        if isinstance(s, ast.Continue): return self.pack('Continue')
        if isinstance(s, ast.If): return self.if_(s, rest)
        if isinstance(s, ast.Try): return self.try_(s, rest)
        if isinstance(s, ast.For): return self.for_(s, rest)
        if isinstance(s, ast.While): return self.while_(s, rest)
        raise U('statement', s)

    def coerce(self, t, ty, node):
        r = self.rtype
        if ty == r: return t
        if ty == 'none' and r in ('optslot', 'optslots'): return 'None'
        if (ty, r) in (('slots', 'optslots'), ('slot', 'optslot')): return '(Some %s)' % t
        raise U('returning a %s from a function of type %s' % (ty, r), node)

    def branch(self, ss, types=None):
        sub = copy.copy(self); sub.types = dict(types if types is not None else self.types)
        t = sub.stmts(ss); self.uses_fuel |= sub.uses_fuel
        return t

    def if_(self, s, rest):
        t = s.test
        # `x is None` / `x is not None`: the branches know it
        if isinstance(t, ast.Compare) and len(t.ops) == 1 and isinstance(t.ops[0], (ast.Is, ast.IsNot)) and isinstance(t.left, ast.Name) \
           and isinstance(t.comparators[0], ast.Constant) and t.comparators[0].value is None and self.types.get(t.left.id) in ('optslots', 'optslot'):
            x = t.left.id; inner = {'optslots': 'slots', 'optslot': 'slot'}[self.types[x]]
            a = self.branch(s.body if isinstance(t.ops[0], ast.Is) else s.orelse, dict(self.types, **{x: 'none'}))
            b = self.branch(s.orelse if isinstance(t.ops[0], ast.Is) else s.body, dict(self.types, **{x: inner}))
            # in the None branch the variable is the constant None
            term = 'match %s with None => %s | Some %s => %s end' % (self.v(x), a, self.v(x), b)
            return self.seq(term, rest)
        c = self.call(t)
        if c:                                   # a test that may raise: `if wrapper.format:`
            term, st, ty = c
            if st: raise U('test with effects', s)
            sub_types = dict(self.types, **{'t__': ty})
            old = self.types; self.types = sub_types
            cond = self.truth(ast.Name(id='t__', ctx=ast.Load())); self.types = old
            body = 'match %s with Exn e__ => %s | Ok v_t__ => if %s then %s else %s end' % (
                term, self.pack('Raise e__'), cond, self.branch(s.body), self.branch(s.orelse))
            return self.seq(body, rest)
        term = 'if %s then %s else %s' % (self.truth(t), self.branch(s.body), self.branch(s.orelse))
        return self.seq('(%s)' % term, rest)

    def handlers(self, hs, evar):
        """dispatch on the class of exception evar"""
        if not hs: return self.pack('Raise %s' % evar)
        h = hs[0]
        if h.type is None or not isinstance(h.type, ast.Name): raise U('except clause', h)
        sub = copy.copy(self); sub.types = dict(self.types); sub.exc = evar; sub.excname_py = h.name
        body = sub.stmts(h.body)
        if h.type.id in ('Exception', 'BaseException'): return body     # every modelled exception is an Exception
        if h.type.id not in EXN: raise U('exception class', h)
        return 'match %s with %s => %s | _ => %s end' % (evar, h.type.id, body, self.handlers(hs[1:], evar))

    def terminal(self, ss):
        if not ss: return False
        l = ss[-1]
        if isinstance(l, (ast.Raise, ast.Return)): return True
        if isinstance(l, ast.If): return self.terminal(l.body) and self.terminal(l.orelse)
        return False

    def try_(self, s, rest):
        fin = None
        if s.finalbody: fin = s.finalbody
        b = s.body
        single = len(b) == 1 and ((isinstance(b[0], ast.Expr) and self.single_call(b[0].value)) or
                                  (isinstance(b[0], ast.Assign) and len(b[0].targets) == 1 and isinstance(b[0].targets[0], ast.Name)
                                   and self.call(b[0].value) is not None))
        if single and not fin:
            st = b[0]
            if isinstance(st, ast.Assign):
                # try: x = call() except ..: <must leave> ; orelse ; rest   (x is in scope in orelse and rest only)
                if not all(self.terminal(h.body) for h in s.handlers): raise U('handler falls through although the try body binds a local', s)
                term, wst, ty = self.call(st.value)
                var = st.targets[0].id
                hterm = self.handlers(s.handlers, 'e__h')
                self.types[var] = ty
                cont = self.stmts(list(s.orelse) + list(rest))
                return "let '(%s) := %s in\nmatch r__ with Exn e__h => %s | Ok %s => %s end" % (', '.join(wst + ['r__']), term, hterm, self.v(var), cont)
            # try: x.eat_chunk(c) / call()  except ..: H  else: E  ; rest
            inner = self.single_term(st.value, 'e__h')
            hterm = self.handlers(s.handlers, 'e__h')
            term = inner % {'raise': hterm, 'ok': self.branch(s.orelse)}
            return self.seq(term, rest)
        # general form: the body binds nothing that is used later
        for n in ast.walk(ast.Module(body=b, type_ignores=[])):
            if isinstance(n, ast.Assign): raise U('assignment inside a try body of this form', s)
        body = self.branch(b)
        hterm = self.handlers(s.handlers, 'e__h') if s.handlers else self.pack('Raise e__h')
        term = 'let %s := %s in\nmatch o__ with Raise e__h => %s | Normal => %s | _ => %s end' % (
            self.pat(), body, hterm, self.branch(s.orelse), self.pack('o__'))
        if fin:
            term = ('let %s := (%s) in\nlet %s := %s in\nmatch of__ with Normal => %s | _ => %s end'
                    % (self.pat(), term, self.pat('of__'), self.branch(fin), self.pack('o__'), self.pack('of__')))
        return self.seq('(%s)' % term, rest)

    def single_call(self, e):
        if self.call(e): return True
        return (isinstance(e, ast.Call) and isinstance(e.func, ast.Attribute) and isinstance(e.func.value, ast.Name)
                and e.func.value.id == self.slotvar and e.func.attr == 'eat_chunk')

    def single_term(self, e, evar):
        """template with %(raise)s / %(ok)s holes for a single call inside try"""
        c = self.call(e)
        if c:
            term, wst, ty = c
            p = "'(%s)" % ', '.join(wst + ['r__']) if wst else 'r__'
            return 'let ' + p + ' := ' + term + ' in\nmatch r__ with Exn ' + evar + ' => %(raise)s | Ok _ => %(ok)s end'
        x = self.v(self.slotvar)
        t, ty = self.ex(e.args[0])
        if len(e.args) != 1 or ty != 'bytes': raise U('eat_chunk argument', e)
        return ("let '(i__, oe__) := eat (s_insp " + x + ") " + t + " in\nlet " + x + " := slot_set_insp I " + x + " i__ in\n"
                "match oe__ with Some " + evar + " => %(raise)s | None => %(ok)s end")

    def ctx_params(self):
        """read-only context a loop function receives: the enclosing state and the locals in scope"""
        ps = []
        if self.slotvar is None:
            pass
        for n, ty in sorted(self.types.items()):
            if ty in COQ_TY: ps.append((self.v(n), COQ_TY[ty]))
        return ps

    def for_(self, s, rest):
        if s.orelse or not isinstance(s.target, ast.Name): raise U('for', s)
        it = s.iter
        # ---- for x in generator_function(args): inline the generator
        if isinstance(it, ast.Call) and isinstance(it.func, ast.Name) and it.func.id in self.gens:
            g = self.gens[it.func.id]
            params = [a.arg for a in g.args.args]
            if len(it.args) != len(params) or it.keywords: raise U('generator call', s)
            sub_map = dict(zip(params, it.args))
            class Sub(ast.NodeTransformer):
                def visit_Name(s2, n): return copy.deepcopy(sub_map[n.id]) if n.id in sub_map and isinstance(n.ctx, ast.Load) else n
            tgt, body = s.target.id, s.body
            class Y(ast.NodeTransformer):
                def visit_Expr(s2, n):
                    if isinstance(n.value, ast.Yield):
                        return [ast.Assign(targets=[ast.Name(id=tgt, ctx=ast.Store())], value=n.value.value)] + copy.deepcopy(body)
                    return n
            gb = [Y().visit(Sub().visit(copy.deepcopy(x))) for x in body_of(g)]
            flat = []
            for x in gb: flat += x if isinstance(x, list) else [x]
            for n in ast.walk(ast.Module(body=flat, type_ignores=[])):
                if isinstance(n, (ast.Yield, ast.YieldFrom)): raise U('yield in an unsupported position', s)
                if isinstance(n, ast.Assign) and any(isinstance(t, ast.Name) and t.id in sub_map for t in n.targets): raise U('generator assigns a parameter', s)
            return self.stmts(flat + list(rest))
        # ---- for x in self._inspectors / [i for i in self._inspectors if c]: the body may mutate x only
        cond = None
        if isinstance(it, ast.ListComp) and len(it.generators) == 1 and isinstance(it.elt, ast.Name) \
           and isinstance(it.generators[0].target, ast.Name) and it.elt.id == it.generators[0].target.id and not it.generators[0].is_async:
            g = it.generators[0]
            if len(g.ifs) > 1: raise U('several filters', s)
            cond = (g.target.id, g.ifs[0]) if g.ifs else None
            it = g.iter
        if not (isinstance(it, ast.Attribute) and self.is_self(it.value) and it.attr == '_inspectors') or 'w' not in self.world:
            raise U('for loop iterable', s)
        self.nloop += 1
        lname = 'gen_%s_loop%d' % (self.name, self.nloop)
        x = s.target.id
        ctx = [('w', 'wrapper I')] + self.ctx_params()
        sub = Tr(self.name, [self.v(x)], self.rtype, dict(self.types, **{x: 'slot'}), self.selfnames, self.aux, slotvar=x)
        sub.world = [sub.v(x)]
        body = sub.stmts(s.body)
        if cond:
            csub = Tr(self.name, [], self.rtype, dict(self.types, **{cond[0]: 'slot'}), self.selfnames, self.aux, slotvar=cond[0])
            ctext = csub.truth(cond[1]).replace(csub.v(cond[0]), sub.v(x)) if cond[0] != x else csub.truth(cond[1])
        T = COQ_TY[self.rtype]
        loop = ('Fixpoint %s %s (l__ : list (slot I)) {struct l__} : list (slot I) * outcome (%s) :=\n  match l__ with\n  | [] => ([], Normal)\n  | %s :: rest__ =>\n'
                % (lname, ' '.join('(%s : %s)' % p for p in ctx), T, sub.v(x)))
        go = "let '(rest__, o__) := %s %s rest__ in (%s :: rest__, o__)" % (lname, ' '.join(p[0] for p in ctx), sub.v(x))
        step = ("let '(%s, o__) := (%s) in\n    match o__ with\n    | Normal | Continue => %s\n    | Break => (%s :: rest__, Normal)\n    | _ => (%s :: rest__, o__)\n    end"
                % (sub.v(x), body, go, sub.v(x), sub.v(x)))
        if cond: step = 'if %s then (\n    %s)\n    else %s' % (ctext, step, go)
        self.aux.append(loop + '    ' + step + '\n  end.\n')
        term = "let '(l__, o__) := %s %s (w_slots w) in\nlet w := with_slots I w l__ in %s" % (lname, ' '.join(p[0] for p in ctx), self.pack('o__'))
        return self.seq('(%s)' % term, rest)

    def while_(self, s, rest):
        if s.orelse or not (isinstance(s.test, ast.Constant) and s.test.value is True): raise U('while', s)
        self.nloop += 1; self.uses_fuel = True
        lname = 'gen_%s_loop%d' % (self.name, self.nloop)
        ctx = self.ctx_params()
        sub = copy.copy(self); sub.types = dict(self.types)
        body = sub.stmts(s.body)
        T = COQ_TY[self.rtype]
        wparams = ' '.join('(%s : %s)' % (x, {'w': 'wrapper I', 's': 'Src'}[x]) for x in self.world)
        rec = '%s fuel__ %s %s' % (lname, ' '.join(p[0] for p in ctx), ' '.join(self.world))
        self.aux.append(
            'Fixpoint %s (fuel__ : nat) %s %s {struct fuel__} : %s * outcome (%s) :=\n  match fuel__ with\n  | O => %s\n  | S fuel__ =>\n    let %s := (%s) in\n'
            '    match o__ with\n    | Normal | Continue => %s\n    | Break => %s\n    | _ => %s\n    end\n  end.\n'
            % (lname, ' '.join('(%s : %s)' % p for p in ctx), wparams, ' * '.join({'w': 'wrapper I', 's': 'Src'}[x] for x in self.world), T,
               self.pack('Normal'), self.pat(), body, rec, self.pack('Normal'), self.pack('o__')))
        return self.seq('(%s fuel__ %s %s)' % (lname, ' '.join(p[0] for p in ctx), ' '.join(self.world)), rest)


def _cls(tree, name):
    for n in tree.body:
        if isinstance(n, ast.ClassDef) and n.name == name: return n
    raise GenError('class %s not found' % name)

def _method(cls, name):
    for n in cls.body:
        if isinstance(n, ast.FunctionDef) and n.name == name: return n
    raise GenError('method %s not found' % name)

def _args(fn, want):
    if [a.arg for a in fn.args.args] != want or fn.args.vararg or fn.args.kwarg or fn.args.kwonlyargs:
        raise GenError('%s: parameter list changed' % fn.name)

def emit(tr, coqname, params, world, rtype, body, pure=False):
    T = COQ_TY[rtype]
    ps = ' '.join('(%s : %s)' % p for p in params)
    aux = ''.join(tr.aux); del tr.aux[:]
    if pure:
        # a property: no state is changed, the result is the outcome
        return aux + "Definition %s %s : res (%s) :=\n  let '(w, o__) := (%s) in call_res %s o__.\n" % (coqname, ps, T, body, DEFAULT[rtype])
    st = ' * '.join({'w': 'wrapper I', 's': 'Src'}[x] for x in world)
    return aux + "Definition %s %s : %s * res (%s) :=\n  let '(%s, o__) := (%s) in (%s, call_res %s o__).\n" % (
        coqname, ps, st, T, ', '.join(world), body, ', '.join(world), DEFAULT[rtype])

def generate():
    failclosed.check_all(FAILCLOSED['generate'])
    tree = repo_ast(SRC)
    W = _cls(tree, 'InspectWrapper')
    known = {'__init__', '__iter__', '_process_chunk', '__next__', 'read', '_finish', 'close', 'formats', 'format'}
    for n in W.body:
        if isinstance(n, ast.FunctionDef) and n.name not in known: raise GenError('InspectWrapper has a method the translation does not know: %s' % n.name)
    it = _method(W, '__iter__'); _args(it, ['self'])
    if [ast.unparse(x) for x in body_of(it)] != ['return self']: raise GenError('__iter__ is not `return self`')
    out = [HEADER % (SRC, 'tools/gen/gen_C06_code.py (statement-level translation)')]
    out.append('Require Import OV.Base.Bytes OV.Base.Py OV.Model.Wrap OV.Model.C06_CodeLib.\nOpen Scope N_scope.\n')
    out.append('Section C06Code.\nVariable I : Type.\nVariable eat : I -> bytes -> I * option exn.\nVariable finish : I -> I.\n'
               'Variable complete : I -> bool.\nVariable fmatch : I -> bool.\n'
               '(* the source object: read(size), next(), hasattr(.., "close"), close() *)\nVariable Src : Type.\n'
               'Variable src_read : Src -> Z -> Src * res bytes.\nVariable src_next : Src -> Src * res bytes.\n'
               'Variable src_has_close : Src -> bool.\nVariable src_close : Src -> Src.\n'
               '(* open(filename, "rb") on a file with the given content; ALL_FORMATS.items() with v() instantiated *)\n'
               'Variable src_open : bytes -> Src.\nVariable factory : list (str * I).\n')
    aux = []
    def tr(name, world, rtype, types, **kw): return Tr(name, world, rtype, types, aux=aux, **kw)
    # ---- _process_chunk
    f = _method(W, '_process_chunk'); _args(f, ['self', 'chunk'])
    t = tr('process_chunk', ['w'], 'unit', {'chunk': 'bytes'})
    out.append(emit(t, 'gen_process_chunk', [('w', 'wrapper I'), ('v_chunk', 'bytes')], ['w'], 'unit', t.stmts(body_of(f))))
    # ---- _finish
    f = _method(W, '_finish'); _args(f, ['self'])
    t = tr('finish', ['w'], 'unit', {})
    out.append(emit(t, 'gen_finish', [('w', 'wrapper I')], ['w'], 'unit', t.stmts(body_of(f))))
    # ---- formats / format
    for nm in ('formats', 'format'):
        f = _method(W, nm); _args(f, ['self'])
        t = tr(nm, ['w'], PROPS[nm], {})
        out.append(emit(t, 'gen_' + nm, [('w', 'wrapper I')], ['w'], PROPS[nm], t.stmts(body_of(f)), pure=True))
    # ---- read / __next__ / close
    f = _method(W, 'read'); _args(f, ['self', 'size'])
    t = tr('read', ['w', 's'], 'bytes', {'size': 'Z'})
    out.append(emit(t, 'gen_read', [('w', 'wrapper I'), ('s', 'Src'), ('v_size', 'Z')], ['w', 's'], 'bytes', t.stmts(body_of(f))))
    f = _method(W, '__next__'); _args(f, ['self'])
    t = tr('next', ['w', 's'], 'bytes', {})
    out.append(emit(t, 'gen_next', [('w', 'wrapper I'), ('s', 'Src')], ['w', 's'], 'bytes', t.stmts(body_of(f))))
    f = _method(W, 'close'); _args(f, ['self'])
    t = tr('close', ['w', 's'], 'unit', {})
    out.append(emit(t, 'gen_close', [('w', 'wrapper I'), ('s', 'Src')], ['w', 's'], 'unit', t.stmts(body_of(f))))
    # ---- __init__: five straight-line field assignments
    f = _method(W, '__init__'); _args(f, ['self', 'source', 'expected_format', 'allowed_formats'])
    out.append(gen_init(f))
    # ---- detect_file_format (with _chunked_reader inlined)
    f = find_def(tree, 'detect_file_format'); _args(f, ['filename'])
    g = find_def(tree, '_chunked_reader'); _args(g, ['fileobj', 'chunk_size'])
    out.append(gen_detect(f, g, aux))
    out.append('End C06Code.\n')
    return '\n'.join(out)

def gen_init(f):
    fields = {}
    t = Tr('init', [], 'unit', {'source': 'src', 'expected_format': 'optstr', 'allowed_formats': 'allowed'})
    for s in body_of(f):
        if not (isinstance(s, ast.Assign) and len(s.targets) == 1 and isinstance(s.targets[0], ast.Attribute)
                and isinstance(s.targets[0].value, ast.Name) and s.targets[0].value.id == 'self'):
            raise U('__init__: not a field assignment', s)
        a = s.targets[0].attr
        if a in fields: raise U('__init__: field assigned twice', s)
        v = s.value
        if a == '_source' or a == '_expected_format':
            x, ty = t.ex(v)
            if ty != {'_source': 'src', '_expected_format': 'optstr'}[a]: raise U('__init__', s)
            fields[a] = x
        elif a == '_finished':
            x, ty = t.ex(v)
            if ty != 'bool': raise U('__init__', s)
            fields[a] = x
        elif a == '_errored_inspectors':
            if ast.unparse(v) != 'set()': raise U('__init__: errored set is not empty', s)
            fields[a] = 'empty'
        elif a == '_inspectors':
            # {v() for k, v in ALL_FORMATS.items() if <cond on k>}: a fresh instance of every class passing the filter
            ok = (isinstance(v, ast.SetComp) and len(v.generators) == 1 and isinstance(v.generators[0].target, ast.Tuple)
                  and len(v.generators[0].target.elts) == 2 and all(isinstance(x, ast.Name) for x in v.generators[0].target.elts)
                  and ast.unparse(v.generators[0].iter) == 'ALL_FORMATS.items()' and not v.generators[0].is_async)
            if not ok: raise U('__init__: inspector set', s)
            k, c = [x.id for x in v.generators[0].target.elts]
            if not (isinstance(v.elt, ast.Call) and isinstance(v.elt.func, ast.Name) and v.elt.func.id == c and not v.elt.args and not v.elt.keywords):
                raise U('__init__: element is not v()', s)
            if '_errored_inspectors' not in fields: raise U('__init__: inspectors created before the errored set', s)
            sub = Tr('init', [], 'unit', dict(t.types, **{k: 'str'}))
            src = 'factory'
            for cnd in v.generators[0].ifs:
                src = "(filter (fun '(%s, %s) => %s) %s)" % (sub.v(k), sub.v(c), sub.truth(cnd), src)
            fields[a] = "(map (fun '(%s, %s) => new_slot I %s %s) %s)" % (sub.v(k), sub.v(c), sub.v(k), sub.v(c), src)
        else:
            raise U('__init__: unknown field', s)
    if set(fields) != {'_source', '_expected_format', '_errored_inspectors', '_inspectors', '_finished'}: raise GenError('__init__: fields')
    return ('Definition gen_init (v_source : Src) (v_expected_format : option str) (v_allowed_formats : option (list str)) : wrapper I * Src :=\n'
            '  ({| w_slots := %s; w_expected := %s; w_finished := %s |}, %s).\n' % (fields['_inspectors'], fields['_expected_format'], fields['_finished'], fields['_source']))

def gen_detect(f, g, aux):
    b = body_of(f)
    if not (len(b) == 1 and isinstance(b[0], ast.With) and len(b[0].items) == 1): raise U('detect_file_format: with', f)
    item = b[0].items[0]
    if ast.unparse(item.context_expr) != "open(filename, 'rb')" or not isinstance(item.optional_vars, ast.Name): raise U('detect_file_format: open', f)
    fvar = item.optional_vars.id
    wb = b[0].body
    if not (wb and isinstance(wb[0], ast.Assign) and len(wb[0].targets) == 1 and isinstance(wb[0].targets[0], ast.Name)
            and ast.unparse(wb[0].value) == 'InspectWrapper(%s)' % fvar):
        raise U('detect_file_format: wrapper construction', f)
    wvar = wb[0].targets[0].id
    for n in ast.walk(ast.Module(body=wb[1:], type_ignores=[])):
        if isinstance(n, ast.Name) and n.id == fvar: raise U('detect_file_format: the file object is used directly', f)
        if isinstance(n, ast.Assign) and any(isinstance(x, ast.Name) and x.id == wvar for x in n.targets): raise U('detect_file_format: wrapper re-bound', f)
    t = Tr('detect', ['w', 's'], 'optslot', {}, selfnames=(wvar,), aux=aux, gens={g.name: g})
    # wrapper.read / wrapper.close / wrapper.format are the translated methods; fileobj.read after inlining is wrapper.read
    body = t.stmts(wb[1:])
    a = ''.join(aux); del aux[:]
    fuel = '(fuel__ : nat) ' if t.uses_fuel else ''
    return (a + "Definition gen_detect_file_format %s(v_data : bytes) : wrapper I * Src * res (option (slot I)) :=\n"
            "  let s := src_open v_data in\n  let '(w, s) := gen_init s None None in\n  let '(w, s, o__) := (%s) in\n"
            "  let s := src_close s in      (* the with statement closes the file *)\n  (w, s, call_res None o__).\n" % (fuel, body))

if __name__ == '__main__':
    import sys
    sys.stdout.write(generate())
