"""Gen/C02_Checks.v from oslo_utils/imageutils/format_inspector.py — statement-level translations of the
safety-check functions (py2gal.Translator extended here, py2gal.py itself untouched):

  QcowInspector.check_backing_file / check_data_file / check_unknown_features
  GPTInspector.check_mbr_partitions
  LUKSInspector.check_version (with the struct format / slice / field names of header_items)
  VMDKInspector._parse_sparse_header / check_footer / check_descriptor
  SafetyCheck.__call__, FileInspector.safety_check

Each becomes a Gallina function in the `res` monad over Z / bytes (coq/Base/C02_Py.v); the lemmas
`*_equiv` of coq/Proofs/C02_Equiv.v prove them equal to the hand-written model (coq/Model/Insp_*.v), so a
flipped mask, a wrong bit index, a dropped boot-flag test or a reordered check breaks a proof obligation.

Constructs added to py2gal's subset: `~`, bytes indexing (IndexError), struct.unpack with tuple targets
(layout computed from the format string), `for .. in range(n)`, `for i, x in enumerate(reversed(range(n)))`,
`for x in <list of str>` with `continue` and `raise` in the body, list.append, truthiness of int / str /
list / optional str, `x [not] in (literals)`, tuple and list comparisons, dict.get(..) == int, str.startswith /
strip / split / split(c)[0], list comprehension `[x.strip() for x in ..]`, bytes * int, LOG.* calls (their
arguments are evaluated: indexing in them can raise), try/except with re-raise.
Fail closed: anything else raises GenError (-> committed baseline copy)."""
import ast, re, struct
from common import *
import py2gal
from py2gal import Unsupported
import failclosed

SRC = 'oslo_utils/imageutils/format_inspector.py'
MOD = 'oslo_utils.imageutils.format_inspector'
_A = failclosed.ANY
FAILCLOSED = {'generate': [{'src': SRC, 'mod': MOD,
                            'functions': {'QcowInspector.check_backing_file': {'defaults': {}}, 'QcowInspector.check_data_file': {'defaults': {}},
                                          'QcowInspector.check_unknown_features': {'defaults': {}}, 'GPTInspector.check_mbr_partitions': {'defaults': {}},
                                          'LUKSInspector.check_version': {'defaults': {}}, 'LUKSInspector.header_items': {'decorators': ('property',), 'defaults': {}},
                                          'VMDKInspector._parse_sparse_header': {'defaults': {'offset': '0'}}, 'VMDKInspector.check_footer': {'defaults': {}},
                                          'VMDKInspector.check_descriptor': {'defaults': {}}, 'SafetyCheck.__call__': {'defaults': {}},
                                          'FileInspector.safety_check': {'defaults': {}}},
                            'imports': {'struct': 'struct'}}]}

COQ_TY = dict(py2gal.COQ_TY, strlist='list bytes', intlist='list Z', optstr='option bytes', resunit='res unit', checks='list (bytes * res unit)')

def parse_struct(fmt):
    """-> (big, size, [(offset, length, kind)])  kind: 'u' unsigned, 's' signed, 'b' bytes"""
    if fmt[0] not in '<>': raise GenError('struct format %r: byte order' % fmt)
    fields = []; off = 0
    body = fmt[1:]
    if ''.join(m.group(0) for m in re.finditer(r'(\d*)([a-zA-Z])', body)) != body: raise GenError('struct format %r' % fmt)
    for m in re.finditer(r'(\d*)([a-zA-Z])', body):
        cnt = int(m.group(1)) if m.group(1) else 1
        code = m.group(2)
        if code == 's':
            fields.append((off, cnt, 'b')); off += cnt
        else:
            sz = {'B': 1, 'b': 1, 'H': 2, 'h': 2, 'I': 4, 'i': 4, 'L': 4, 'l': 4, 'Q': 8, 'q': 8}.get(code)
            if sz is None: raise GenError('struct format %r: code %s' % (fmt, code))
            for _ in range(cnt):
                fields.append((off, sz, 's' if code.islower() else 'u')); off += sz
    if off != struct.calcsize(fmt): raise GenError('struct format %r: size' % fmt)
    return fmt[0] == '>', off, fields


class T02(py2gal.Translator):
    def __init__(self, params, consts, hints=None, region_data=None, sfmts=None, name='f'):
        super().__init__(params, None, None, consts, hints=hints)
        self.name = name
        self.region_data = region_data or {}      # region name -> coq parameter holding self.region(name).data
        self.sfmts = sfmts if sfmts is not None else {}   # format string -> coq name (shared by the whole file)
        self.tmp = 0
        self.loops = []
        self.exn_names = {'SafetyViolation', 'ImageFormatError', 'RuntimeError', 'SafetyCheckFailed'}
        self.cont = None          # text of `continue` inside a loop body
        self.narrow = {}          # source text of an optional str known to be a non-empty str -> coq name

    # ------------------------------------------------------------ names
    def fresh(self, base):
        self.tmp += 1
        return '%s__%d' % (base, self.tmp)

    def sfmt(self, fmt):
        if fmt not in self.sfmts:
            big, size, fields = parse_struct(fmt)
            self.sfmts[fmt] = ('C02sf_%d' % len(self.sfmts), big, size, fields)
        return self.sfmts[fmt]

    # ------------------------------------------------------------ pure expressions
    def expr(self, e):
        t = self.src(e)
        if t in self.narrow: return self.narrow[t], 'bytes'
        if t in self.consts: return self.consts[t]
        # self.region('x').data
        m = re.fullmatch(r"self\.region\('(\w+)'\)\.data", t)
        if m:
            if m.group(1) not in self.region_data: raise Unsupported('region ' + m.group(1))
            return self.region_data[m.group(1)], 'bytes'
        if isinstance(e, ast.Constant) and isinstance(e.value, int) and not isinstance(e.value, bool):
            return '(%d)' % e.value, 'int'
        if isinstance(e, ast.UnaryOp) and isinstance(e.op, ast.Invert):
            a, ta = self.expr(e.operand)
            if ta != 'int': raise Unsupported('~ on ' + ta)
            return '(Z.lnot %s)' % a, 'int'
        if isinstance(e, ast.UnaryOp) and isinstance(e.op, ast.Not):
            return '(negb %s)' % self.truth(e.operand), 'bool'
        if isinstance(e, ast.BoolOp):
            parts = [self.truth(v) for v in e.values]
            return '(' + (' && ' if isinstance(e.op, ast.And) else ' || ').join(parts) + ')', 'bool'
        if isinstance(e, ast.Tuple) and e.elts and all(isinstance(x, ast.Constant) and isinstance(x.value, str) for x in e.elts):
            return '[%s]' % '; '.join('(%s%%N : bytes)' % lit(x.value) for x in e.elts), 'strlist'
        if isinstance(e, ast.BinOp) and isinstance(e.op, ast.Mult):
            a, ta = self.expr(e.left); b, tb = self.expr(e.right)
            if ta == 'bytes' and tb == 'int': return '(brepeat %s %s)' % (a, b), 'bytes'
        if isinstance(e, ast.BinOp) and isinstance(e.op, ast.Mod) and isinstance(e.left, ast.Constant) and isinstance(e.left.value, str):
            raise Unsupported('string formatting outside a raise / log call')
        if isinstance(e, ast.ListComp):
            # [x.strip() for x in E]
            if len(e.generators) == 1 and not e.generators[0].ifs and isinstance(e.generators[0].target, ast.Name) \
                    and self.src(e.elt) == e.generators[0].target.id + '.strip()':
                a, ta = self.expr(e.generators[0].iter)
                if ta != 'strlist': raise Unsupported('comprehension over ' + ta)
                return '(map strip %s)' % a, 'strlist'
            raise Unsupported('list comprehension ' + t)
        if isinstance(e, ast.Subscript) and not isinstance(e.slice, ast.Slice):
            # s.split(c)[0]
            v = e.value
            if isinstance(e.slice, ast.Constant) and e.slice.value == 0 and isinstance(v, ast.Call) and isinstance(v.func, ast.Attribute) \
                    and v.func.attr == 'split' and len(v.args) == 1 and self._char(v.args[0]) is not None and not v.keywords:
                a, ta = self.expr(v.func.value)
                if ta != 'bytes': raise Unsupported('split of ' + ta)
                return '(first_field %d%%N %s)' % (self._char(v.args[0]), a), 'bytes'
            raise Unsupported('indexing in a pure position: ' + t)
        if isinstance(e, ast.Call):
            fn = self.src(e.func)
            if fn == 'bool' and len(e.args) == 1 and not e.keywords:
                return self.truth(e.args[0]), 'bool'
            if isinstance(e.func, ast.Attribute) and not e.keywords:
                meth = e.func.attr
                if meth == 'startswith' and len(e.args) == 1 and isinstance(e.args[0], ast.Constant) and isinstance(e.args[0].value, str):
                    a, ta = self.expr(e.func.value)
                    if ta != 'bytes': raise Unsupported('startswith on ' + ta)
                    return '(prefixb (%s%%N : bytes) %s)' % (lit(e.args[0].value), a), 'bool'
                if meth == 'strip' and not e.args:
                    a, ta = self.expr(e.func.value)
                    if ta != 'bytes': raise Unsupported('strip on ' + ta)
                    return '(strip %s)' % a, 'bytes'
                if meth == 'split' and len(e.args) == 1 and self._char(e.args[0]) is not None:
                    a, ta = self.expr(e.func.value)
                    if ta != 'bytes': raise Unsupported('split on ' + ta)
                    return '(split_char %d%%N %s)' % (self._char(e.args[0]), a), 'strlist'
        if isinstance(e, ast.Compare) and len(e.ops) == 1:
            op, l, r = e.ops[0], e.left, e.comparators[0]
            neg = isinstance(op, (ast.NotIn, ast.NotEq))
            wrap = (lambda x: '(negb %s)' % x) if neg else (lambda x: x)
            if isinstance(op, (ast.In, ast.NotIn)):
                if isinstance(r, ast.Tuple) and r.elts and all(isinstance(x, ast.Constant) and type(x.value) is int for x in r.elts):
                    a, ta = self.expr(l)
                    if ta != 'int': raise Unsupported('in (ints) on ' + ta)
                    return wrap('(' + ' || '.join('(%s =? %d)' % (a, x.value) for x in r.elts) + ')'), 'bool'
                if self._char(l) is not None:
                    b, tb = self.expr(r)
                    if tb != 'bytes': raise Unsupported('char in ' + tb)
                    return wrap('(memN %d%%N %s)' % (self._char(l), b)), 'bool'
                a, ta = self.expr(l); b, tb = self.expr(r)
                if ta == 'bytes' and tb == 'strlist': return wrap('(mem_str %s %s)' % (a, b)), 'bool'
                raise Unsupported('in on %s, %s' % (ta, tb))
            if isinstance(op, (ast.Eq, ast.NotEq)):
                if isinstance(l, ast.Tuple) and isinstance(r, ast.Tuple) and len(l.elts) == len(r.elts):
                    parts = []
                    for x, y in zip(l.elts, r.elts):
                        a, ta = self.expr(x); b, tb = self.expr(y)
                        if ta != 'int' or tb != 'int': raise Unsupported('tuple comparison of non-ints')
                        parts.append('(%s =? %s)' % (a, b))
                    return wrap('(' + ' && '.join(parts) + ')'), 'bool'
                a, ta = self.expr(l)
                if ta == 'intlist' and isinstance(r, ast.List) and all(isinstance(x, ast.Constant) and type(x.value) is int for x in r.elts):
                    return wrap('(zlist_eqb %s [%s])' % (a, '; '.join('(%d)' % x.value for x in r.elts))), 'bool'
                if ta == 'optint':
                    b, tb = self.expr(r)
                    if tb != 'int': raise Unsupported('optional int compared with ' + tb)
                    return wrap('(opt_eqb %s %s)' % (a, b)), 'bool'
        return super().expr(e)

    def _char(self, e):
        if isinstance(e, ast.Constant) and isinstance(e.value, str) and len(e.value) == 1: return ord(e.value)
        return None

    def truth(self, e):
        """the truth value Python's `if` / `not` / `and` / `or` / bool() see"""
        a, ta = self.expr(e)
        if ta == 'bool': return a
        if ta == 'int': return '(negb (%s =? 0))' % a
        if ta in ('bytes', 'strlist', 'intlist'): return '(negb (is_nil %s))' % a
        if ta == 'optstr': return '(match %s with Some (_ :: _) => true | _ => false end)' % a
        raise Unsupported('truth value of ' + ta)

    # ------------------------------------------------------------ raising sub-expressions: lifted into binds
    def lift(self, e):
        """replace every bytes-indexing sub-expression by a fresh int name; returns (binds, e')"""
        binds = []
        tr = self
        class L(ast.NodeTransformer):
            def visit_BoolOp(s, n):
                for v in n.values:
                    for x in ast.walk(v):
                        if tr._is_index(x): raise Unsupported('indexing under and/or')
                return n
            def visit_IfExp(s, n):
                for x in ast.walk(n):
                    if tr._is_index(x): raise Unsupported('indexing under a conditional expression')
                return n
            def visit_Subscript(s, n):
                n = s.generic_visit(n)
                if tr._is_index(n):
                    a, ta = tr.expr(n.value); i, ti = tr.expr(n.slice)
                    if ti != 'int': raise Unsupported('index type ' + ti)
                    nm = tr.fresh('ix')
                    binds.append((nm, '(bidxZ %s %s)' % (a, i)))
                    tr.types[nm] = 'int'
                    return ast.copy_location(ast.Name(id=nm, ctx=ast.Load()), n)
                return n
        e2 = L().visit(ast.parse(self.src(e), mode='eval').body)
        return binds, e2

    def _is_index(self, n):
        if not (isinstance(n, ast.Subscript) and not isinstance(n.slice, ast.Slice)): return False
        if self.src(n) in self.consts: return False
        try:
            a, ta = self.expr(n.value)
        except Unsupported:
            return False
        return ta == 'bytes'

    @staticmethod
    def wrap(binds, body):
        for nm, call in reversed(binds):
            body = 'match %s with Exn e__ => Exn e__ | Ok %s =>\n%s end' % (call, nm, body)
        return body

    # ------------------------------------------------------------ statements (continuation passing; every function is in `res`)
    def stmts(self, ss, k):
        """ss: statement list; k(): text for falling off the end"""
        if not ss: return k()
        s, rest = ss[0], ss[1:]
        nxt = lambda: self.stmts(rest, k)
        if isinstance(s, ast.Expr) and isinstance(s.value, ast.Constant) and isinstance(s.value.value, str): return nxt()
        if isinstance(s, ast.Pass): return nxt()
        if isinstance(s, ast.Return):
            if s.value is not None and not (isinstance(s.value, ast.Constant) and s.value.value is None):
                return self.ret_value(s.value)
            return 'Ok tt'
        if isinstance(s, ast.Continue):
            if self.cont is None: raise Unsupported('continue outside a loop')
            return self.cont()
        if isinstance(s, ast.Raise):
            return self.raise_(s)
        if isinstance(s, ast.Expr) and isinstance(s.value, ast.Call):
            c = s.value; fn = self.src(c.func)
            if re.fullmatch(r'LOG\.(debug|info|warning|error|critical|exception)', fn):
                # the arguments ARE evaluated: indexing in them can raise
                binds = []
                for a in c.args:
                    b, _ = self.lift(a); binds += b
                return self.wrap(binds, nxt())
            if isinstance(c.func, ast.Attribute) and c.func.attr == 'append' and isinstance(c.func.value, ast.Name) and len(c.args) == 1 and not c.keywords:
                lst = c.func.value.id; ty = self.types.get(lst)
                v, tv = self.expr(c.args[0])
                if (ty, tv) not in (('strlist', 'bytes'), ('intlist', 'int')): raise Unsupported('append %s to %s' % (tv, ty))
                return 'let %s := (%s ++ [%s]) in\n%s' % (lst, lst, v, nxt())
            raise Unsupported('call statement ' + fn)
        if isinstance(s, ast.Assign) and len(s.targets) == 1:
            return self.assign(s.targets[0], s.value, nxt)
        if isinstance(s, ast.If):
            return self.if_(s, rest, k)
        if isinstance(s, ast.For):
            return self.for_(s, nxt)
        if isinstance(s, ast.Try):
            return self.try_(s, nxt)
        raise Unsupported(ast.dump(s)[:120])

    def ret_value(self, v):
        raise Unsupported('return of a value: ' + self.src(v))

    def raise_(self, s):
        if s.exc is None: raise Unsupported('bare raise outside an except clause')
        exc = s.exc
        name = exc.func.id if isinstance(exc, ast.Call) and isinstance(exc.func, ast.Name) else (exc.id if isinstance(exc, ast.Name) else None)
        if name not in self.exn_names: raise Unsupported('raise of ' + self.src(s))
        # the message may format values (`'...%i' % i`): evaluating it cannot raise for the argument types we admit
        if isinstance(exc, ast.Call):
            for a in exc.args:
                for n in ast.walk(a):
                    if isinstance(n, ast.Subscript) or (isinstance(n, ast.Call) and self.src(n.func) not in ('_',)):
                        raise Unsupported('computation in a raise argument: ' + self.src(a))
        return 'Exn %s' % name

    def assign(self, tgt, value, nxt):
        # name = []   (declared list type)
        if isinstance(tgt, ast.Name) and isinstance(value, ast.List) and not value.elts:
            ty = self.hints.get(tgt.id)
            if ty not in ('strlist', 'intlist'): raise Unsupported('empty list %s without a declared type' % tgt.id)
            self.types[tgt.id] = ty
            return 'let %s := (@nil %s) in\n%s' % (tgt.id, 'bytes' if ty == 'strlist' else 'Z', nxt())
        v = value
        # struct.unpack(FMT, E) with a tuple target
        if isinstance(v, ast.Call) and self.src(v.func) == 'struct.unpack' and isinstance(tgt, ast.Tuple):
            if len(v.args) != 2 or v.keywords or not (isinstance(v.args[0], ast.Constant) and isinstance(v.args[0].value, str)):
                raise Unsupported('struct.unpack form')
            nm, big, size, fields = self.sfmt(v.args[0].value)
            if len(tgt.elts) != len(fields): raise Unsupported('unpack target count')
            binds, e2 = self.lift(v.args[1])
            a, ta = self.expr(e2)
            if ta != 'bytes': raise Unsupported('unpack of ' + ta)
            u = self.fresh('u')
            lets = ''
            for i, (t, (off, ln, kind)) in enumerate(zip(tgt.elts, fields)):
                if not isinstance(t, ast.Name): raise Unsupported('unpack target')
                ty = 'bytes' if kind == 'b' else 'int'
                if self.types.get(t.id, ty) != ty: raise Unsupported('local %s retyped' % t.id)
                self.types[t.id] = ty
                acc = {'b': 'bfield', 'u': 'ufield', 's': 'sfield'}[kind]
                lets += 'let %s := %s %s %d %s in\n' % (t.id, acc, nm, i, u)
            return self.wrap(binds, 'match unpackZ %s %s with Exn e__ => Exn e__ | Ok %s =>\n%s%s end' % (nm, a, u, lets, nxt()))
        # tuple target from a translated helper returning a tuple
        if isinstance(v, ast.Call) and self.src(v.func) in self.funcs and isinstance(tgt, ast.Tuple):
            f = self.funcs[self.src(v.func)]
            args = self.helper_args(f, v)
            if len(tgt.elts) != len(f.ret): raise Unsupported('helper result count')
            names = []
            for t, ty in zip(tgt.elts, f.ret):
                if not isinstance(t, ast.Name): raise Unsupported('tuple target')
                if self.types.get(t.id, ty) != ty: raise Unsupported('local %s retyped' % t.id)
                self.types[t.id] = ty; names.append(t.id)
            return 'match %s%s with Exn e__ => Exn e__ | Ok (%s) =>\n%s end' % (f.coq, ''.join(' ' + a for a in args), ', '.join(names), nxt())
        if not isinstance(tgt, ast.Name): raise Unsupported('assignment target ' + self.src(tgt))
        binds, e2 = self.lift(v)
        a, ta = self.expr(e2)
        if self.types.get(tgt.id, ta) != ta: raise Unsupported('local %s retyped %s -> %s' % (tgt.id, self.types[tgt.id], ta))
        self.types[tgt.id] = ta
        return self.wrap(binds, 'let %s := %s in\n%s' % (tgt.id, a, nxt()))

    def helper_args(self, f, call):
        raise Unsupported('helper call')

    def if_(self, s, rest, k):
        # `if not self.desc_text: raise ...` narrows an optional str to a non-empty str afterwards
        t = s.test
        if isinstance(t, ast.UnaryOp) and isinstance(t.op, ast.Not) and not s.orelse:
            try: a, ta = self.expr(t.operand)
            except Unsupported: ta = None
            if ta == 'optstr' and len(s.body) == 1 and isinstance(s.body[0], ast.Raise):
                body = self.stmts(s.body, k)
                nm = self.fresh('text')
                saved = dict(self.narrow)
                self.narrow[self.src(t.operand)] = nm
                after = self.stmts(rest, k)
                self.narrow = saved
                return 'match %s with\n| None => %s\n| Some [] => %s\n| Some %s =>\n%s end' % (a, body, body, nm, after)
        binds, t2 = self.lift(t)
        c = self.truth(t2)
        saved = dict(self.types)
        a = self.stmts(s.body + rest, k)
        self.types = dict(saved)
        b = self.stmts(s.orelse + rest, k)
        self.types = dict(saved)
        return self.wrap(binds, 'if %s then (\n%s) else (\n%s)' % (c, a, b))

    def assigned_in(self, body):
        out = []
        for n in ast.walk(ast.Module(body=body, type_ignores=[])):
            nm = None
            if isinstance(n, ast.Assign):
                for t in n.targets:
                    for x in ([t] if isinstance(t, ast.Name) else (t.elts if isinstance(t, ast.Tuple) else [])):
                        if isinstance(x, ast.Name) and x.id not in out: out.append(x.id)
            elif isinstance(n, ast.AugAssign) and isinstance(n.target, ast.Name): nm = n.target.id
            elif isinstance(n, ast.Expr) and isinstance(n.value, ast.Call) and isinstance(n.value.func, ast.Attribute) \
                    and n.value.func.attr == 'append' and isinstance(n.value.func.value, ast.Name): nm = n.value.func.value.id
            if nm and nm not in out: out.append(nm)
        return out

    def for_(self, s, nxt):
        if s.orelse: raise Unsupported('for-else')
        for n in ast.walk(ast.Module(body=s.body, type_ignores=[])):
            if isinstance(n, (ast.Break, ast.Return)): raise Unsupported('break/return inside for')
        it = self.src(s.iter)
        # loop-carried variables: assigned in the body AND bound before the loop
        vars_ = [(n, self.types[n]) for n in self.assigned_in(s.body) if n in self.types]
        # parameters in a canonical (alphabetical) order: reordering independent statements of the source does not change the text
        vars_ = sorted(vars_)
        params = sorted((n, t) for n, t in self.types.items())
        free = [(n, t) for n, t in params if n not in dict(vars_)]
        allp = free + vars_
        lname = '%s_loop%d' % (self.name, len(self.loops) + 1)
        self.loops.append(None); slot = len(self.loops) - 1
        tup = 'tt' if not vars_ else (vars_[0][0] if len(vars_) == 1 else '(' + ', '.join(n for n, _ in vars_) + ')')
        tupty = 'unit' if not vars_ else ' * '.join(COQ_TY[t] for _, t in vars_)
        saved_types = dict(self.types); saved_cont = self.cont
        m_rng = re.fullmatch(r'range\((.+)\)', it)
        m_enum = re.fullmatch(r'enumerate\(reversed\(range\((.+)\)\)\)', it)
        if m_enum or m_rng:
            n_src = (m_enum or m_rng).group(1)
            n_txt, n_ty = self.expr(ast.parse(n_src, mode='eval').body)
            if n_ty != 'int': raise Unsupported('range of ' + n_ty)
            if m_enum:
                if not (isinstance(s.target, ast.Tuple) and len(s.target.elts) == 2 and all(isinstance(x, ast.Name) for x in s.target.elts)):
                    raise Unsupported('enumerate target')
                ivar, xvar = s.target.elts[0].id, s.target.elts[1].id
            else:
                if not isinstance(s.target, ast.Name): raise Unsupported('range target')
                ivar, xvar = s.target.id, None
            for v in (ivar, xvar):
                if v and v in self.types: raise Unsupported('loop variable %s shadows a local' % v)
            self.types[ivar] = 'int'
            if xvar: self.types[xvar] = 'int'
            call = lambda: '%s k__ (%s + 1) n__%s' % (lname, ivar, ''.join(' ' + n for n, _ in allp))
            self.cont = call
            body = self.stmts(s.body, call)
            pre = 'let %s := n__ - 1 - %s in\n' % (xvar, ivar) if xvar else ''
            self.loops[slot] = ('Fixpoint %s (fuel__ : nat) (%s : Z) (n__ : Z)%s {struct fuel__} : res (%s) :=\n  match fuel__ with O => Ok %s | S k__ =>\n%s%s end.\n'
                                % (lname, ivar, ''.join(' (%s : %s)' % (n, COQ_TY[t]) for n, t in allp), tupty, tup, pre, body))
            start = '%s (Z.to_nat %s) 0 %s%s' % (lname, n_txt, n_txt, ''.join(' ' + n for n, _ in allp))
        else:
            a, ta = self.expr(s.iter)
            if ta != 'strlist' or not isinstance(s.target, ast.Name): raise Unsupported('for over ' + ta)
            xvar = s.target.id
            if xvar in self.types: raise Unsupported('loop variable %s shadows a local' % xvar)
            self.types[xvar] = 'bytes'
            call = lambda: '%s l__%s' % (lname, ''.join(' ' + n for n, _ in allp))
            self.cont = call
            body = self.stmts(s.body, call)
            self.loops[slot] = ('Fixpoint %s (items__ : list bytes)%s {struct items__} : res (%s) :=\n  match items__ with [] => Ok %s | %s :: l__ =>\n%s end.\n'
                                % (lname, ''.join(' (%s : %s)' % (n, COQ_TY[t]) for n, t in allp), tupty, tup, xvar, body))
            start = '%s %s%s' % (lname, a, ''.join(' ' + n for n, _ in allp))
        self.types = saved_types; self.cont = saved_cont
        return 'match %s with Exn e__ => Exn e__ | Ok %s =>\n%s end' % (start, tup if vars_ else '_', nxt())

    def try_(self, s, nxt):
        raise Unsupported('try')


def emit_fn(tr, name, params, body, rty='res unit'):
    return ''.join(tr.loops) + 'Definition %s%s : %s :=\n%s.\n' % (name, ''.join(' (%s : %s)' % (p, COQ_TY[t]) for p, t in params), rty, body)


def _cls(tree, name):
    for n in tree.body:
        if isinstance(n, ast.ClassDef) and n.name == name: return n
    raise GenError('class %s not found' % name)

def _fn(tree, cls, name):
    for f in _cls(tree, cls).body:
        if isinstance(f, ast.FunctionDef) and f.name == name: return f
    raise GenError('%s.%s not found' % (cls, name))

def zc(prefix, name):
    return ('(Z.of_N %s_%s)' % (prefix, name), 'int')

def check_sig(f, names, decorators=()):
    if [a.arg for a in f.args.args] != names or f.args.vararg or f.args.kwarg or f.args.kwonlyargs:
        raise GenError('signature of %s changed' % f.name)
    if tuple(ast.unparse(d) for d in f.decorator_list) != tuple(decorators): raise GenError('decorators of %s changed' % f.name)


# ---------------------------------------------------------------- SafetyCheck.__call__ / FileInspector.safety_check
class TSafety(T02):
    """try/except with class matching and re-raise, `self.target_fn()` as a parameter outcome, iteration over the checks"""
    def __init__(self, *a, **kw):
        super().__init__(*a, **kw)
        self.calls = {}           # source text of a call statement/expression -> coq text of its outcome (res unit)
        self.exn_names |= {'Exception'}
        self.in_handler = None    # name of the exception variable of the enclosing except clause

    def raise_(self, s):
        if s.exc is None:
            if self.in_handler is None: raise Unsupported('bare raise')
            return 'Exn %s' % self.in_handler
        # raise SafetyCheckFailed(failures): the names of the failed checks are part of the outcome
        if isinstance(s.exc, ast.Call) and self.src(s.exc.func) == 'SafetyCheckFailed' and len(s.exc.args) == 1 and self.src(s.exc.args[0]) == 'failures':
            return 'FAILED(failures)'
        return super().raise_(s)

    def try_(self, s, nxt):
        if s.orelse or s.finalbody: raise Unsupported('try-else/finally')
        # the try body: statements whose only effects are raising; translated with `Ok tt` at its end
        saved = dict(self.types)
        body = self.stmts(s.body, lambda: 'Ok tt')
        self.types = saved
        ev = 'e__%d' % (self.tmp + 1); self.tmp += 1
        arms = []
        for h in s.handlers:
            if h.type is None: raise Unsupported('bare except')
            cls = self.src(h.type)
            if cls not in ('SafetyViolation', 'Exception'): raise Unsupported('except ' + cls)
            prev = self.in_handler; self.in_handler = ev
            if h.name: self.types[h.name] = 'exn'
            hb = self.stmts(h.body, nxt)
            if h.name: self.types.pop(h.name, None)
            self.in_handler = prev
            arms.append((cls, hb))
        # first matching clause wins; every modelled exception is an Exception
        txt = 'Exn %s' % ev
        for cls, hb in reversed(arms):
            if cls == 'Exception': txt = '(\n%s)' % hb
            else: txt = 'if (match %s with %s => true | _ => false end) then (\n%s) else %s' % (ev, cls, hb, txt)
        return 'match (%s) with\n| Ok _ =>\n%s\n| Exn %s => %s end' % (body, nxt(), ev, txt)


def gen_safety(tree, sfmts):
    out = []
    # SafetyCheck.__call__(self): outcome of self.target_fn() -> outcome of the check
    f = _fn(tree, 'SafetyCheck', '__call__'); check_sig(f, ['self'])
    tr = TSafety([('target', 'resunit')], {}, name='gen_check_call', sfmts=sfmts)
    def stm(ss, k, tr=tr, base=TSafety.stmts):
        if ss and isinstance(ss[0], ast.Expr) and tr.src(ss[0]) == 'self.target_fn()':
            return 'match target with Exn e__ => Exn e__ | Ok _ =>\n%s end' % tr.stmts(ss[1:], k)
        if ss and isinstance(ss[0], ast.Expr) and isinstance(ss[0].value, ast.Call) and tr.src(ss[0].value.func).startswith('LOG.'):
            return tr.stmts(ss[1:], k)        # LOG.error('...', self.name, self, e): plain attribute reads
        return base(tr, ss, k)
    tr.stmts = stm
    body = tr.stmts(f.body, lambda: 'Ok tt')
    out.append(emit_fn(tr, 'gen_check_call', [('target', 'resunit')], body))

    # FileInspector.safety_check(self): complete, format_match (may raise), the registered checks in order
    f = _fn(tree, 'FileInspector', 'safety_check'); check_sig(f, ['self'])
    tr = TSafety([('complete', 'bool'), ('fmatch', 'bool'), ('checks', 'checks')], {'self.complete': ('complete', 'bool'), 'self.format_match': ('fmatch', 'bool')},
                 name='gen_safety_check', sfmts=sfmts)
    tr.types['failures'] = 'strlist'
    def stm2(ss, k, tr=tr, base=TSafety.stmts):
        if not ss: return k()
        s = ss[0]
        t = tr.src(s)
        if isinstance(s, ast.Assign) and t == 'failures = {}':
            return 'let failures := (@nil bytes) in\n%s' % tr.stmts(ss[1:], k)
        if isinstance(s, ast.For) and tr.src(s.iter) == 'self._safety_checks.values()' and isinstance(s.target, ast.Name) and not s.orelse:
            chk = s.target.id
            tr.types[chk + '_name'] = 'bytes'; tr.types[chk + '_out'] = 'resunit'
            saved = tr.cont
            call = lambda: 'gen_safety_check_loop l__ failures'
            tr.cont = call
            b = tr.stmts(s.body, call)
            tr.cont = saved
            tr.loops.append('Fixpoint gen_safety_check_loop (items__ : list (bytes * res unit)) (failures : list bytes) {struct items__} : res (list bytes) :=\n'
                            '  match items__ with [] => Ok failures | (%s_name, %s_out) :: l__ =>\n%s end.\n' % (chk, chk, b))
            del tr.types[chk + '_name'], tr.types[chk + '_out']
            return 'match gen_safety_check_loop checks failures with Exn e__ => Exn e__ | Ok failures =>\n%s end' % tr.stmts(ss[1:], k)
        # result = check()
        if isinstance(s, ast.Assign) and t == 'result = check()':
            tr.types['result'] = 'none'
            return 'match gen_check_call check_out with Exn e__ => Exn e__ | Ok result =>\n%s end' % tr.stmts(ss[1:], k)
        if isinstance(s, ast.If) and tr.src(s.test) == 'result is not None' and not s.orelse:
            # check() returns None (SafetyCheck.__call__ has no return statement): the branch is dead, but it is translated
            return 'if (match result with tt => false end) then (\n%s) else (\n%s)' % (tr.stmts(s.body + ss[1:], k), tr.stmts(ss[1:], k))
        if isinstance(s, ast.Assign) and t == 'exc.check = check': return tr.stmts(ss[1:], k)
        if isinstance(s, ast.Assign) and t == 'failures[check.name] = exc':
            return 'let failures := (failures ++ [check_name]) in\n%s' % tr.stmts(ss[1:], k)
        if isinstance(s, ast.Expr) and isinstance(s.value, ast.Call) and tr.src(s.value.func).startswith('LOG.'):
            return tr.stmts(ss[1:], k)
        return base(tr, ss, k)
    tr.stmts = stm2
    body = tr.stmts(f.body, lambda: 'Ok tt')
    body = body.replace('FAILED(failures)', 'Ok (Some failures)').replace('Ok tt', 'Ok None')
    loops = [l.replace('FAILED(failures)', 'Exn OtherError') for l in tr.loops]
    tr.loops = loops
    # outcome: Ok None = returned, Ok (Some names) = SafetyCheckFailed(names), Exn e = e escaped
    out.append(emit_fn(tr, 'gen_safety_check', [('complete', 'bool'), ('fmatch', 'bool'), ('checks', 'checks')], body, 'res (option (list bytes))'))
    return out


# ---------------------------------------------------------------- the check functions
def generate():
    failclosed.check_all(FAILCLOSED['generate'])
    tree = repo_ast(SRC)
    sfmts = {}
    out = []

    def simple(cls, fname, coq, params, consts, region_data, hints=None):
        f = _fn(tree, cls, fname); check_sig(f, ['self'])
        tr = T02(params, consts, hints=hints, region_data=region_data, sfmts=sfmts, name=coq)
        body = tr.stmts(f.body, lambda: 'Ok tt')
        out.append(emit_fn(tr, coq, params, body))

    q = {n: zc('QCOW', n) for n in ('BF_OFFSET', 'BF_OFFSET_LEN', 'I_FEATURES', 'I_FEATURES_LEN', 'I_FEATURES_DATAFILE_BIT', 'I_FEATURES_MAX_BIT')}
    qc = {'self.' + n: v for n, v in q.items()}
    simple('QcowInspector', 'check_backing_file', 'gen_qcow_check_backing_file', [('hdr', 'bytes')], qc, {'header': 'hdr'})
    simple('QcowInspector', 'check_data_file', 'gen_qcow_check_data_file', [('hdr', 'bytes')], qc, {'header': 'hdr'})
    simple('QcowInspector', 'check_unknown_features', 'gen_qcow_check_unknown_features', [('hdr', 'bytes'), ('version', 'optint')],
           dict(qc, **{"self.qemu_header_info.get('version')": ('version', 'optint')}), {'header': 'hdr'})
    simple('GPTInspector', 'check_mbr_partitions', 'gen_gpt_check_mbr_partitions', [('mbr', 'bytes')],
           {'self.MBR_PTE_START': zc('GPT', 'MBR_PTE_START')}, {'mbr': 'mbr'}, hints={'valid_partitions': 'intlist'})

    # LUKS: header_items = dict(zip(names, struct.unpack(FMT, self.region('header').data[:N]))); check_version reads header['version']
    hi = _fn(tree, 'LUKSInspector', 'header_items'); check_sig(hi, ['self'], ('property',))
    b = [s for s in hi.body if not (isinstance(s, ast.Expr) and isinstance(s.value, ast.Constant))]
    if len(b) != 3 or ast.unparse(b[2]) != 'return dict(zip(names, fields))': raise GenError('LUKSInspector.header_items shape')
    m = re.fullmatch(r"fields = struct\.unpack\('([^']+)', self\.region\('header'\)\.data\[:(\d+)\]\)", ast.unparse(b[0]))
    if not m or not (isinstance(b[1], ast.Assign) and ast.unparse(b[1].targets[0]) == 'names' and isinstance(b[1].value, ast.List)
                     and all(isinstance(x, ast.Constant) and isinstance(x.value, str) for x in b[1].value.elts)):
        raise GenError('LUKSInspector.header_items shape')
    names = [x.value for x in b[1].value.elts]
    tr = T02([('hdr', 'bytes')], {}, region_data={'header': 'hdr'}, sfmts=sfmts, name='gen_luks_check_version')
    nm, big, size, fields = tr.sfmt(m.group(1))
    if len(names) != len(fields) or 'version' not in names: raise GenError('LUKS header field names')
    f = _fn(tree, 'LUKSInspector', 'check_version'); check_sig(f, ['self'])
    if ast.unparse(f.body[0]) != 'header = self.header_items': raise GenError('check_version shape')
    idx = names.index('version'); kind = fields[idx][2]
    if kind == 'b': raise GenError('version is not an integer field')
    tr.consts["header['version']"] = ('(%s %s %d header)' % ('sfield' if kind == 's' else 'ufield', nm, idx), 'int')
    tr.types['header'] = 'bytes'
    # the raise message formats header['version']: a plain int
    class NoMsg(ast.NodeTransformer):
        def visit_Raise(s, n):
            if isinstance(n.exc, ast.Call): n.exc.args = []
            return n
    body = tr.stmts([NoMsg().visit(x) for x in f.body[1:]], lambda: 'Ok tt')
    body = 'match unpackZ %s (zslice None (Some (%s)) hdr) with Exn e__ => Exn e__ | Ok header =>\n%s end' % (nm, m.group(2), body)
    out.append(emit_fn(tr, 'gen_luks_check_version', [('hdr', 'bytes')], body))

    # VMDK: _parse_sparse_header(region, offset=0) as a function of the region's data
    f = _fn(tree, 'VMDKInspector', '_parse_sparse_header'); check_sig(f, ['self', 'region', 'offset'])
    vc = {'self.MIN_SPARSE_HEADER': zc('VMDK', 'MIN_SPARSE_HEADER'), 'self.GD_AT_END': zc('VMDK', 'GD_AT_END'),
          'self.MARKER_FOOTER': zc('VMDK', 'MARKER_FOOTER'), 'self.MARKER_EOS': zc('VMDK', 'MARKER_EOS')}
    class TP(T02):
        def ret_value(self, v):
            if not isinstance(v, ast.Tuple): raise Unsupported('return shape')
            parts = [self.expr(x) for x in v.elts]
            self.ret_types = [t for _, t in parts]
            return 'Ok (%s)' % ', '.join(a for a, _ in parts)
    tr = TP([('data', 'bytes'), ('offset', 'int')], dict(vc, **{'self.region(region).data': ('data', 'bytes')}), sfmts=sfmts, name='gen_vmdk_parse_sparse_header')
    body = tr.stmts(f.body, lambda: 'Ok tt')
    if tr.ret_types != ['bytes', 'int', 'int', 'int', 'int']: raise GenError('_parse_sparse_header result types %r' % tr.ret_types)
    out.append(emit_fn(tr, 'gen_vmdk_parse_sparse_header', [('data', 'bytes'), ('offset', 'int')], body, 'res (bytes * Z * Z * Z * Z)'))

    class TF(T02):
        def helper_args(self, f, call):
            a = call.args
            if call.keywords or not (1 <= len(a) <= 2) or not (isinstance(a[0], ast.Constant) and a[0].value in self.region_data): raise Unsupported('helper call shape')
            off = '(0)' if len(a) == 1 else self.expr(a[1])[0]
            return [self.region_data[a[0].value], off]
    f = _fn(tree, 'VMDKInspector', 'check_footer'); check_sig(f, ['self'])
    tr = TF([('hdr', 'bytes'), ('foot', 'bytes')], vc, region_data={'header': 'hdr', 'footer': 'foot'}, sfmts=sfmts, name='gen_vmdk_check_footer')
    tr.funcs = {'self._parse_sparse_header': py2gal.Fn('gen_vmdk_parse_sparse_header', [], ['bytes', 'int', 'int', 'int', 'int'], True)}
    body = tr.stmts(f.body, lambda: 'Ok tt')
    out.append(emit_fn(tr, 'gen_vmdk_check_footer', [('hdr', 'bytes'), ('foot', 'bytes')], body))

    f = _fn(tree, 'VMDKInspector', 'check_descriptor'); check_sig(f, ['self'])
    tr = T02([('desc_text', 'optstr'), ('vmdktype', 'bytes')], {'self.desc_text': ('desc_text', 'optstr'), 'self.vmdktype': ('vmdktype', 'bytes')},
             hints={'header_fields': 'strlist', 'extents': 'strlist', 'ddb': 'strlist'}, sfmts=sfmts, name='gen_vmdk_check_descriptor')
    body = tr.stmts(f.body, lambda: 'Ok tt')
    out.append(emit_fn(tr, 'gen_vmdk_check_descriptor', [('desc_text', 'optstr'), ('vmdktype', 'bytes')], body))

    out += gen_safety(tree, sfmts)

    o = [HEADER % (SRC, 'tools/gen/gen_C02_checks.py (py2gal extended)')]
    o.append('Require Import OV.Base.Bytes OV.Base.Py OV.Base.PyInt OV.Base.Str OV.Base.Insp_Struct OV.Base.C02_Py OV.Gen.Insp_Consts.\nOpen Scope Z_scope.\n')
    for fmt, (nm, big, size, fields) in sfmts.items():
        o.append('Definition %s : sfmt := mkSfmt %s %d%%N [%s].  (* %s *)\n' % (nm, 'true' if big else 'false', size,
                 '; '.join('(%d%%N, %d%%N)' % (off, ln) for off, ln, _ in fields), fmt))
    return ''.join(o) + '\n'.join(out)


def generate_guarded():
    try:
        return generate()
    except Unsupported as e:
        raise GenError('py2gal: ' + str(e))

if __name__ == '__main__':
    print(generate_guarded())
