"""Gen/Insp_HookCode.v — statement-level translation of the format HOOKS of format_inspector.py:

  QcowInspector.region_complete
  VHDXInspector._guid, _find_meta_region, _find_meta_entry, post_process
  VMDKInspector.post_process, region_complete, _parse_descriptor

into Gallina over the model's types.  Every function becomes  ist X -> ... -> ist X * res T  (a procedure:
ist X * option exn): the state is threaded, an exception leaves the state as mutated so far.  Vocabulary:
coq/Model/Insp_HookPrims.v (+ Insp_PyPrims.v, Gen/Insp_EngineCode.v for region / new_region / delete_region).
Lemmas `*_equiv` in coq/Proofs/Insp_HookEquiv.v prove them equal to the hand-written hooks of Model/Insp_Qcow2.v,
Insp_Vhdx.v, Insp_Vmdk.v.  Fail closed: anything outside the subset -> Unsupported -> GenError -> baseline copy.

Subset: struct.unpack with tuple targets (layout from the format string), bytes slicing with literal / variable bounds,
len, min, + - * on ints, == != < >= in / not in (int tuples), lazy and / or / not in conditions, for i in range(0, n) with
early return (a Fixpoint), try/except ValueError | UnicodeDecodeError (+ else), bytes.index / str.index / str.find /
decode('ascii') / lower, the `for char in X.decode('ascii')` text test with break, region attribute reads and
`self.region(n).length = v`, new_region / delete_region / add_safety_check, CaptureRegion(..) / EndCaptureRegion(..),
raise ImageFormatError, self._trace / LOG.* calls (skipped: their arguments are names and literals; the one exception,
`self.region('header').offset` in a message, is evaluated after the same lookup succeeded).
"""
import ast, re
from common import *
import gen_insp

SRC = 'oslo_utils/imageutils/format_inspector.py'

class Unsupported(Exception):
    pass

def lit_b(b): return '(%s%%N : bytes)' % lit(b)

class Hk:
    def __init__(self, cls, consts, name, mode, xt, sigs):
        self.cls = cls; self.consts = consts; self.name = name; self.mode = mode; self.xt = xt; self.sigs = sigs
        self.env = {}; self.n = 0; self.handlers = []; self.aux = []; self.nloop = 0; self.ret_ty = None
        self.loop = None            # inside a for-range body: (call text of the next iteration, names that existed before the loop)
        self.dirty = set()
    def src(self, e): return ast.unparse(e)
    def fresh(self):
        self.n += 1
        return 't%d__' % self.n

    # ---------------------------------------------------------------- outcomes
    def ok_none(self): return '(self, None)' if self.mode == 'proc' else None
    def raise_(self, cls_or_var):
        return '(self, Some %s)' % cls_or_var if self.mode == 'proc' else '(self, Exn %s)' % cls_or_var
    def fail(self, exn_cls):
        """text of the failure branch of a primitive that raises exn_cls (variable e__ is bound to the exception)"""
        for h in reversed(self.handlers):
            if exn_cls in h: return h[exn_cls]()
        return self.raise_('e__')

    # ---------------------------------------------------------------- expressions: (binds, coq, type); binds = [(pattern, coq, exn class, kind)]
    def sfmt(self, fmt):
        big, size, fields = gen_insp.parse_struct(fmt)
        return '(mkSfmt %s %d [%s])' % ('true' if big else 'false', size, '; '.join('(%d, %d)' % f for f in fields)), fields, fmt
    def toZ(self, c, t):
        if t == 'Z': return c
        if t == 'N': return '(Z.of_N %s)' % c
        raise Unsupported('integer expected, got ' + t)

    def mx(self, e):
        s = self.src(e)
        if isinstance(e, ast.Constant):
            v = e.value
            if v is True: return [], 'true', 'bool'
            if v is False: return [], 'false', 'bool'
            if v is None: return [], 'None', 'none'
            if isinstance(v, int): return [], '%d' % v, 'N'
            if isinstance(v, (bytes, str)): return [], lit_b(v if isinstance(v, bytes) else v.encode('latin-1')), 'bytes'
            raise Unsupported('constant ' + s)
        if isinstance(e, ast.Name):
            if e.id not in self.env: raise Unsupported('name ' + e.id)
            return [], e.id, self.env[e.id]
        if isinstance(e, ast.Attribute) and isinstance(e.value, ast.Name) and e.value.id == 'self':
            if e.attr == 'format_match' and self.cls == 'QcowInspector':
                t = self.fresh(); return [(t, '(gen_qcow2_format_match self)', 'any', 'res')], t, 'bool'
            if e.attr in ('METAREGION', 'VIRTUAL_DISK_SIZE') and self.cls == 'VHDXInspector': return [], 'VHDX_GUID_%s' % e.attr, 'guid'
            if e.attr in self.consts: return [], '%d' % self.consts[e.attr], 'N'
            raise Unsupported('attribute ' + s)
        if isinstance(e, ast.Call):
            fn = self.src(e.func)
            if fn == 'self.region' and len(e.args) == 1:
                a = e.args[0]
                if isinstance(a, ast.Constant) and isinstance(a.value, str): nm = 'R_%s' % a.value
                else:
                    b0, nm, tn = self.mx(a)
                    if b0 or tn != 'name': raise Unsupported('region name')
                t = self.fresh()
                return [(t, '(gen_region self %s)' % nm, 'KeyError', 'res')], t, 'region'
            if fn == 'self.has_region' and len(e.args) == 1 and isinstance(e.args[0], ast.Constant):
                return [], '(gen_has_region self R_%s)' % e.args[0].value, 'bool'
            if fn == 'len' and len(e.args) == 1:
                b, a, ta = self.mx(e.args[0])
                if ta != 'bytes': raise Unsupported('len of ' + ta)
                return b, '(flen %s)' % a, 'N'
            if fn == 'min' and len(e.args) == 2:
                b1, a, ta = self.mx(e.args[0]); b2, c, tc = self.mx(e.args[1])
                if ta != 'N' or tc != 'N': raise Unsupported('min types')
                return b1 + b2, '(N.min %s %s)' % (a, c), 'N'
            if fn == 'CaptureRegion' and len(e.args) == 2:
                b1, a, ta = self.mx(e.args[0]); b2, c, tc = self.mx(e.args[1])
                if ta != 'N' or tc != 'N': raise Unsupported('CaptureRegion arguments')
                mn = 'None'
                for kw in e.keywords:
                    if kw.arg != 'min_length': raise Unsupported('CaptureRegion keyword')
                    b3, m, tm = self.mx(kw.value)
                    if tm != 'N': raise Unsupported('min_length type')
                    b2 = b2 + b3; mn = '(Some %s)' % m
                return b1 + b2, '(mkRspec false %s %s %s)' % (a, c, mn), 'spec'
            if fn == 'EndCaptureRegion' and len(e.args) == 1 and not e.keywords:
                b1, a, ta = self.mx(e.args[0])
                if ta != 'N': raise Unsupported('EndCaptureRegion argument')
                return b1, '(mkRspec true %s %s None)' % (a, a), 'spec'
            if fn == 'self._guid' and len(e.args) == 1 and self.cls == 'VHDXInspector':
                b, a, ta = self.mx(e.args[0])
                if ta != 'bytes': raise Unsupported('_guid argument')
                t = self.fresh()
                return b + [(t, '(gen_vhdx_guid %s)' % a, 'StructError', 'res')], t, 'guid'
            if fn == 'self._parse_sparse_header' and self.cls == 'VMDKInspector' and len(e.args) == 1 and isinstance(e.args[0], ast.Constant):
                # translated (and proved equal to this model function) by Gen/C02_Checks.v
                t = self.fresh()
                return [(t, '(vmdk_parse_sparse self R_%s 0)' % e.args[0].value, 'any', 'res')], t, 'sparse5'
            if fn.startswith('self.') and fn[5:] in self.sigs and self.sigs[fn[5:]][1] == 'fun':
                cn, _, ptys, rty = self.sigs[fn[5:]]
                bs = []; args = []
                for a, want in zip(e.args, ptys):
                    b, c, t = self.mx(a)
                    if t != want: raise Unsupported('argument type %s, wanted %s' % (t, want))
                    bs += b; args.append(c)
                t = self.fresh()
                return bs + [(t, '(%s self%s)' % (cn, ''.join(' ' + a for a in args)), 'any', 'st')], t, rty
            if isinstance(e.func, ast.Attribute):
                m = e.func.attr
                if m == 'index' and len(e.args) == 1:
                    b1, a, ta = self.mx(e.func.value); b2, c, tc = self.mx(e.args[0])
                    if ta != 'bytes' or tc != 'bytes': raise Unsupported('index types')
                    t = self.fresh()
                    return b1 + b2 + [(t, '(py_index %s %s)' % (c, a), 'ValueError', 'res')], t, 'N'
                if m == 'find' and len(e.args) == 2:
                    b1, a, ta = self.mx(e.func.value); b2, c, tc = self.mx(e.args[0]); b3, st, ts = self.mx(e.args[1])
                    if (ta, tc, ts) != ('bytes', 'bytes', 'N'): raise Unsupported('find types')
                    return b1 + b2 + b3, '(py_find_from %s %s %s)' % (c, a, st), 'Z'
                if m == 'decode' and len(e.args) == 1 and self.src(e.args[0]) == "'ascii'":
                    b1, a, ta = self.mx(e.func.value)
                    if ta != 'bytes': raise Unsupported('decode of ' + ta)
                    t = self.fresh()
                    return b1 + [(t, '(py_decode_ascii %s)' % a, 'UnicodeDecodeError', 'res')], t, 'bytes'
                if m == 'lower' and not e.args:
                    b1, a, ta = self.mx(e.func.value)
                    if ta != 'bytes': raise Unsupported('lower of ' + ta)
                    return b1, '(lower_ascii %s)' % a, 'bytes'
            raise Unsupported('call ' + s)
        if isinstance(e, ast.Attribute):
            b, a, ta = self.mx(e.value)
            if ta == 'region' and e.attr in ('data', 'offset', 'length', 'complete'):
                return b, {'data': '(r_data %s)', 'offset': '(r_off %s)', 'length': '(r_len %s)', 'complete': '(py_region_complete %s)'}[e.attr] % a, \
                       {'data': 'bytes', 'offset': 'N', 'length': 'N', 'complete': 'bool'}[e.attr]
            raise Unsupported('attribute ' + s)
        if isinstance(e, ast.Subscript):
            b, a, ta = self.mx(e.value)
            if ta != 'bytes' or not isinstance(e.slice, ast.Slice) or e.slice.step is not None: raise Unsupported('subscript ' + s)
            lo = self.mx(e.slice.lower) if e.slice.lower is not None else None
            hi = self.mx(e.slice.upper) if e.slice.upper is not None else None
            for x in (lo, hi):
                if x is not None and x[0]: raise Unsupported('raising slice bound')
            if lo and hi and 'Z' in (lo[2], hi[2]):
                return b, '(zslice (Some %s) (Some %s) %s)' % (self.toZ(lo[1], lo[2]), self.toZ(hi[1], hi[2]), a), 'bytes'
            if lo is None and hi is not None and hi[2] == 'N': return b, '(ntake %s %s)' % (hi[1], a), 'bytes'
            if lo is not None and hi is None and lo[2] == 'N': return b, '(nskip %s %s)' % (lo[1], a), 'bytes'
            if lo is not None and hi is not None and lo[2] == hi[2] == 'N': return b, '(nsub %s %s %s)' % (lo[1], hi[1], a), 'bytes'
            raise Unsupported('slice ' + s)
        if isinstance(e, ast.BinOp) and isinstance(e.op, (ast.Add, ast.Mult, ast.Sub)):
            b1, a, ta = self.mx(e.left); b2, c, tc = self.mx(e.right)
            if ta == tc == 'N' and not isinstance(e.op, ast.Sub):
                return b1 + b2, '(%s %s %s)' % (a, '+' if isinstance(e.op, ast.Add) else '*', c), 'N'
            if isinstance(e.op, ast.Sub) and 'Z' in (ta, tc):
                return b1 + b2, '(%s - %s)%%Z' % (self.toZ(a, ta), self.toZ(c, tc)), 'Z'
            raise Unsupported('arithmetic ' + s)
        raise Unsupported('expression ' + s)

    def wrap(self, binds, body):
        for pat, c, cls, kind in reversed(binds):
            if kind == 'res': body = 'match %s with Exn e__ => %s | Ok %s =>\n%s end' % (c, self.fail(cls), pat, body)
            else: body = 'match %s with (self, Exn e__) => %s | (self, Ok %s) =>\n%s end' % (c, self.fail(cls), pat, body)
        return body

    # ---------------------------------------------------------------- conditions (lazy and / or / not)
    def cond(self, e, T, E):
        """T, E: callables giving the text of the two branches"""
        if isinstance(e, ast.BoolOp):
            vals = list(e.values)
            if len(vals) > 2: e2 = ast.BoolOp(op=e.op, values=vals[1:])
            else: e2 = vals[1]
            if isinstance(e.op, ast.And): return self.cond(vals[0], lambda: self.cond(e2, T, E), E)
            return self.cond(vals[0], T, lambda: self.cond(e2, T, E))
        if isinstance(e, ast.UnaryOp) and isinstance(e.op, ast.Not): return self.cond(e.operand, E, T)
        if isinstance(e, ast.Name) and self.env.get(e.id) == 'optspec':
            # `if region:` on CaptureRegion-or-None: the object in the true branch
            saved = dict(self.env), set(self.dirty)
            self.env[e.id] = 'spec'
            t = T(); self.env, self.dirty = dict(saved[0]), set(saved[1])
            f = E(); self.env, self.dirty = dict(saved[0]), set(saved[1])
            return 'match %s with Some %s => (\n%s) | None => (\n%s) end' % (e.id, e.id, t, f)
        b, c = self.test(e)
        saved = dict(self.env), set(self.dirty)
        t = T(); self.env, self.dirty = dict(saved[0]), set(saved[1])
        f = E(); self.env, self.dirty = dict(saved[0]), set(saved[1])
        return self.wrap(b, 'if %s then (\n%s) else (\n%s)' % (c, t, f))

    def test(self, e):
        """atomic test -> (binds, coq bool)"""
        if isinstance(e, ast.Compare) and len(e.ops) == 1:
            op = e.ops[0]; r = e.comparators[0]
            if isinstance(op, (ast.In, ast.NotIn)) and isinstance(r, ast.Tuple) and all(isinstance(x, ast.Constant) and isinstance(x.value, int) for x in r.elts):
                b, a, ta = self.mx(e.left)
                if ta != 'N': raise Unsupported('in on ' + ta)
                c = '(' + ' || '.join('(%s =? %d)' % (a, x.value) for x in r.elts) + ')'
                return b, (c if isinstance(op, ast.In) else '(negb %s)' % c)
            b1, a, ta = self.mx(e.left); b2, c, tc = self.mx(r)
            if isinstance(op, (ast.Eq, ast.NotEq)):
                if ta == tc == 'N': x = '(%s =? %s)' % (a, c)
                elif ta == tc == 'bytes': x = '(beq %s %s)' % (a, c)
                elif ta == tc == 'guid': x = '(beq %s %s)' % (a, c)
                elif ta == 'name' and tc == 'bytes' and isinstance(r, ast.Constant): x = '(rname_beq %s R_%s)' % (a, r.value)
                else: raise Unsupported('== on %s, %s' % (ta, tc))
                return b1 + b2, (x if isinstance(op, ast.Eq) else '(negb %s)' % x)
            if isinstance(op, (ast.Lt, ast.GtE, ast.LtE, ast.Gt)):
                sym = {ast.Lt: '<?', ast.GtE: '>=?', ast.LtE: '<=?', ast.Gt: '>?'}[type(op)]
                if ta == tc == 'N':
                    if isinstance(op, ast.GtE): return b1 + b2, '(%s <=? %s)' % (c, a)
                    if isinstance(op, ast.Gt): return b1 + b2, '(%s <? %s)' % (c, a)
                    return b1 + b2, '(%s %s %s)' % (a, sym, c)
                if 'Z' in (ta, tc) and isinstance(op, ast.Lt): return b1 + b2, '(%s <? %s)%%Z' % (self.toZ(a, ta), self.toZ(c, tc))
            raise Unsupported('comparison ' + self.src(e))
        b, a, ta = self.mx(e)
        if ta == 'bool': return b, a
        if ta == 'optspec': return b, '(match %s with Some _ => true | None => false end)' % a
        raise Unsupported('truthiness of %s: %s' % (ta, self.src(e)))

    # ---------------------------------------------------------------- statements; k: callable giving the continuation text
    def block(self, ss, k):
        if not ss: return k()
        s, rest = ss[0], ss[1:]
        nxt = lambda: self.block(rest, k)
        if isinstance(s, ast.Expr) and isinstance(s.value, ast.Constant): return nxt()
        if isinstance(s, ast.Pass): return nxt()
        if isinstance(s, ast.Expr) and isinstance(s.value, ast.Call):
            fn = self.src(s.value.func)
            if fn == 'self._trace' or fn.startswith('LOG.'):
                for a in s.value.args:
                    for nd in ast.walk(a):
                        if isinstance(nd, (ast.Call, ast.Subscript)): raise Unsupported('call / subscript inside a log message argument')
                return nxt()
            return self.call_stmt(s.value, nxt)
        if isinstance(s, ast.Return):
            if s.value is None:
                if self.mode != 'proc': raise Unsupported('bare return')
                return '(self, None)'
            b, a, ta = self.mx(s.value)
            if ta == 'spec': a, ta = '(Some %s)' % a, 'optspec'
            if ta == 'none': ta = self.ret_ty or 'optspec'
            if self.ret_ty not in (None, ta): raise Unsupported('return type %s vs %s' % (ta, self.ret_ty))
            self.ret_ty = ta
            return self.wrap(b, '(self, Ok %s)' % a)
        if isinstance(s, ast.Raise):
            exc = s.exc
            nm = exc.func.id if isinstance(exc, ast.Call) and isinstance(exc.func, ast.Name) else None
            if nm != 'ImageFormatError': raise Unsupported('raise ' + self.src(s))
            return self.raise_(nm)
        if isinstance(s, ast.If):
            return self.cond(s.test, lambda: self.block(s.body + rest, k), lambda: self.block(s.orelse + rest, k))
        if isinstance(s, ast.Assign) and len(s.targets) == 1:
            return self.assign(s.targets[0], s.value, nxt)
        if isinstance(s, ast.For):
            return self.for_range(s, rest, k)
        if isinstance(s, ast.Try):
            return self.try_(s, rest, k)
        if isinstance(s, ast.Break):
            raise Unsupported('break')
        raise Unsupported('statement ' + self.src(s).split('\n')[0])

    def setvar(self, name, ty):
        if self.loop is not None and name in self.loop[1]: self.dirty.add(name)
        self.env[name] = ty

    def assign(self, tg, value, nxt):
        ts = self.src(tg)
        # tuple targets: struct.unpack / _parse_sparse_header
        if isinstance(tg, ast.Tuple) and all(isinstance(x, ast.Name) for x in tg.elts):
            names = [x.id for x in tg.elts]
            if isinstance(value, ast.Call) and self.src(value.func) == 'struct.unpack' and len(value.args) == 2 and isinstance(value.args[0], ast.Constant):
                sf, fields, fmt = self.sfmt(value.args[0].value)
                if len(fields) != len(names): raise Unsupported('unpack arity')
                b, a, ta = self.mx(value.args[1])
                if ta != 'bytes': raise Unsupported('unpack of ' + ta)
                u = self.fresh()
                kinds = re.findall(r'\d*([a-zA-Z])', fmt[1:])
                flat = []
                for m in re.finditer(r'(\d*)([a-zA-Z])', fmt[1:]):
                    flat += [m.group(2)] * (1 if m.group(2) == 's' or not m.group(1) else int(m.group(1)))
                lets = ''
                for i, (nm, kd) in enumerate(zip(names, flat)):
                    self.setvar(nm, 'bytes' if kd == 's' else 'N')
                    lets += 'let %s := %s %s %d %s in\n' % (nm, 'sraw' if kd == 's' else 'sint', sf, i, u)
                return self.wrap(b + [(u, '(unpack %s %s)' % (sf, a), 'StructError', 'res')], lets + nxt())
            b, a, ta = self.mx(value)
            if ta == 'sparse5' and len(names) == 5:
                for nm, ty in zip(names, ['bytes', 'N', 'N', 'N', 'N']): self.setvar(nm, ty)
                return self.wrap(b, "let '(%s, %s, %s, %s, %s) := %s in\n%s" % (*names, a, nxt()))
            raise Unsupported('tuple assignment ' + ts)
        if isinstance(tg, ast.Name):
            b, a, ta = self.mx(value)
            if ta == 'spec': pass
            self.setvar(tg.id, ta)
            return self.wrap(b, 'let %s := %s in\n%s' % (tg.id, a, nxt()))
        if isinstance(tg, ast.Attribute):
            # self.region('x').length = v
            if tg.attr == 'length' and isinstance(tg.value, ast.Call) and self.src(tg.value.func) == 'self.region' and isinstance(tg.value.args[0], ast.Constant):
                b, a, ta = self.mx(value)
                if ta != 'N': raise Unsupported('length := ' + ta)
                return self.wrap(b, 'match py_set_region_length self R_%s %s with (self, Some e__) => %s | (self, None) =>\n%s end'
                                 % (tg.value.args[0].value, a, self.fail('KeyError'), nxt()))
            if isinstance(tg.value, ast.Name) and tg.value.id == 'self':
                b, a, ta = self.mx(value) if not (isinstance(value, ast.Dict) and not value.keys) else ([], None, 'emptydict')
                if self.cls == 'QcowInspector' and tg.attr == 'qemu_header_info':
                    if ta == 'emptydict': return 'let self := set_ext self None in\n' + nxt()
                    raise Unsupported('qemu_header_info := ' + ta)
                if self.cls == 'VMDKInspector' and tg.attr == 'desc_text' and ta == 'bytes':
                    return self.wrap(b, 'let self := set_ext self (mkVx (Some %s) (v_vmdktype (i_ext self))) in\n%s' % (a, nxt()))
                if self.cls == 'VMDKInspector' and tg.attr == 'vmdktype' and ta == 'bytes':
                    return self.wrap(b, 'let self := set_ext self (mkVx (v_desc_text (i_ext self)) %s) in\n%s' % (a, nxt()))
        raise Unsupported('assignment ' + ts)

    def qcow_dict(self, s, nxt):
        """self.qemu_header_info = dict(zip((names), struct.unpack(fmt, X)))"""
        v = s.value
        if not (isinstance(v, ast.Call) and self.src(v.func) == 'dict' and len(v.args) == 1 and isinstance(v.args[0], ast.Call)
                and self.src(v.args[0].func) == 'zip' and len(v.args[0].args) == 2): return None
        names, un = v.args[0].args
        if not (isinstance(names, ast.Tuple) and [self.src(x) for x in names.elts] == ["'magic'", "'version'", "'bf_offset'", "'bf_sz'", "'cluster_bits'", "'size'"]): return None
        if not (isinstance(un, ast.Call) and self.src(un.func) == 'struct.unpack' and isinstance(un.args[0], ast.Constant)): return None
        sf, fields, fmt = self.sfmt(un.args[0].value)
        flat = []
        for m in re.finditer(r'(\d*)([a-zA-Z])', fmt[1:]):
            flat += [m.group(2)] * (1 if m.group(2) == 's' or not m.group(1) else int(m.group(1)))
        if len(flat) != 6 or flat[0] != 's' or 's' in flat[1:]: raise Unsupported('qcow header layout')
        b, a, ta = self.mx(un.args[1])
        u = self.fresh()
        rec = '(mkQhdr (sraw %s 0 %s) %s)' % (sf, u, ' '.join('(sint %s %d %s)' % (sf, i, u) for i in range(1, 6)))
        return self.wrap(b + [(u, '(unpack %s %s)' % (sf, a), 'StructError', 'res')], 'let self := set_ext self (Some %s) in\n%s' % (rec, nxt()))

    def call_stmt(self, call, nxt):
        fn = self.src(call.func)
        seq = lambda c: 'match %s with (self, Some e__) => %s | (self, None) =>\n%s end' % (c, self.raise_('e__'), nxt())
        if fn == 'self.new_region' and len(call.args) == 2 and isinstance(call.args[0], ast.Constant):
            b, a, ta = self.mx(call.args[1])
            if ta == 'optspec_some': ta = 'spec'
            if ta != 'spec': raise Unsupported('new_region argument ' + ta)
            return self.wrap(b, seq('(new_region R_%s %s self)' % (call.args[0].value, a)))
        if fn == 'self.delete_region' and len(call.args) == 1 and isinstance(call.args[0], ast.Constant):
            return seq('(delete_region R_%s self)' % call.args[0].value)
        if fn == 'self.add_safety_check' and len(call.args) == 1 and isinstance(call.args[0], ast.Call) and self.src(call.args[0].func) == 'SafetyCheck' \
                and isinstance(call.args[0].args[0], ast.Constant):
            return seq('(add_check K_%s self)' % call.args[0].args[0].value)
        if fn.startswith('self.') and fn[5:] in self.sigs and self.sigs[fn[5:]][1] == 'proc' and not call.args:
            return seq('(%s self)' % self.sigs[fn[5:]][0])
        raise Unsupported('call statement ' + self.src(call))

    # for i in range(0, n): body (early return allowed)  ->  Fixpoint
    def for_range(self, s, rest, k):
        if s.orelse or not isinstance(s.target, ast.Name): raise Unsupported('for shape')
        it = s.iter
        if not (isinstance(it, ast.Call) and self.src(it.func) == 'range' and len(it.args) == 2 and self.src(it.args[0]) == '0'): raise Unsupported('for over ' + self.src(it))
        b, cnt, tc = self.mx(it.args[1])
        if b or tc != 'N': raise Unsupported('range bound')
        self.nloop += 1
        lname = '%s_loop%d' % (self.name, self.nloop)
        frees = [(n, t) for n, t in self.env.items()]
        i = s.target.id
        callnext = '%s k__ (%s + 1) self%s' % (lname, i, ''.join(' ' + n for n, _ in frees))
        sub = Hk(self.cls, self.consts, self.name, self.mode, self.xt, self.sigs)
        sub.env = dict(self.env); sub.env[i] = 'N'; sub.n = self.n; sub.ret_ty = self.ret_ty; sub.nloop = self.nloop
        sub.loop = (callnext, set(self.env)); sub.handlers = self.handlers
        def cont():
            if sub.dirty: raise Unsupported('loop body rebinds %s on a path that continues' % sorted(sub.dirty))
            return callnext
        body = sub.block(s.body, cont)
        self.n = sub.n; self.ret_ty = sub.ret_ty
        after = self.block(rest, k)
        params = ''.join(' (%s : %s)' % (n, COQ[t]) for n, t in frees)
        self.aux += sub.aux
        self.aux.append('Fixpoint %s (k_ : nat) (%s : N) (self : ist %s)%s {struct k_} : RESULT :=\n  match k_ with\n  | O =>\n%s\n  | S k__ =>\n%s\n  end.\n'
                        % (lname, i, self.xt, params, after, body))
        return '%s (N.to_nat %s) 0 self%s' % (lname, cnt, ''.join(' ' + n for n, _ in frees))

    # try / except [/ else]
    def try_(self, s, rest, k):
        if s.finalbody or len(s.handlers) != 1 or s.handlers[0].name is not None: raise Unsupported('try shape')
        h = s.handlers[0]
        cls = self.src(h.type)
        if cls not in ('ValueError', 'UnicodeDecodeError'): raise Unsupported('except ' + cls)
        # the text test:  flag = True; for char in X.decode('ascii'): if C(char): flag = False; break   /  except UnicodeDecodeError: flag = False
        r = self.text_test(s)
        if r is not None:
            flag, b, txt = r
            self.setvar(flag, 'bool')
            return self.wrap(b, 'let %s := %s in\n%s' % (flag, txt, self.block(rest, k)))
        def handler():
            saved = self.handlers; self.handlers = saved[:-1] if saved and saved[-1] is hd else saved
            try: return self.block(h.body + rest, k)
            finally: self.handlers = saved
        hd = {cls: handler}
        def after_body():
            # the else block and what follows are not protected
            saved = self.handlers; self.handlers = [x for x in saved if x is not hd]
            try: return self.block(s.orelse + rest, k)
            finally: self.handlers = saved
        self.handlers = self.handlers + [hd]
        try: return self.block(s.body, after_body)
        finally: self.handlers = [x for x in self.handlers if x is not hd]

    def text_test(self, s):
        body = s.body; h = s.handlers[0]
        if s.orelse or len(body) != 2 or self.src(h.type) != 'UnicodeDecodeError' or len(h.body) != 1: return None
        a0, f = body
        if not (isinstance(a0, ast.Assign) and isinstance(a0.targets[0], ast.Name) and self.src(a0.value) == 'True' and isinstance(f, ast.For)): return None
        flag = a0.targets[0].id
        if self.src(h.body[0]) != '%s = False' % flag: return None
        if not (isinstance(f.iter, ast.Call) and isinstance(f.iter.func, ast.Attribute) and f.iter.func.attr == 'decode' and self.src(f.iter.args[0]) == "'ascii'"
                and isinstance(f.target, ast.Name) and not f.orelse and len(f.body) == 1 and isinstance(f.body[0], ast.If) and not f.body[0].orelse
                and [self.src(x) for x in f.body[0].body] == ['%s = False' % flag, 'break']): return None
        ch = f.target.id
        b, a, ta = self.mx(f.iter.func.value)
        if ta != 'bytes': raise Unsupported('decode of ' + ta)
        return flag, b, '(py_all_ascii (fun %s => negb %s) %s)' % (ch, self.charpred(f.body[0].test, ch), a)

    def charpred(self, e, ch):
        if isinstance(e, ast.BoolOp): return '(' + (' && ' if isinstance(e.op, ast.And) else ' || ').join(self.charpred(v, ch) for v in e.values) + ')'
        if isinstance(e, ast.UnaryOp) and isinstance(e.op, ast.Not): return '(negb %s)' % self.charpred(e.operand, ch)
        s = self.src(e)
        if s == ch + '.isprintable()': return '(cmem %s ASCII_PRINT_RANGES)' % ch
        if s == ch + '.isspace()': return '(cmem %s ASCII_SPACE_RANGES)' % ch
        raise Unsupported('character test ' + s)

COQ = {'N': 'N', 'Z': 'Z', 'bytes': 'bytes', 'bool': 'bool', 'region': 'region', 'name': 'rname', 'spec': 'rspec', 'optspec': 'option rspec', 'guid': 'bytes'}

def _fn(tree, cls, name):
    for n in tree.body:
        if isinstance(n, ast.ClassDef) and n.name == cls:
            for f in n.body:
                if isinstance(f, ast.FunctionDef) and f.name == name: return f
    raise GenError('%s.%s not found' % (cls, name))

def emit(t, cn, params, body, result):
    aux = ''.join(t.aux).replace('RESULT', result)
    ps = ''.join(' (%s : %s)' % (p, COQ[ty]) for p, ty in params)
    return aux + 'Definition %s (self : ist %s)%s : %s :=\n%s.\n' % (cn, t.xt, ps, result, body)

def generate(which=('qcow', 'vhdx', 'vmdk')):
    import failclosed
    failclosed.check_all(gen_insp.FAILCLOSED['generate'])
    m = repo_import('oslo_utils.imageutils.format_inspector')
    tree = repo_ast(SRC)
    out = [HEADER % (SRC, 'tools/gen/gen_insp_hooks.py'),
           'Require Import OV.Base.Bytes OV.Base.Py OV.Base.PyInt OV.Base.Str OV.Base.Insp_Struct OV.Gen.Insp_Consts OV.Model.Insp_Engine OV.Model.Insp_PyPrims.\n'
           'Require Import OV.Gen.Insp_EngineCode OV.Gen.Insp_FormatCode OV.Model.Insp_Qcow2 OV.Model.Insp_Vmdk OV.Model.Insp_HookPrims.\nOpen Scope N_scope.\n']
    def consts(cls): return {k: v for k, v in vars(getattr(m, cls)).items() if k.isupper() and isinstance(v, int)}
    try:
        if 'qcow' in which:
            f = _fn(tree, 'QcowInspector', 'region_complete')
            if [a.arg for a in f.args.args] != ['self', 'region']: raise Unsupported('signature')
            t = Hk('QcowInspector', consts('QcowInspector'), 'gen_qcow_region_complete', 'proc', 'qx', {})
            t.env['region'] = 'name'
            ss = list(f.body)
            first = ss[0]
            if not (isinstance(first, ast.Assign) and t.src(first.targets[0]) == 'self.qemu_header_info'): raise Unsupported('qcow region_complete shape')
            body = t.qcow_dict(first, lambda: t.block(ss[1:], lambda: '(self, None)'))
            if body is None: raise Unsupported('qemu_header_info assignment')
            out.append(emit(t, 'gen_qcow_region_complete', [('region', 'name')], body, 'ist qx * option exn'))
        if 'vhdx' in which:
            C = consts('VHDXInspector')
            # _guid: the canonical text form of the 16 bytes; represented BY the 16 bytes (the class constants are canonical: gen_insp checks)
            f = _fn(tree, 'VHDXInspector', '_guid')
            strs = [n.value for n in ast.walk(f) if isinstance(n, ast.Constant) and isinstance(n.value, str)]
            if '<IHHBBBBBBBB' not in strs or '%08X-%04X-%04X-%02X%02X-%02X%02X%02X%02X%02X%02X' not in strs or len(f.body) != 3 \
                    or 'struct.unpack(guid_format, buf)' not in ast.unparse(f):
                raise Unsupported('_guid is not the canonical formatter')
            sf = '(mkSfmt false 16 [%s])' % '; '.join('(%d, %d)' % x for x in gen_insp.parse_struct('<IHHBBBBBBBB')[2])
            out.append('Definition gen_vhdx_guid (buf : bytes) : res bytes := unpack %s buf.\n' % sf)
            sigs = {}
            f = _fn(tree, 'VHDXInspector', '_find_meta_region')
            t = Hk('VHDXInspector', C, 'gen_vhdx_find_meta_region', 'fun', 'unit', sigs)
            body = t.block(f.body, lambda: (_ for _ in ()).throw(Unsupported('falls off the end')))
            out.append(emit(t, 'gen_vhdx_find_meta_region', [], body, 'ist unit * res (option rspec)'))
            sigs['_find_meta_region'] = ('gen_vhdx_find_meta_region', 'fun', [], 'optspec')
            f = _fn(tree, 'VHDXInspector', '_find_meta_entry')
            if [a.arg for a in f.args.args] != ['self', 'desired_guid']: raise Unsupported('signature')
            t = Hk('VHDXInspector', C, 'gen_vhdx_find_meta_entry', 'fun', 'unit', sigs); t.env['desired_guid'] = 'guid'
            body = t.block(f.body, lambda: (_ for _ in ()).throw(Unsupported('falls off the end')))
            out.append(emit(t, 'gen_vhdx_find_meta_entry', [('desired_guid', 'guid')], body, 'ist unit * res (option rspec)'))
            sigs['_find_meta_entry'] = ('gen_vhdx_find_meta_entry', 'fun', ['guid'], 'optspec')
            f = _fn(tree, 'VHDXInspector', 'post_process')
            t = Hk('VHDXInspector', C, 'gen_vhdx_post_process', 'proc', 'unit', sigs)
            body = t.block(f.body, lambda: '(self, None)')
            out.append(emit(t, 'gen_vhdx_post_process', [], body, 'ist unit * option exn'))
        if 'vmdk' in which:
            C = consts('VMDKInspector'); sigs = {}
            f = _fn(tree, 'VMDKInspector', '_parse_descriptor')
            t = Hk('VMDKInspector', C, 'gen_vmdk_parse_descriptor', 'proc', 'vx', sigs)
            body = t.block(f.body, lambda: '(self, None)')
            out.append(emit(t, 'gen_vmdk_parse_descriptor', [], body, 'ist vx * option exn'))
            sigs['_parse_descriptor'] = ('gen_vmdk_parse_descriptor', 'proc', [], None)
            f = _fn(tree, 'VMDKInspector', 'region_complete')
            if [a.arg for a in f.args.args] != ['self', 'region_name']: raise Unsupported('signature')
            t = Hk('VMDKInspector', C, 'gen_vmdk_region_complete', 'proc', 'vx', sigs); t.env['region_name'] = 'name'
            body = t.block(f.body, lambda: '(self, None)')
            out.append(emit(t, 'gen_vmdk_region_complete', [('region_name', 'name')], body, 'ist vx * option exn'))
            f = _fn(tree, 'VMDKInspector', 'post_process')
            t = Hk('VMDKInspector', C, 'gen_vmdk_post_process', 'proc', 'vx', sigs)
            body = t.block(f.body, lambda: '(self, None)')
            out.append(emit(t, 'gen_vmdk_post_process', [], body, 'ist vx * option exn'))
    except Unsupported as e:
        raise GenError('hook translation: ' + str(e))
    return '\n'.join(out)

if __name__ == '__main__':
    import sys
    sys.stdout.write(generate(tuple(sys.argv[1:]) or ('qcow', 'vhdx', 'vmdk')))
