"""Gen/C10_Units.v from oslo_utils/strutils.py (UNIT_PREFIX_EXPONENT, UNIT_SYSTEM_INFO) and
oslo_utils/imageutils/qemu.py (QemuImgInfo.SIZE_RE).  Fail-closed."""
import re
from common import *
import regex_tr
import failclosed

# what the translator reads, and what must therefore be the single, unmodified, undecorated binding of its
# name at run time (tools/gen/failclosed.py): the two tables and `re` of strutils, SIZE_RE and `re` of qemu;
# string_to_bytes with `math` and `_` (its defaults are read and pinned by generate_code itself)
_A = failclosed.ANY
FAILCLOSED = {
    'generate': [{'src': 'oslo_utils/strutils.py', 'mod': 'oslo_utils.strutils',
                  'constants': ['UNIT_PREFIX_EXPONENT', 'UNIT_SYSTEM_INFO'], 'imports': {'re': 're'}},
                 {'src': 'oslo_utils/imageutils/qemu.py', 'mod': 'oslo_utils.imageutils.qemu',
                  'classes': {'QemuImgInfo': {}}, 'constants': ['QemuImgInfo.SIZE_RE', 'QemuImgInfo.TOP_LEVEL_RE'], 'imports': {'re': 're'}},
                 # oslo_utils.units: the SI / IEC constants the property's "base 1024 for IEC, 1000 for SI" refers to (cross-check only:
                 # string_to_bytes does not read them; generate_code refuses if it starts to)
                 {'src': 'oslo_utils/units.py', 'mod': 'oslo_utils.units',
                  'constants': [c + 'i' for c in 'KMGTPEZYRQ'] + list('kMGTPEZYRQ')}],
    'generate_code': [{'src': 'oslo_utils/strutils.py', 'mod': 'oslo_utils.strutils',
                       'functions': {'string_to_bytes': {'defaults': {'unit_system': _A, 'return_int': _A}}},
                       'constants': ['UNIT_PREFIX_EXPONENT', 'UNIT_SYSTEM_INFO'],
                       'imports': {'math': 'math', 're': 're', '_': 'oslo_utils._i18n:_'}}]}

_CS = re.compile(r'\[\(\d+,\d+\)(?:;\(\d+,\d+\))*\]')

def _cm(s):
    """text that is safe inside a Coq comment"""
    return s.replace('(*', '( *').replace('*)', '* )').replace('"', "''")

def _share_csets(terms):
    """name every distinct character set once (keeps the regex terms small for the proofs)"""
    names = {}
    def repl(m):
        t = m.group(0)
        if t not in names: names[t] = 'c10_cs%d' % len(names)
        return names[t]
    out = [_CS.sub(repl, t) for t in terms]
    defs = ['Definition %s : cset := %s.' % (n, t.replace(',', ', ')) for t, n in names.items()]
    return defs, out

def split_eos(rx):
    """Base/Regex.v has `$` (Eol) but no end-of-string anchor.  A pattern ending in \\Z is translated as
    (body, true): the model runs the body with the continuation "the rest of the subject is empty"
    (Model/C10_Regex.v, re_match_end), which is what body\\Z means under backtracking.  A \\Z anywhere else,
    or any other unsupported construct, makes regex_tr refuse."""
    import re._parser as P
    from re._constants import AT, AT_END_STRING
    flags = rx.flags & (re.I | re.S | re.M | re.A | re.X)
    if flags & re.X: raise regex_tr.Unsupported('VERBOSE')
    tree = P.parse(rx.pattern, flags)
    eff = tree.state.flags
    if eff & re.L: raise regex_tr.Unsupported('LOCALE')
    items = list(tree)
    eos = bool(items) and items[-1] == (AT, AT_END_STRING)
    if eos: items = items[:-1]
    return regex_tr.tr_seq(items, eff), eos

def generate():
    failclosed.check_all(FAILCLOSED['generate'])
    m = repo_import('oslo_utils.strutils')
    q = repo_import('oslo_utils.imageutils.qemu')
    table = getattr(m, 'UNIT_PREFIX_EXPONENT', None)
    info = getattr(m, 'UNIT_SYSTEM_INFO', None)
    if not isinstance(table, dict) or not isinstance(info, dict):
        raise GenError('UNIT_PREFIX_EXPONENT / UNIT_SYSTEM_INFO are not dicts')
    for k, v in table.items():
        if not isinstance(k, str) or isinstance(v, bool) or not isinstance(v, int):
            raise GenError('UNIT_PREFIX_EXPONENT entry %r: %r is not str -> int' % (k, v))
    systems = []
    for k, v in info.items():
        if not isinstance(k, str) or not isinstance(v, tuple) or len(v) != 2:
            raise GenError('UNIT_SYSTEM_INFO entry %r is not str -> (base, regex)' % (k,))
        base, rx = v
        if not (base is None or (isinstance(base, int) and not isinstance(base, bool))) or not hasattr(rx, 'pattern'):
            raise GenError('UNIT_SYSTEM_INFO[%r] is not (int|None, compiled regex)' % (k,))
        systems.append((k, base, rx))
    size_re = getattr(q.QemuImgInfo, 'SIZE_RE', None)
    if not hasattr(size_re, 'pattern'): raise GenError('QemuImgInfo.SIZE_RE is not a compiled regex')
    try:
        split = [split_eos(rx) for _, _, rx in systems]
        top_re = getattr(q.QemuImgInfo, 'TOP_LEVEL_RE', None)
        if not hasattr(top_re, 'pattern'): raise GenError('QemuImgInfo.TOP_LEVEL_RE is not a compiled regex')
        terms = [t for t, _ in split] + [regex_tr.regex_to_coq(size_re)[0], regex_tr.regex_to_coq(top_re)[0]]
    except regex_tr.Unsupported as e:
        raise GenError('regex outside the supported fragment: %s' % e)
    defs, terms = _share_csets(terms)
    out = [HEADER % ('oslo_utils/strutils.py, oslo_utils/imageutils/qemu.py', 'tools/gen/gen_C10.py')]
    out.append('Require Import OV.Base.Bytes OV.Base.PyInt OV.Base.Regex.')
    out.append('Open Scope N_scope.')
    out += defs
    out.append('(* UNIT_PREFIX_EXPONENT, in source order *)')
    out.append('Definition unit_prefix_exponent : list (str * Z) := [%s].' % '; '.join('(%s, %d%%Z)' % (lit(k), v) for k, v in table.items()))
    for i, (k, base, rx) in enumerate(systems):
        out.append('(* UNIT_SYSTEM_INFO[%s]: %s *)' % (_cm(repr(k)), _cm(rx.pattern)))
        out.append('Definition unit_re_%d : re := %s.' % (i, terms[i]))
    out.append('(* each regex with its end-of-string flag: true when the pattern ends in \\Z (split off by the translator) *)')
    out.append('Definition unit_system_info : list (str * (option Z * (re * bool))) := [%s].' % '; '.join(
        '(%s, (%s, (unit_re_%d, %s)))' % (lit(k), 'None' if base is None else 'Some %d%%Z' % base, i, 'true' if split[i][1] else 'false')
        for i, (k, base, rx) in enumerate(systems)))
    un = repo_import('oslo_utils.units')
    consts = [(k, v) for k, v in vars(un).items() if not k.startswith('_') and isinstance(v, int) and not isinstance(v, bool)]
    if any(not isinstance(k, str) for k, _ in consts): raise GenError('oslo_utils.units: odd name')
    out.append('(* every integer constant of oslo_utils/units.py, in module order (cross-check of the SI / IEC multipliers) *)')
    out.append('Definition units_constants : list (str * Z) := [%s].' % '; '.join('(%s, %d%%Z)' % (lit(k), v) for k, v in consts))
    out.append('(* QemuImgInfo.SIZE_RE (flags %d): %s *)' % (size_re.flags, _cm(size_re.pattern)))
    out.append('Definition size_re : re := %s.' % terms[-2])
    out.append('(* QemuImgInfo.TOP_LEVEL_RE (flags %d): %s *)' % (top_re.flags, _cm(top_re.pattern)))
    out.append('Definition top_level_re : re := %s.' % terms[-1])
    return '\n'.join(out) + '\n'

if __name__ == '__main__':
    import sys
    sys.stdout.write(generate())


# ---------------------------------------------------------------------------------------------------
# Statement-level translation of string_to_bytes into Gallina (Gen/C10_Code.v).  A small dedicated
# translator in the style of py2gal (let-chains, if/else with the continuation duplicated, raising
# operations as matches on `res`), for the subset this function uses: dict lookup under try/except
# KeyError, regex match objects and groups, str-or-None values and their truthiness, float / int
# arithmetic, pow, math.ceil.  Anything else raises GenError (baseline copy is used instead).
# ---------------------------------------------------------------------------------------------------
import ast

class _Tr:
    TY = {'str': 'str', 'optstr': 'option str', 'float': 'float64', 'optint': 'option Z', 'bool': 'bool'}

    def __init__(self, params):
        self.types = dict(params)      # python name -> type
        self.subject = {}              # match variable -> subject variable
        self.n = 0

    def fail(self, node, why):
        raise GenError('string_to_bytes: %s: %s' % (why, ast.unparse(node)[:80]))

    # ---- pure expressions: (coq, type)
    def expr(self, e, narrowed=()):
        if isinstance(e, ast.Constant):
            if isinstance(e.value, bool): return ('true' if e.value else 'false'), 'bool'
            if isinstance(e.value, str): return '(%s%%N : str)' % lit(e.value), 'str'
            if isinstance(e.value, int): return '(%d)%%Z' % e.value, 'int'
            if e.value is None: return '(@None str)', 'optstr'
        if isinstance(e, ast.Name):
            if e.id in narrowed: return e.id + '_s', 'str'
            if e.id in self.types: return self.var(e.id), self.types[e.id]
            self.fail(e, 'unknown name')
        if isinstance(e, ast.Call) and isinstance(e.func, ast.Attribute) and isinstance(e.func.value, ast.Name):
            obj, meth = e.func.value.id, e.func.attr
            if self.types.get(obj) == 'match' and meth == 'group' and len(e.args) == 1 and not e.keywords \
                    and isinstance(e.args[0], ast.Constant) and isinstance(e.args[0].value, int) and e.args[0].value >= 1:
                return '(group_text %s g_%s %d%%nat)' % (self.var(self.subject[obj]), obj, e.args[0].value), 'optstr'
            if meth in ('endswith', 'startswith') and len(e.args) == 1 and not e.keywords:
                o, to = self.expr(e.func.value, narrowed)
                a, ta = self.expr(e.args[0], narrowed)
                if to == 'str' and ta == 'str': return '(%s %s %s)' % (meth, a, o), 'bool'
                self.fail(e, 'method call on a possibly-None value')
        if isinstance(e, ast.Compare) and len(e.ops) == 1:
            op, l, r = e.ops[0], e.left, e.comparators[0]
            if isinstance(op, ast.In) and isinstance(r, (ast.List, ast.Tuple)) and all(isinstance(x, ast.Constant) and isinstance(x.value, str) for x in r.elts):
                a, ta = self.expr(l, narrowed)
                if ta in ('optstr', 'str'):
                    a = a if ta == 'optstr' else '(Some %s)' % a
                    return '(optstr_in %s [%s])' % (a, '; '.join('(%s%%N : str)' % lit(x.value) for x in r.elts)), 'bool'
            if isinstance(op, (ast.Eq, ast.NotEq)):
                a, ta = self.expr(l, narrowed); b, tb = self.expr(r, narrowed)
                if ta == tb == 'str':
                    t = '(beq %s %s)' % (a, b)
                    return (t if isinstance(op, ast.Eq) else '(negb %s)' % t), 'bool'
            self.fail(e, 'comparison')
        if isinstance(e, ast.UnaryOp) and isinstance(e.op, ast.Not):
            return '(negb %s)' % self.truth(e.operand, narrowed), 'bool'
        if isinstance(e, ast.BoolOp) and isinstance(e.op, ast.And):
            return self.truth(e, narrowed), 'bool'
        self.fail(e, 'expression outside the subset')

    def truth(self, e, narrowed=()):
        """Coq bool for the Python truth value of e"""
        if isinstance(e, ast.BoolOp) and isinstance(e.op, ast.And):
            first, rest = e.values[0], e.values[1:]
            restnode = rest[0] if len(rest) == 1 else ast.BoolOp(op=ast.And(), values=rest)
            if isinstance(first, ast.Name) and self.types.get(first.id) == 'optstr' and first.id not in narrowed:
                # `x and ...`: the rest is evaluated only when x is a non-empty str
                inner = self.truth(restnode, tuple(narrowed) + (first.id,))
                return '(match %s with Some (c_ :: r_) => let %s_s := (c_ :: r_) in %s | _ => false end)' % (self.var(first.id), first.id, inner)
            return '(%s && %s)' % (self.truth(first, narrowed), self.truth(restnode, narrowed))
        c, t = self.expr(e, narrowed)
        if t == 'bool': return c
        if t == 'optstr': return '(truthy %s)' % c
        if t == 'str': return '(truthy (Some %s))' % c
        self.fail(e, 'truth value of a %s' % t)

    def var(self, name):
        return name + '_' if name in ('match', 'end', 'in', 'fix', 'let', 'fun', 'if', 'then', 'else', 'as', 'return', 'with') else name

    # ---- statements
    def block(self, stmts):
        if not stmts:
            raise GenError('string_to_bytes: control reaches the end of the function (returns None)')
        s, rest = stmts[0], stmts[1:]
        if isinstance(s, ast.Expr) and isinstance(s.value, ast.Constant) and isinstance(s.value.value, str):
            return self.block(rest)
        # try: return int(math.ceil(x)) / except E: handler      (only E raised by the call is diverted)
        if (isinstance(s, ast.Try) and not s.orelse and not s.finalbody and len(s.body) == 1 and len(s.handlers) == 1
                and isinstance(s.body[0], ast.Return) and isinstance(s.handlers[0].type, ast.Name) and s.handlers[0].name is None
                and s.handlers[0].type.id in ('OverflowError', 'ValueError', 'TypeError')):
            ret = self.block([s.body[0]])
            pre = 'match ceil_to_Z '
            if not ret.startswith(pre): self.fail(s, 'try around a return that cannot raise')
            x = ret[len(pre):].split(' ')[0]
            saved = dict(self.types)
            handler = self.block(s.handlers[0].body + rest)
            self.types = dict(saved)
            return ('match ceil_to_Z %s with\n| Ok z_ => Ok (NInt z_)\n| Exn e_ => match e_ with %s => (\n%s)\n| _ => Exn e_ end\nend'
                    % (x, s.handlers[0].type.id, handler))
        # try: a, b = TABLE[key] / except KeyError: handler
        if isinstance(s, ast.Try):
            if s.orelse or s.finalbody or len(s.body) != 1 or len(s.handlers) != 1: self.fail(s, 'try shape')
            a, h = s.body[0], s.handlers[0]
            ok = (isinstance(a, ast.Assign) and len(a.targets) == 1 and isinstance(a.targets[0], ast.Tuple) and len(a.targets[0].elts) == 2
                  and all(isinstance(x, ast.Name) for x in a.targets[0].elts)
                  and isinstance(a.value, ast.Subscript) and isinstance(a.value.value, ast.Name) and a.value.value.id == 'UNIT_SYSTEM_INFO'
                  and isinstance(a.value.slice, ast.Name) and self.types.get(a.value.slice.id) == 'str'
                  and isinstance(h.type, ast.Name) and h.type.id == 'KeyError' and h.name is None)
            if not ok: self.fail(s, 'try shape')
            saved = dict(self.types)
            handler = self.block(h.body + rest)
            self.types = dict(saved)
            x, y = (t.id for t in a.targets[0].elts)
            self.types[x] = 'optint'; self.types[y] = 'regex'
            body = self.block(rest)
            return 'match lookup %s unit_system_info with\n| None => (\n%s)\n| Some (%s, %s) => (\n%s)\nend' % (
                self.var(a.value.slice.id), handler, self.var(x), self.var(y), body)
        if isinstance(s, ast.Raise):
            exc = s.exc
            name = exc.func.id if isinstance(exc, ast.Call) and isinstance(exc.func, ast.Name) else None
            if name not in ('ValueError', 'TypeError', 'KeyError', 'OverflowError'): self.fail(s, 'raise')
            for a in exc.args:
                inline = (isinstance(a, ast.BinOp) and isinstance(a.op, ast.Mod) and isinstance(a.left, ast.Call) and isinstance(a.left.func, ast.Name)
                          and a.left.func.id == '_' and len(a.left.args) == 1 and isinstance(a.left.args[0], ast.Constant)
                          and isinstance(a.left.args[0].value, str) and a.left.args[0].value.count('%') == 1 and '%s' in a.left.args[0].value
                          and isinstance(a.right, ast.Name) and self.types.get(a.right.id) == 'str')
                if not inline and not (isinstance(a, ast.Name) and self.types.get(a.id) == 'msg'): self.fail(s, 'raise argument')
            return 'Exn %s' % name
        if isinstance(s, ast.Return):
            v = s.value
            if isinstance(v, ast.Name) and self.types.get(v.id) == 'float':
                return 'Ok (NFloat %s)' % self.var(v.id)
            # int(math.ceil(x))
            if (isinstance(v, ast.Call) and isinstance(v.func, ast.Name) and v.func.id == 'int' and len(v.args) == 1 and not v.keywords
                    and isinstance(v.args[0], ast.Call) and ast.unparse(v.args[0].func) == 'math.ceil' and len(v.args[0].args) == 1
                    and isinstance(v.args[0].args[0], ast.Name) and self.types.get(v.args[0].args[0].id) == 'float'):
                return 'match ceil_to_Z %s with Exn e_ => Exn e_ | Ok z_ => Ok (NInt z_) end' % self.var(v.args[0].args[0].id)
            self.fail(s, 'return')
        if isinstance(s, ast.AugAssign):
            load = ast.Name(id=s.target.id, ctx=ast.Load()) if isinstance(s.target, ast.Name) else None
            if load is None: self.fail(s, 'augmented assignment target')
            return self.block([ast.Assign(targets=[s.target], value=ast.BinOp(left=load, op=s.op, right=s.value))] + rest)
        if isinstance(s, ast.Assign) and len(s.targets) == 1 and isinstance(s.targets[0], ast.Name):
            return self.assign(s.targets[0].id, s.value, rest, s)
        if isinstance(s, ast.If):
            return self.if_(s, rest)
        self.fail(s, 'statement outside the subset')

    def bind(self, name, ty, node):
        old = self.types.get(name)
        if old is not None and old != ty and not (old == 'optstr' and ty == 'str') and not (old == 'optint' and ty == 'int'):
            self.fail(node, 'variable %s changes type %s -> %s' % (name, old, ty))

    def assign(self, name, v, rest, node):
        # msg = _('...') % x      (message text: not part of the model)
        if (isinstance(v, ast.BinOp) and isinstance(v.op, ast.Mod) and isinstance(v.left, ast.Call) and isinstance(v.left.func, ast.Name)
                and v.left.func.id == '_' and len(v.left.args) == 1 and isinstance(v.left.args[0], ast.Constant)
                and isinstance(v.left.args[0].value, str) and v.left.args[0].value.count('%') == 1 and '%s' in v.left.args[0].value
                and isinstance(v.right, ast.Name) and self.types.get(v.right.id) == 'str'):
            self.types[name] = 'msg'
            return self.block(rest)
        # m = regex.match(subject)
        if (isinstance(v, ast.Call) and isinstance(v.func, ast.Attribute) and v.func.attr == 'match' and isinstance(v.func.value, ast.Name)
                and self.types.get(v.func.value.id) == 'regex' and len(v.args) == 1 and not v.keywords
                and isinstance(v.args[0], ast.Name) and self.types.get(v.args[0].id) == 'str'):
            self.types[name] = 'match'; self.subject[name] = v.args[0].id
            return 'let %s := rz_match %s %s in\n%s' % (self.var(name), self.var(v.func.value.id), self.var(v.args[0].id), self.block(rest))
        # x = float(e)
        if isinstance(v, ast.Call) and isinstance(v.func, ast.Name) and v.func.id == 'float' and len(v.args) == 1 and not v.keywords:
            a, ta = self.expr(v.args[0])
            if ta == 'str': a = '(Some %s)' % a
            elif ta != 'optstr': self.fail(node, 'float() of a %s' % ta)
            self.bind(name, 'float', node); self.types[name] = 'float'
            return 'match float_of_optstr %s with Exn e_ => Exn e_ | Ok %s =>\n%s end' % (a, self.var(name), self.block(rest))
        # x = f / k ; x = f * pow(b, TABLE[p]) ; x = f
        if isinstance(v, ast.BinOp) and isinstance(v.left, ast.Name) and self.types.get(v.left.id) == 'float':
            f = self.var(v.left.id)
            if isinstance(v.op, ast.Div) and isinstance(v.right, ast.Constant) and isinstance(v.right.value, int) and not isinstance(v.right.value, bool):
                self.bind(name, 'float', node); self.types[name] = 'float'
                return 'match f_div_int %s (%d)%%Z with Exn e_ => Exn e_ | Ok %s =>\n%s end' % (f, v.right.value, self.var(name), self.block(rest))
            r = v.right
            if (isinstance(v.op, ast.Mult) and isinstance(r, ast.Call) and isinstance(r.func, ast.Name) and r.func.id == 'pow' and len(r.args) == 2 and not r.keywords
                    and isinstance(r.args[0], ast.Name) and self.types.get(r.args[0].id) in ('optint', 'int')
                    and isinstance(r.args[1], ast.Subscript) and isinstance(r.args[1].value, ast.Name) and r.args[1].value.id == 'UNIT_PREFIX_EXPONENT'
                    and isinstance(r.args[1].slice, ast.Name) and self.types.get(r.args[1].slice.id) in ('optstr', 'str')):
                b = self.var(r.args[0].id) if self.types[r.args[0].id] == 'optint' else '(Some %s)' % self.var(r.args[0].id)
                k = self.var(r.args[1].slice.id) if self.types[r.args[1].slice.id] == 'optstr' else '(Some %s)' % self.var(r.args[1].slice.id)
                self.bind(name, 'float', node); self.types[name] = 'float'
                return ('match lookup_opt %s unit_prefix_exponent with None => Exn KeyError | Some e_ =>\n'
                        'match py_pow %s e_ with Exn x_ => Exn x_ | Ok p_ =>\n'
                        'match f_mul_int %s p_ with Exn x_ => Exn x_ | Ok %s =>\n%s end end end' % (k, b, f, self.var(name), self.block(rest)))
            self.fail(node, 'float arithmetic')
        c, t = self.expr(v)
        if t == 'int' and self.types.get(name) in ('optint', None):
            self.types[name] = 'optint'
            return 'let %s := Some %s in\n%s' % (self.var(name), c, self.block(rest))
        if t == 'str' and self.types.get(name) in ('optstr', None):
            self.types[name] = 'optstr'
            return 'let %s := Some %s in\n%s' % (self.var(name), c, self.block(rest))
        if t in ('optstr', 'float', 'bool', 'str'):
            self.bind(name, t, node); self.types[name] = t
            return 'let %s := %s in\n%s' % (self.var(name), c, self.block(rest))
        self.fail(node, 'assignment')

    def if_(self, s, rest):
        t = s.test
        saved = dict(self.types)
        def branches(cond):
            a = self.block(s.body + rest); ta = dict(self.types)
            self.types = dict(saved)
            b = self.block(s.orelse + rest)
            self.types = dict(saved)
            return 'if %s then (\n%s) else (\n%s)' % (cond, a, b)
        # if m:  (a match object is always true, None is false)
        if isinstance(t, ast.Name) and self.types.get(t.id) == 'match':
            a = self.block(s.body + rest)
            self.types = dict(saved)
            b = self.block(s.orelse + rest)
            self.types = dict(saved)
            return 'match %s with\n| Some (_, g_%s) => (\n%s)\n| None => (\n%s)\nend' % (self.var(t.id), t.id, a, b)
        # if x.method == const:   a bound method never equals a constant; None.method raises AttributeError
        if (isinstance(t, ast.Compare) and len(t.ops) == 1 and isinstance(t.ops[0], ast.Eq) and isinstance(t.left, ast.Attribute)
                and isinstance(t.left.value, ast.Name) and self.types.get(t.left.value.id) == 'optstr'
                and t.left.attr in ('startswith', 'endswith', 'lower', 'upper', 'strip') and isinstance(t.comparators[0], ast.Constant)):
            inner = branches('false')
            return 'match %s with\n| None => Exn AttributeError\n| Some _ => (\n%s)\nend' % (self.var(t.left.value.id), inner)
        if isinstance(t, ast.Name) and self.types.get(t.id) == 'bool':
            return branches(self.var(t.id))
        return branches(self.truth(t))

def generate_code():
    failclosed.check_all(FAILCLOSED['generate_code'])
    tree = repo_ast('oslo_utils/strutils.py')
    f = find_def(tree, 'string_to_bytes')
    argn = [a.arg for a in f.args.args]
    if argn != ['text', 'unit_system', 'return_int'] or f.args.vararg or f.args.kwarg or f.args.kwonlyargs:
        raise GenError('string_to_bytes: signature changed: %s' % argn)
    dflt = [ast.literal_eval(d) for d in f.args.defaults]
    if dflt != ['IEC', False]: raise GenError('string_to_bytes: defaults changed: %r' % (dflt,))
    # `math`, `_`, the two tables must be the module-level ones
    for n in ast.walk(f):
        if isinstance(n, (ast.Global, ast.Nonlocal, ast.Lambda, ast.FunctionDef)) and n is not f:
            raise GenError('string_to_bytes: nested scope construct')
    for n in ast.walk(f):
        if isinstance(n, ast.Name) and n.id == 'units':
            raise GenError('string_to_bytes reads oslo_utils.units (the multipliers are no longer base ** UNIT_PREFIX_EXPONENT[prefix] alone)')
    sm = repo_import('oslo_utils.strutils')
    import types as _types
    for k, v in vars(sm).items():
        if isinstance(v, _types.ModuleType) and v.__name__ == 'oslo_utils.units':
            raise GenError('oslo_utils.strutils imports oslo_utils.units as %s' % k)
    tr = _Tr([('text', 'str'), ('unit_system', 'str'), ('return_int', 'bool')])
    body = tr.block(f.body)
    out = [HEADER % ('oslo_utils/strutils.py', 'tools/gen/gen_C10.py (statement-level)')]
    out.append('Require Import OV.Base.Bytes OV.Base.Py OV.Base.PyInt OV.Base.Str OV.Base.Regex OV.Base.PyFloat.')
    out.append('Require Import OV.Model.C10_Regex OV.Gen.C10_Units OV.Model.C10.')
    out.append('Open Scope Z_scope.')
    out.append('Definition gen_default_unit_system : str := %s%%N.' % lit(dflt[0]))
    out.append('Definition gen_string_to_bytes (text unit_system : str) (return_int : bool) : res num :=\n%s.' % body)
    return '\n'.join(out) + '\n'


# ---------------------------------------------------------------------------------------------------
# QemuImgInfo (human format): statement-level translation of _canonicalize, _extract_bytes and of the
# size-field branch of _extract_details (Gen/C10_QemuCode.v), plus TOP_LEVEL_RE.
# ---------------------------------------------------------------------------------------------------
FAILCLOSED['generate_qemu'] = [
    {'src': 'oslo_utils/imageutils/qemu.py', 'mod': 'oslo_utils.imageutils.qemu',
     'classes': {'QemuImgInfo': {}},
     'functions': {'QemuImgInfo._canonicalize': {'defaults': {}}, 'QemuImgInfo._extract_bytes': {'defaults': {}},
                   'QemuImgInfo._extract_details': {'defaults': {}}, 'QemuImgInfo._parse': {'defaults': {}}},
     'constants': ['QemuImgInfo.SIZE_RE', 'QemuImgInfo.TOP_LEVEL_RE'],
     'imports': {'re': 're', 'strutils': 'oslo_utils.strutils', '_': 'oslo_utils._i18n:_'}},
    # _extract_bytes calls string_to_bytes(text, return_int=True): the model hard-wires the default unit system (s2b_int)
    {'src': 'oslo_utils/strutils.py', 'mod': 'oslo_utils.strutils',
     'functions': {'string_to_bytes': {'defaults': {'unit_system': "'IEC'", 'return_int': 'False'}}}}]

class _TrQ(_Tr):
    """the int-returning methods of QemuImgInfo: values are str-or-None, results are `res Z`"""
    def __init__(self, params, what):
        _Tr.__init__(self, params)
        self.what = what

    def fail(self, node, why):
        raise GenError('%s: %s: %s' % (self.what, why, ast.unparse(node)[:80]))

    def expr(self, e, narrowed=()):
        # len(x) for a narrowed str
        if isinstance(e, ast.Call) and isinstance(e.func, ast.Name) and e.func.id == 'len' and len(e.args) == 1 and not e.keywords:
            a, ta = self.expr(e.args[0], narrowed)
            if ta == 'str': return '(zlen %s)' % a, 'int'
            self.fail(e, 'len of a possibly-None value')
        if isinstance(e, ast.Compare) and len(e.ops) == 1 and isinstance(e.ops[0], (ast.Eq, ast.NotEq)):
            a, ta = self.expr(e.left, narrowed); b, tb = self.expr(e.comparators[0], narrowed)
            if ta == tb == 'int':
                t = '(%s =? %s)%%Z' % (a, b)
                return (t if isinstance(e.ops[0], ast.Eq) else '(negb %s)' % t), 'bool'
            if ta == tb == 'str':
                t = '(beq %s %s)' % (a, b)
                return (t if isinstance(e.ops[0], ast.Eq) else '(negb %s)' % t), 'bool'
            self.fail(e, 'comparison')
        # "c" in x.lower()   for a narrowed str x
        if (isinstance(e, ast.Compare) and len(e.ops) == 1 and isinstance(e.ops[0], ast.In) and isinstance(e.left, ast.Constant)
                and isinstance(e.left.value, str) and e.left.value
                and isinstance(e.comparators[0], ast.Call) and isinstance(e.comparators[0].func, ast.Attribute)
                and e.comparators[0].func.attr == 'lower' and not e.comparators[0].args and not e.comparators[0].keywords):
            o, to = self.expr(e.comparators[0].func.value, narrowed)
            if to == 'str': return '(occursb (%s%%N : str) (py_lower %s))' % (lit(e.left.value), o), 'bool'
            self.fail(e, 'method call on a possibly-None value')
        return _Tr.expr(self, e, narrowed)

    def optvars_needing_value(self, test):
        """names of str-or-None variables the test dereferences (len(x), x.method(...)): None there raises"""
        out = []
        for n in ast.walk(test):
            v = None
            if isinstance(n, ast.Call) and isinstance(n.func, ast.Name) and n.func.id == 'len' and len(n.args) == 1 and isinstance(n.args[0], ast.Name):
                v, exn = n.args[0].id, 'TypeError'
            elif isinstance(n, ast.Call) and isinstance(n.func, ast.Attribute) and isinstance(n.func.value, ast.Name):
                v, exn = n.func.value.id, 'AttributeError'
            if v is not None and self.types.get(v) == 'optstr' and v not in [x for x, _ in out]:
                out.append((v, exn))
        return out

    def int_of(self, e):
        """Coq `res Z` for the Python expression int(e), e str-or-None"""
        a, ta = self.expr(e)
        if ta == 'str': a = '(Some %s)' % a
        elif ta != 'optstr': self.fail(e, 'int() of a %s' % ta)
        return '(int_of_optstr %s)' % a

    def block(self, stmts):
        if not stmts:
            raise GenError('%s: control reaches the end of the function (returns None)' % self.what)
        s, rest = stmts[0], stmts[1:]
        if isinstance(s, ast.Return):
            v = s.value
            if isinstance(v, ast.Name) and self.types.get(v.id) == 'int':
                return 'Ok %s' % self.var(v.id)
            if isinstance(v, ast.Name) and self.types.get(v.id) == 'str':
                return self.var(v.id)
            if isinstance(v, ast.Call) and isinstance(v.func, ast.Name) and v.func.id == 'int' and len(v.args) == 1 and not v.keywords:
                return self.int_of(v.args[0])
            # strutils.string_to_bytes('{}{}'.format(a, b), return_int=True)
            if (isinstance(v, ast.Call) and ast.unparse(v.func) == 'strutils.string_to_bytes' and len(v.args) == 1
                    and [(k.arg, isinstance(k.value, ast.Constant) and k.value.value) for k in v.keywords] == [('return_int', True)]):
                f = v.args[0]
                if (isinstance(f, ast.Call) and isinstance(f.func, ast.Attribute) and f.func.attr == 'format' and not f.keywords
                        and isinstance(f.func.value, ast.Constant) and isinstance(f.func.value.value, str)
                        and f.func.value.value == '{}' * len(f.args) and f.args):
                    parts = []
                    for a in f.args:
                        c, t = self.expr(a)
                        if t == 'str': c = '(Some %s)' % c
                        elif t != 'optstr': self.fail(s, 'format() argument')
                        parts.append('str_of_optstr %s' % c)
                    return '(s2b_int (%s))' % ' ++ '.join(parts)
            self.fail(s, 'return')
        if isinstance(s, ast.Raise) or isinstance(s, ast.Try):
            return _Tr.block(self, stmts) if isinstance(s, ast.Raise) else self.try_(s, rest)
        return _Tr.block(self, stmts)

    def try_(self, s, rest):
        # try: x = self._extract_bytes(y) / except E: <handler>      (E raised by the call is diverted to the handler)
        if s.orelse or s.finalbody or len(s.body) != 1 or len(s.handlers) != 1 or not isinstance(s.body[0], ast.Assign):
            self.fail(s, 'try shape')
        h = s.handlers[0]
        names = [h.type.id] if isinstance(h.type, ast.Name) else ([x.id for x in h.type.elts] if isinstance(h.type, ast.Tuple) and all(isinstance(x, ast.Name) for x in h.type.elts) else None)
        if h.type is None or (names and 'Exception' in names) or (names and 'BaseException' in names): names = ['_']
        if not names or h.name is not None: self.fail(s, 'except clause')
        call = self.raising_call(s.body[0].value)
        if call is None: self.fail(s, 'try body is not a raising call')
        saved = dict(self.types)
        handler = self.block(h.body + rest)
        self.types = dict(saved)
        name = s.body[0].targets[0].id
        self.types[name] = 'int'
        ok = self.block(rest)
        pats = ' | '.join(names)
        return 'match %s with\n| Ok %s => (\n%s)\n| Exn e_ => match e_ with %s => (\n%s)%s end\nend' % (
            call, self.var(name), ok, pats, handler, '' if names == ['_'] else '\n| _ => Exn e_')

    def raising_call(self, v):
        if (isinstance(v, ast.Call) and ast.unparse(v.func) == 'self._extract_bytes' and len(v.args) == 1 and not v.keywords):
            a, ta = self.expr(v.args[0])
            if ta == 'str': return '(gen_extract_bytes %s)' % a
        return None

    def assign(self, name, v, rest, node):
        # m = self.SIZE_RE.search(subject)
        if (isinstance(v, ast.Call) and ast.unparse(v.func) == 'self.SIZE_RE.search' and len(v.args) == 1 and not v.keywords
                and isinstance(v.args[0], ast.Name) and self.types.get(v.args[0].id) == 'str'):
            self.types[name] = 'match'; self.subject[name] = v.args[0].id
            return 'let %s := search_groups size_re %s in\n%s' % (self.var(name), self.var(v.args[0].id), self.block(rest))
        # x = format(float(e), '.0f')
        if (isinstance(v, ast.Call) and isinstance(v.func, ast.Name) and v.func.id == 'format' and len(v.args) == 2 and not v.keywords
                and isinstance(v.args[1], ast.Constant) and v.args[1].value == '.0f'
                and isinstance(v.args[0], ast.Call) and isinstance(v.args[0].func, ast.Name) and v.args[0].func.id == 'float'
                and len(v.args[0].args) == 1 and not v.args[0].keywords):
            a, ta = self.expr(v.args[0].args[0])
            if ta == 'str': a = '(Some %s)' % a
            elif ta != 'optstr': self.fail(node, 'float() of a %s' % ta)
            if self.types.get(name) not in (None, 'optstr'): self.fail(node, 'retyped variable')
            self.types[name] = 'optstr'
            return 'match float_of_optstr %s with Exn e_ => Exn e_ | Ok f_ =>\nlet %s := Some (float_fmt_f0 f_) in\n%s end' % (a, self.var(name), self.block(rest))
        # x = x + 'B'  (from x += 'B') for a str-or-None x
        if (isinstance(v, ast.BinOp) and isinstance(v.op, ast.Add) and isinstance(v.left, ast.Name) and v.left.id == name
                and self.types.get(name) == 'optstr' and isinstance(v.right, ast.Constant) and isinstance(v.right.value, str)):
            return 'match %s with None => Exn TypeError | Some x_s =>\nlet %s := Some (x_s ++ (%s%%N : str)) in\n%s end' % (
                self.var(name), self.var(name), lit(v.right.value), self.block(rest))
        # x = self._extract_bytes(y)
        call = self.raising_call(v)
        if call is not None:
            if self.types.get(name) not in (None, 'int'): self.fail(node, 'retyped variable')
            self.types[name] = 'int'
            return 'match %s with Exn e_ => Exn e_ | Ok %s =>\n%s end' % (call, self.var(name), self.block(rest))
        # x = 0
        if isinstance(v, ast.Constant) and isinstance(v.value, int) and not isinstance(v.value, bool):
            if self.types.get(name) not in (None, 'int'): self.fail(node, 'retyped variable')
            self.types[name] = 'int'
            return 'let %s := (%d)%%Z in\n%s' % (self.var(name), v.value, self.block(rest))
        # field = field.lower().strip()
        if (isinstance(v, ast.Call) and isinstance(v.func, ast.Attribute) and v.func.attr == 'strip' and not v.args and not v.keywords
                and isinstance(v.func.value, ast.Call) and isinstance(v.func.value.func, ast.Attribute) and v.func.value.func.attr == 'lower'
                and not v.func.value.args and isinstance(v.func.value.func.value, ast.Name) and self.types.get(v.func.value.func.value.id) == 'str'):
            self.types[name] = 'str'
            return 'let %s := strip (py_lower %s) in\n%s' % (self.var(name), self.var(v.func.value.func.value.id), self.block(rest))
        return _Tr.assign(self, name, v, rest, node)

    def if_(self, s, rest):
        t = s.test
        saved = dict(self.types)
        # if not m:   for a match object
        if isinstance(t, ast.UnaryOp) and isinstance(t.op, ast.Not) and isinstance(t.operand, ast.Name) and self.types.get(t.operand.id) == 'match':
            m = t.operand.id
            a = self.block(s.body + rest)
            self.types = dict(saved)
            b = self.block(s.orelse + rest)
            self.types = dict(saved)
            return 'match %s with\n| None => (\n%s)\n| Some g_%s => (\n%s)\nend' % (self.var(m), a, m, b)
        need = self.optvars_needing_value(t)
        if need:
            # the test dereferences str-or-None variables: None raises, otherwise the test is evaluated on the str
            cond = self.truth(t, tuple(v for v, _ in need))
            a = self.block(s.body + rest); self.types = dict(saved)
            b = self.block(s.orelse + rest); self.types = dict(saved)
            inner = 'if %s then (\n%s) else (\n%s)' % (cond, a, b)
            for v, exn in reversed(need):
                inner = 'match %s with\n| None => Exn %s\n| Some %s_s => (\n%s)\nend' % (self.var(v), exn, v, inner)
            return inner
        return _Tr.if_(self, s, rest)

def _canonicalize_code(fn):
    """def _canonicalize(self, field): field = field.lower().strip(); for c in (consts): field = field.replace(c, const); return field"""
    if [a.arg for a in fn.args.args] != ['self', 'field']: raise GenError('_canonicalize: signature')
    body = [s for s in fn.body if not (isinstance(s, ast.Expr) and isinstance(s.value, ast.Constant))]
    out = []
    tr = _TrQ([('field', 'str')], '_canonicalize')
    for s in body[:-1]:
        if isinstance(s, ast.Assign) and len(s.targets) == 1 and isinstance(s.targets[0], ast.Name) and s.targets[0].id == 'field':
            txt = tr.assign('field', s.value, [ast.Return(value=ast.Name(id='field', ctx=ast.Load()))], s)
            out.append(txt.rsplit('\n', 1)[0])
        elif (isinstance(s, ast.For) and not s.orelse and isinstance(s.target, ast.Name) and isinstance(s.iter, (ast.Tuple, ast.List))
              and all(isinstance(x, ast.Constant) and isinstance(x.value, str) and x.value for x in s.iter.elts) and len(s.body) == 1):
            b = s.body[0]
            ok = (isinstance(b, ast.Assign) and ast.unparse(b.targets[0]) == 'field' and isinstance(b.value, ast.Call)
                  and ast.unparse(b.value.func) == 'field.replace' and len(b.value.args) == 2 and not b.value.keywords
                  and isinstance(b.value.args[0], ast.Name) and b.value.args[0].id == s.target.id
                  and isinstance(b.value.args[1], ast.Constant) and isinstance(b.value.args[1].value, str))
            if not ok: raise GenError('_canonicalize: loop body: ' + ast.unparse(b))
            for x in s.iter.elts:      # the loop over a literal tuple, unrolled
                out.append('let field := replace (%s%%N : str) (%s%%N : str) field in' % (lit(x.value), lit(b.value.args[1].value)))
        else:
            raise GenError('_canonicalize: statement outside the subset: ' + ast.unparse(s)[:60])
    if not (isinstance(body[-1], ast.Return) and ast.unparse(body[-1].value) == 'field'): raise GenError('_canonicalize: return')
    return 'Definition gen_canonicalize (field : str) : str :=\n%s\nfield.' % '\n'.join(out)

def generate_qemu():
    got = failclosed.check_all(FAILCLOSED['generate_qemu'])
    q = repo_import('oslo_utils.imageutils.qemu')
    tree = repo_ast('oslo_utils/imageutils/qemu.py')
    fb = find_def(tree, '_extract_bytes', 'QemuImgInfo')
    if [a.arg for a in fb.args.args] != ['self', 'details'] or fb.args.defaults: raise GenError('_extract_bytes: signature')
    eb = _TrQ([('details', 'str')], '_extract_bytes').block(fb.body)
    # _extract_details: real_details = root_details ; if/elif chain on root_cmd ; return real_details
    fd = find_def(tree, '_extract_details', 'QemuImgInfo')
    if [a.arg for a in fd.args.args] != ['self', 'root_cmd', 'root_details', 'lines_after'] or fd.args.defaults:
        raise GenError('_extract_details: signature')
    body = [s for s in fd.body if not (isinstance(s, ast.Expr) and isinstance(s.value, ast.Constant))]
    if not (len(body) == 3 and ast.unparse(body[0]) == 'real_details = root_details' and isinstance(body[1], ast.If)
            and ast.unparse(body[2]) == 'return real_details'):
        raise GenError('_extract_details: not "real_details = root_details; if/elif chain; return real_details"')
    def chain(node):
        tr = _TrQ([('root_cmd', 'str'), ('root_details', 'str')], '_extract_details')
        test, ty = tr.expr(node.test)        # every test of the chain must be a pure test on root_cmd
        if ty != 'bool' or any(isinstance(n, ast.Name) and n.id not in ('root_cmd',) for n in ast.walk(node.test)):
            raise GenError('_extract_details: test outside the subset: ' + ast.unparse(node.test))
        is_size = (isinstance(node.test, ast.Compare) and isinstance(node.test.ops[0], ast.In)
                   and any(isinstance(x, ast.Constant) and x.value == 'virtual_size' for x in node.test.comparators[0].elts))
        if is_size:
            tr.types['real_details'] = None; del tr.types['real_details']
            then = 'Some (\n%s)' % tr.block(node.body + [body[2]])
        else:
            then = 'None'      # another kind of field: not modelled here
        if not node.orelse: els = 'None'
        elif len(node.orelse) == 1 and isinstance(node.orelse[0], ast.If): els = chain(node.orelse[0])
        else: raise GenError('_extract_details: else branch')
        return 'if %s then %s else (\n%s)' % (test, then, els)
    sd = chain(body[1])
    out = [HEADER % ('oslo_utils/imageutils/qemu.py', 'tools/gen/gen_C10.py (statement-level)')]
    out.append('Require Import OV.Base.Bytes OV.Base.Py OV.Base.PyInt OV.Base.Str OV.Base.Regex OV.Base.PyFloat.')
    out.append('Require Import OV.Model.C10_Regex OV.Gen.C10_Units OV.Model.C10.')
    out.append('Open Scope Z_scope.')
    out.append(_canonicalize_code(find_def(tree, '_canonicalize', 'QemuImgInfo')))
    out.append('Definition gen_extract_bytes (details : str) : res Z :=\n%s.' % eb)
    out.append('(* _extract_details restricted to the byte-size fields: None = another kind of field *)')
    out.append('Definition gen_size_details (root_cmd root_details : str) : option (res Z) :=\n%s.' % sd)
    return '\n'.join(out) + '\n'
