"""Gen/C10_Units.v from oslo_utils/strutils.py (UNIT_PREFIX_EXPONENT, UNIT_SYSTEM_INFO) and
oslo_utils/imageutils/qemu.py (QemuImgInfo.SIZE_RE).  Fail-closed."""
import re
from common import *
import regex_tr

_CS = re.compile(r'\[\(\d+,\d+\)(?:;\(\d+,\d+\))*\]')

def _cm(s):
    """text that is safe inside a Coq comment"""
    return s.replace('(*', '( *').replace('*)', '* )').replace('"', "''")

def _share_csets(terms):
    """name every distinct character set once (keeps the regex terms small for the proofs)"""
    names = {}
    def repl(m):
        t = m.group(0)
        if t not in names: names[t] = 'c10_cs%d' % len(names)
        return names[t]
    out = [_CS.sub(repl, t) for t in terms]
    defs = ['Definition %s : cset := %s.' % (n, t.replace(',', ', ')) for t, n in names.items()]
    return defs, out

def generate():
    m = repo_import('oslo_utils.strutils')
    q = repo_import('oslo_utils.imageutils.qemu')
    table = getattr(m, 'UNIT_PREFIX_EXPONENT', None)
    info = getattr(m, 'UNIT_SYSTEM_INFO', None)
    if not isinstance(table, dict) or not isinstance(info, dict):
        raise GenError('UNIT_PREFIX_EXPONENT / UNIT_SYSTEM_INFO are not dicts')
    for k, v in table.items():
        if not isinstance(k, str) or isinstance(v, bool) or not isinstance(v, int):
            raise GenError('UNIT_PREFIX_EXPONENT entry %r: %r is not str -> int' % (k, v))
    systems = []
    for k, v in info.items():
        if not isinstance(k, str) or not isinstance(v, tuple) or len(v) != 2:
            raise GenError('UNIT_SYSTEM_INFO entry %r is not str -> (base, regex)' % (k,))
        base, rx = v
        if not (base is None or (isinstance(base, int) and not isinstance(base, bool))) or not hasattr(rx, 'pattern'):
            raise GenError('UNIT_SYSTEM_INFO[%r] is not (int|None, compiled regex)' % (k,))
        systems.append((k, base, rx))
    size_re = getattr(q.QemuImgInfo, 'SIZE_RE', None)
    if not hasattr(size_re, 'pattern'): raise GenError('QemuImgInfo.SIZE_RE is not a compiled regex')
    try:
        terms = [regex_tr.regex_to_coq(rx)[0] for _, _, rx in systems] + [regex_tr.regex_to_coq(size_re)[0]]
    except regex_tr.Unsupported as e:
        raise GenError('regex outside the supported fragment: %s' % e)
    defs, terms = _share_csets(terms)
    out = [HEADER % ('oslo_utils/strutils.py, oslo_utils/imageutils/qemu.py', 'tools/gen/gen_C10.py')]
    out.append('Require Import OV.Base.Bytes OV.Base.PyInt OV.Base.Regex.')
    out.append('Open Scope N_scope.')
    out += defs
    out.append('(* UNIT_PREFIX_EXPONENT, in source order *)')
    out.append('Definition unit_prefix_exponent : list (str * Z) := [%s].' % '; '.join('(%s, %d%%Z)' % (lit(k), v) for k, v in table.items()))
    for i, (k, base, rx) in enumerate(systems):
        out.append('(* UNIT_SYSTEM_INFO[%r]: %s *)' % (k, _cm(rx.pattern)))
        out.append('Definition unit_re_%d : re := %s.' % (i, terms[i]))
    out.append('Definition unit_system_info : list (str * (option Z * re)) := [%s].' % '; '.join(
        '(%s, (%s, unit_re_%d))' % (lit(k), 'None' if base is None else 'Some %d%%Z' % base, i) for i, (k, base, rx) in enumerate(systems)))
    out.append('(* QemuImgInfo.SIZE_RE (flags %d): %s *)' % (size_re.flags, _cm(size_re.pattern)))
    out.append('Definition size_re : re := %s.' % terms[-1])
    return '\n'.join(out) + '\n'

if __name__ == '__main__':
    import sys
    sys.stdout.write(generate())
