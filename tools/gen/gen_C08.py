"""Gen/C08_Keys.v and Gen/C08_Shape.v from oslo_utils/strutils.py (property C08).

C08_Keys:   the evaluated module value _SANITIZE_KEYS.
C08_Shape:  the SHAPE of mask_dict_password, read from the AST and CHECKED fail-closed:

    def mask_dict_password(D, S=<str constant>):
        [docstring]
        if not isinstance(D, <cls>): raise <Exc>(...)
        OUT = {}
        for K, V in D.items():
            <loop body>
        return OUT

The loop body is written down, statement by statement, as a term of Model/C08_Syntax.v
(`list stmt`): isinstance tests on K / V, boolean flag assignments and reads, not/and/or,
if/elif/else, `continue`, `OUT[K] = <rhs>` with rhs one of
    mask_dict_password(V, secret=S) | mask_dict_password(V)      -> ARecurse SecGiven | SecDefault
    S                                                            -> ASecret
    mask_password(V, secret=S) | mask_password(V)                -> AMask SecGiven | SecDefault
    V                                                            -> AKeep
and the idiom
    for X in _SANITIZE_KEYS:
        if X in K.lower():        (or: if X in K:)
            <stmts not mentioning X>
            break
-> SAnyKey HLower|HRaw [stmts].   Anything else raises GenError (the runner then uses the committed
baseline copy and the tie rests on the correspondence check).  Nothing is guessed: the translator
is purely syntactic, the evaluation of the term happens in Coq (Model/C08.v: exec / run_body).
"""
import ast, inspect, collections, collections.abc
from common import *
import failclosed

SRC = 'oslo_utils/strutils.py'
FN = 'mask_dict_password'
# both functions must be the definitions bound to their names at run time (tools/gen/failclosed.py); the defaults are emitted
FAILCLOSED = {'generate_shape': [{'src': SRC, 'mod': 'oslo_utils.strutils',
    'functions': {FN: {'defaults': {'secret': failclosed.ANY}}, 'mask_password': {'defaults': {'secret': failclosed.ANY}}}}]}
FAILCLOSED['generate_frame'] = FAILCLOSED['generate_shape']
EXN_NAMES = ['KeyError', 'AttributeError', 'IndexError', 'ValueError', 'TypeError', 'RuntimeError',
             'UnicodeDecodeError', 'OverflowError', 'StopIteration', 'OSError']


def generate_keys():
    m = repo_import('oslo_utils.strutils')
    keys = getattr(m, '_SANITIZE_KEYS', None)
    if not isinstance(keys, (list, tuple)) or not all(type(k) is str for k in keys):
        raise GenError('_SANITIZE_KEYS is not a list of str')
    out = [HEADER % (SRC, 'tools/gen/gen_C08.py')]
    out.append('Require Import OV.Base.Bytes.')
    out.append('Open Scope N_scope.')
    out.append('(* _SANITIZE_KEYS, in source order (%d entries) *)' % len(keys))
    out.append('Definition gen_keys : list str := [\n  %s].' % ';\n  '.join(lit(k) for k in keys))
    return '\n'.join(out) + '\n'


class _Tr:
    def __init__(self, m, f):
        self.m = m
        self.f = f
        self.flags = {}

    # ---- helpers
    def ev(self, node):
        """evaluate a Name / dotted Attribute in the module namespace (classes, functions)"""
        n = node
        while isinstance(n, ast.Attribute):
            n = n.value
        if not isinstance(n, ast.Name):
            raise GenError('line %d: not a plain (dotted) name' % node.lineno)
        try:
            return eval(compile(ast.Expression(node), '<C08>', 'eval'), dict(vars(self.m)))
        except Exception as e:
            raise GenError('line %d: cannot resolve name: %s' % (node.lineno, e))

    def cls(self, node):
        c = self.ev(node)
        if c is collections.abc.Mapping: return 'CMapping'
        if c is dict: return 'CDict'
        if c is str: return 'CStr'
        raise GenError('line %d: isinstance against an unsupported class %r' % (node.lineno, c))

    def is_name(self, node, name):
        return isinstance(node, ast.Name) and node.id == name

    def mentions(self, node, name):
        return any(isinstance(n, ast.Name) and n.id == name for n in ast.walk(node))

    # ---- function frame
    def frame(self):
        f, m = self.f, self.m
        a = f.args
        if a.vararg or a.kwarg or a.kwonlyargs or a.posonlyargs or len(a.args) != 2 or len(a.defaults) != 1:
            raise GenError('%s: signature is not (D, S=default)' % FN)
        if f.decorator_list:
            raise GenError('%s: decorated' % FN)
        self.D, self.S = a.args[0].arg, a.args[1].arg
        d = a.defaults[0]
        if not (isinstance(d, ast.Constant) and type(d.value) is str):
            raise GenError('%s: default secret is not a str constant' % FN)
        self.default_secret = d.value
        sig = inspect.signature(m.mask_password)
        ps = list(sig.parameters.values())
        if len(ps) != 2 or type(ps[1].default) is not str:
            raise GenError('mask_password: signature is not (message, secret=<str>)')
        self.mp_secret_kw = ps[1].name
        self.mp_default_secret = ps[1].default
        body = list(f.body)
        if body and isinstance(body[0], ast.Expr) and isinstance(body[0].value, ast.Constant) and isinstance(body[0].value.value, str):
            body = body[1:]
        if len(body) != 4:
            raise GenError('%s: body is not guard / out = {} / for / return (%d statements)' % (FN, len(body)))
        g, init, loop, ret = body
        # guard
        ok = (isinstance(g, ast.If) and not g.orelse and isinstance(g.test, ast.UnaryOp) and isinstance(g.test.op, ast.Not)
              and self.is_isinstance(g.test.operand) and self.is_name(g.test.operand.args[0], self.D)
              and len(g.body) == 1 and isinstance(g.body[0], ast.Raise) and g.body[0].exc is not None and g.body[0].cause is None)
        if not ok:
            raise GenError('%s: first statement is not "if not isinstance(D, C): raise E(...)"' % FN)
        self.guard_cls = self.cls(g.test.operand.args[1])
        exc = g.body[0].exc
        if isinstance(exc, ast.Call): exc = exc.func
        e = self.ev(exc)
        if not (isinstance(e, type) and issubclass(e, BaseException)) or e.__name__ not in EXN_NAMES or e.__module__ != 'builtins':
            raise GenError('%s: raises an exception class outside the modelled enum' % FN)
        self.guard_exn = e.__name__
        # out = {}
        if not (isinstance(init, ast.Assign) and len(init.targets) == 1 and isinstance(init.targets[0], ast.Name)):
            raise GenError('%s: second statement is not OUT = ...' % FN)
        self.OUT = init.targets[0].id
        v = init.value
        if isinstance(v, ast.Dict) and not v.keys:
            self.out_kind = 0
        elif isinstance(v, ast.Call) and not v.args and not v.keywords and self.ev(v.func) is dict:
            self.out_kind = 0
        elif isinstance(v, ast.Call) and not v.args and not v.keywords and self.ev(v.func) is collections.OrderedDict:
            self.out_kind = 1
        else:
            raise GenError('%s: OUT is not initialised with a fresh empty dict' % FN)
        # loop
        ok = (isinstance(loop, ast.For) and not loop.orelse and isinstance(loop.target, ast.Tuple) and len(loop.target.elts) == 2
              and all(isinstance(x, ast.Name) for x in loop.target.elts)
              and isinstance(loop.iter, ast.Call) and not loop.iter.args and not loop.iter.keywords
              and isinstance(loop.iter.func, ast.Attribute) and loop.iter.func.attr == 'items' and self.is_name(loop.iter.func.value, self.D))
        if not ok:
            raise GenError('%s: third statement is not "for K, V in D.items():"' % FN)
        self.K, self.V = loop.target.elts[0].id, loop.target.elts[1].id
        if len({self.D, self.S, self.OUT, self.K, self.V}) != 5:
            raise GenError('%s: variable names collide' % FN)
        if not (isinstance(ret, ast.Return) and ret.value is not None and self.is_name(ret.value, self.OUT)):
            raise GenError('%s: last statement is not "return OUT"' % FN)
        # the five variables are bound nowhere else
        self.reserved = {self.D, self.S, self.OUT, self.K, self.V}
        return self.stmts(loop.body, inner=None)

    def is_isinstance(self, n):
        return (isinstance(n, ast.Call) and isinstance(n.func, ast.Name) and n.func.id == 'isinstance'
                and 'isinstance' not in vars(self.m) and len(n.args) == 2 and not n.keywords)

    # ---- conditions
    def cond(self, n):
        if self.is_isinstance(n):
            a = n.args[0]
            if self.is_name(a, self.K): subj = 'SubjKey'
            elif self.is_name(a, self.V): subj = 'SubjVal'
            else: raise GenError('line %d: isinstance of something other than the loop variables' % n.lineno)
            return '(CIsInst %s %s)' % (subj, self.cls(n.args[1]))
        if isinstance(n, ast.Name) and n.id in self.flags:
            return '(CFlag %d)' % self.flags[n.id]
        if isinstance(n, ast.UnaryOp) and isinstance(n.op, ast.Not):
            return '(CNot %s)' % self.cond(n.operand)
        if isinstance(n, ast.BoolOp):
            c = 'CAnd' if isinstance(n.op, ast.And) else 'COr'
            parts = [self.cond(x) for x in n.values]
            r = parts[-1]
            for p in reversed(parts[:-1]):
                r = '(%s %s %s)' % (c, p, r)
            return r
        raise GenError('line %d: unsupported condition %s' % (n.lineno, ast.dump(n)[:80]))

    # ---- right-hand sides
    def secarg(self, call, kwname):
        """how the call passes the secret on: (V, secret=S) | (V, S) -> SecGiven ; (V) -> SecDefault"""
        if not (call.args and self.is_name(call.args[0], self.V)):
            raise GenError('line %d: first argument of the call is not the loop value' % call.lineno)
        rest = [('pos', a) for a in call.args[1:]] + [(k.arg, k.value) for k in call.keywords]
        if not rest: return 'SecDefault'
        if len(rest) == 1 and rest[0][0] in ('pos', kwname) and self.is_name(rest[0][1], self.S):
            return 'SecGiven'
        raise GenError('line %d: unsupported arguments in call' % call.lineno)

    def action(self, n):
        if self.is_name(n, self.S): return 'ASecret'
        if self.is_name(n, self.V): return 'AKeep'
        if isinstance(n, ast.Call) and isinstance(n.func, ast.Name):
            if n.func.id == FN and vars(self.m).get(FN) is not None:
                return '(ARecurse %s)' % self.secarg(n, self.S)
            if n.func.id == 'mask_password' and self.ev(n.func) is self.m.mask_password:
                return '(AMask %s)' % self.secarg(n, self.mp_secret_kw)
        raise GenError('line %d: unsupported right-hand side %s' % (n.lineno, ast.dump(n)[:80]))

    # ---- statements
    def stmts(self, body, inner):
        return '[' + '; '.join(self.stmt(s, inner) for s in body) + ']'

    def stmt(self, s, inner):
        if isinstance(s, ast.Assign) and len(s.targets) == 1:
            t = s.targets[0]
            if (isinstance(t, ast.Subscript) and self.is_name(t.value, self.OUT) and self.is_name(t.slice, self.K)):
                return 'SOut %s' % self.action(s.value)
            if (isinstance(t, ast.Name) and t.id not in self.reserved and t.id != inner
                    and isinstance(s.value, ast.Constant) and type(s.value.value) is bool):
                if t.id not in self.flags: self.flags[t.id] = len(self.flags)
                return 'SFlag %d %s' % (self.flags[t.id], 'true' if s.value.value else 'false')
            raise GenError('line %d: unsupported assignment' % s.lineno)
        if isinstance(s, ast.If):
            return 'SIf %s %s %s' % (self.cond(s.test), self.stmts(s.body, inner), self.stmts(s.orelse, inner))
        if isinstance(s, ast.Continue):
            if inner is not None: raise GenError('line %d: continue inside the key loop' % s.lineno)
            return 'SContinue'
        if isinstance(s, ast.Pass):
            return 'SIf (CNot (CNot (CIsInst SubjVal CStr))) [] []'     # no-op
        if isinstance(s, ast.For):
            if inner is not None: raise GenError('line %d: nested key loop' % s.lineno)
            ok = (not s.orelse and isinstance(s.target, ast.Name) and s.target.id not in self.reserved and s.target.id not in self.flags
                  and self.is_name(s.iter, '_SANITIZE_KEYS') and len(s.body) == 1)
            if not ok: raise GenError('line %d: loop is not "for X in _SANITIZE_KEYS: if ...: ...; break"' % s.lineno)
            if any(isinstance(n, ast.Name) and n.id == '_SANITIZE_KEYS' and isinstance(n.ctx, ast.Store) for n in ast.walk(self.f)) \
               or any(isinstance(n, (ast.Global, ast.Nonlocal)) for n in ast.walk(self.f)):
                raise GenError('_SANITIZE_KEYS is rebound inside the function')
            X = s.target.id
            i = s.body[0]
            ok = (isinstance(i, ast.If) and not i.orelse and isinstance(i.test, ast.Compare) and len(i.test.ops) == 1
                  and isinstance(i.test.ops[0], ast.In) and self.is_name(i.test.left, X)
                  and len(i.body) >= 1 and isinstance(i.body[-1], ast.Break))
            if not ok: raise GenError('line %d: key loop body is not "if X in H: ...; break"' % s.lineno)
            h = i.test.comparators[0]
            if self.is_name(h, self.K): hay = 'HRaw'
            elif (isinstance(h, ast.Call) and not h.args and not h.keywords and isinstance(h.func, ast.Attribute)
                  and h.func.attr == 'lower' and self.is_name(h.func.value, self.K)): hay = 'HLower'
            else: raise GenError('line %d: keys are searched in something other than K or K.lower()' % s.lineno)
            inner_body = i.body[:-1]
            for b in inner_body:
                if self.mentions(b, X): raise GenError('line %d: the key loop body uses the loop variable' % b.lineno)
                if any(isinstance(n, (ast.Break, ast.Continue, ast.Return, ast.Raise)) for n in ast.walk(b)):
                    raise GenError('line %d: control flow inside the key loop body' % b.lineno)
            return 'SAnyKey %s %s' % (hay, self.stmts(inner_body, inner=X))
        raise GenError('line %d: unsupported statement %s' % (s.lineno, type(s).__name__))


def generate_shape():
    failclosed.check_all(FAILCLOSED['generate_shape'])
    m = repo_import('oslo_utils.strutils')
    tree = repo_ast(SRC)
    f = find_def(tree, FN)
    if sum(1 for n in tree.body if isinstance(n, ast.FunctionDef) and n.name == FN) != 1 or not inspect.isfunction(getattr(m, FN, None)):
        raise GenError('%s is not defined exactly once as a plain function' % FN)
    if sum(1 for n in ast.walk(tree) if isinstance(n, ast.Name) and n.id == FN and isinstance(n.ctx, ast.Store)):
        raise GenError('%s is rebound' % FN)
    tr = _Tr(m, f)
    body = tr.frame()
    out = [HEADER % (SRC, 'tools/gen/gen_C08.py')]
    out.append('Require Import OV.Base.Bytes OV.Base.Py OV.Model.C08_Syntax.')
    out.append('Open Scope N_scope.')
    out.append('(* if not isinstance(dictionary, <cls>): raise <exn>(...) *)')
    out.append('Definition gen_guard_cls : cls := %s.' % tr.guard_cls)
    out.append('Definition gen_guard_exn : exn := %s.' % tr.guard_exn)
    out.append('(* out = {}  -> 0 (dict) ; OrderedDict() -> 1 *)')
    out.append('Definition gen_out_kind : N := %d.' % tr.out_kind)
    out.append('(* default of the secret parameter of mask_dict_password / of mask_password *)')
    out.append('Definition gen_default_secret : str := %s.' % lit(tr.default_secret))
    out.append('Definition gen_mp_default_secret : str := %s.' % lit(tr.mp_default_secret))
    out.append('(* body of "for k, v in dictionary.items():"; flags: %s *)' % (', '.join('%s=%d' % kv for kv in tr.flags.items()) or 'none'))
    out.append('Definition gen_body : list stmt :=\n  %s.' % body)
    return '\n'.join(out) + '\n'


_DICT_MUTATORS = {'update', 'pop', 'popitem', 'setdefault', 'clear', '__setitem__', '__delitem__', 'move_to_end'}

def generate_frame():
    """Gen/C08_Frame.v — WHERE mask_dict_password writes and WHAT it returns (object identity):
         OUT = {} | dict() | OrderedDict() | D          -> gen_out_init  (InitFresh kind | InitArg)
         every  X[..] = .. / X[..] op= .. / del X[..] / X.update(..) ... in the function, X in {OUT, D}
                                                         -> gen_store_vars (which of the two variables are written to)
         return OUT | return D                           -> gen_return_var
       Tolerant on purpose (an in-place edit must be TRANSLATED so that the frame theorems break), but fail-closed:
       a write through any other name, a second dict-valued local, a rebinding of D or OUT, or any other return -> GenError."""
    failclosed.check_all(FAILCLOSED['generate_frame'])
    m = repo_import('oslo_utils.strutils')
    tree = repo_ast(SRC)
    f = find_def(tree, FN)
    if not f.args.args: raise GenError('%s has no parameter' % FN)
    D = f.args.args[0].arg
    params = {a.arg for a in f.args.args + f.args.kwonlyargs}
    body = list(f.body)
    if body and isinstance(body[0], ast.Expr) and isinstance(body[0].value, ast.Constant) and isinstance(body[0].value.value, str):
        body = body[1:]
    tr = _Tr(m, f)
    # the one top-level statement that initialises OUT
    inits = [s for s in body if isinstance(s, ast.Assign) and len(s.targets) == 1 and isinstance(s.targets[0], ast.Name)]
    if len(inits) != 1: raise GenError('%s: expected exactly one top-level "OUT = ..." statement' % FN)
    OUT = inits[0].targets[0].id
    if OUT in params: raise GenError('%s: a parameter is rebound' % FN)
    v = inits[0].value
    if isinstance(v, ast.Dict) and not v.keys: init = 'InitFresh 0'
    elif isinstance(v, ast.Call) and not v.args and not v.keywords and tr.ev(v.func) is dict: init = 'InitFresh 0'
    elif isinstance(v, ast.Call) and not v.args and not v.keywords and tr.ev(v.func) is collections.OrderedDict: init = 'InitFresh 1'
    elif isinstance(v, ast.Name) and v.id == D: init = 'InitArg'
    else: raise GenError('%s: OUT is initialised with something other than a fresh empty dict or the argument' % FN)
    # D and OUT are bound nowhere else
    for n in ast.walk(f):
        if isinstance(n, ast.Name) and isinstance(n.ctx, (ast.Store, ast.Del)) and n.id in (D, OUT) and n is not inits[0].targets[0]:
            raise GenError('%s: %s is rebound' % (FN, n.id))
        if isinstance(n, (ast.Global, ast.Nonlocal, ast.NamedExpr, ast.Lambda, ast.FunctionDef, ast.ClassDef)) and n is not f:
            raise GenError('%s: nested scope / global / walrus' % FN)
    # every write through a subscript or a mutating method
    written = []
    def note(base, node):
        if isinstance(base, ast.Name) and base.id in (D, OUT):
            w = 'VarArg' if base.id == D else 'VarOut'
            if w not in written: written.append(w)
        else:
            raise GenError('line %d: a write through something other than the argument or OUT' % node.lineno)
    for n in ast.walk(f):
        if isinstance(n, ast.Subscript) and isinstance(n.ctx, (ast.Store, ast.Del)): note(n.value, n)
        elif isinstance(n, ast.Attribute) and isinstance(n.ctx, (ast.Store, ast.Del)): raise GenError('line %d: attribute store' % n.lineno)
        elif isinstance(n, ast.Call) and isinstance(n.func, ast.Attribute) and n.func.attr in _DICT_MUTATORS: note(n.func.value, n)
        elif isinstance(n, ast.Call) and isinstance(n.func, ast.Name) and n.func.id in ('setattr', 'delattr', 'exec', 'eval', 'vars', 'locals', 'globals'):
            raise GenError('line %d: %s()' % (n.lineno, n.func.id))
    if not written: raise GenError('%s: nothing is stored' % FN)
    # D and OUT escape only as: isinstance(D, ..), D.items(), the error message, OUT[..] = .., return
    rets = [n for n in ast.walk(f) if isinstance(n, ast.Return)]
    if len(rets) != 1 or rets[0] is not body[-1] or not isinstance(rets[0].value, ast.Name) or rets[0].value.id not in (D, OUT):
        raise GenError('%s: the function does not end in the single statement "return OUT" / "return D"' % FN)
    ret = 'VarArg' if rets[0].value.id == D else 'VarOut'
    out = [HEADER % (SRC, 'tools/gen/gen_C08.py')]
    out.append('Require Import OV.Base.Bytes OV.Model.C08_Syntax.')
    out.append('Open Scope N_scope.')
    out.append('(* %s = ... before the loop *)' % OUT)
    out.append('Definition gen_out_init : out_init := %s.' % init)
    out.append('(* the variables written through (X[k] = ..., del X[k], X.update(..), ...) anywhere in the function *)')
    out.append('Definition gen_store_vars : list hvar := [%s].' % '; '.join(written))
    out.append('(* return ... *)')
    out.append('Definition gen_return_var : hvar := %s.' % ret)
    return '\n'.join(out) + '\n'


if __name__ == '__main__':
    import sys
    sys.stdout.write(generate_keys()); sys.stdout.write(generate_shape()); sys.stdout.write(generate_frame())
