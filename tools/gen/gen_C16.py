"""C16 translators.

generate_code()    Gen/C16_Code.v    statement-level translation of safe_decode / safe_encode / to_utf8
                                     (oslo_utils/encodeutils.py) and to_slug (oslo_utils/strutils.py)
generate_slug()    Gen/C16_Slug.v    the compiled module-level regexes to_slug uses, as Base/Regex.v ASTs
generate_fold()    Gen/C16_Fold.v    per-code-point residue of NFKD -> encode('ascii','ignore') (running CPython's
                                     unicodedata), as a search tree of ranges
generate_aliases() Gen/C16_Aliases.v the normalised codec names CPython resolves to its utf-8, latin-1 and ascii
                                     codecs (encodings.aliases + module names of the running CPython)

The code translator is a small typed, fail-closed translator in the style of py2gal.py for the
constructs these four functions use (isinstance tests with type narrowing, truthiness of
Optional[str], hasattr(x, 'lower'), str/bytes method calls that may raise, try/except around a
returning call).  Anything else raises GenError and the runner falls back to the baseline copy.

Static types of Python locals:  'pval' (dynamically typed argument), 'optstr' (None or str),
'str', 'bytes', 'bool'.  Every translated function returns `cres T`."""
import ast, sys, re, unicodedata
from common import *
import regex_tr
import failclosed

# the translated functions: one undecorated definition each, bound to its name at run time (their defaults are read and emitted by
# translate()); the module names they use are the real modules (tools/gen/failclosed.py)
_A = failclosed.ANY
_FC_SLUG = {'src': 'oslo_utils/strutils.py', 'mod': 'oslo_utils.strutils',
            'functions': {'to_slug': {'defaults': {'incoming': 'None', 'errors': _A}}},
            'imports': {'encodeutils': 'oslo_utils.encodeutils', 'unicodedata': 'unicodedata', 're': 're'}}
FAILCLOSED = {'generate_slug': [dict(_FC_SLUG, functions={'to_slug': {'defaults': None}})],      # only the regexes of to_slug are read there
              'generate_code': [{'src': 'oslo_utils/encodeutils.py', 'mod': 'oslo_utils.encodeutils',
                                 'functions': {'safe_decode': {'defaults': {'incoming': 'None', 'errors': _A}},
                                               'safe_encode': {'defaults': {'incoming': 'None', 'encoding': _A, 'errors': _A}},
                                               'to_utf8': {'defaults': {}}},
                                 'imports': {'sys': 'sys'}}, _FC_SLUG]}


class Un(GenError):
    pass


EXN = {'TypeError': 'ETypeError', 'UnicodeDecodeError': 'EUnicodeDecodeError', 'UnicodeEncodeError': 'EUnicodeEncodeError',
       'LookupError': 'ELookupError', 'AttributeError': 'EAttributeError'}
ECLASS = {'TypeError': 'KTypeError', 'UnicodeDecodeError': 'KUnicodeDecodeError', 'UnicodeEncodeError': 'KUnicodeEncodeError',
          'UnicodeError': 'KUnicodeError', 'ValueError': 'KValueError', 'LookupError': 'KLookupError',
          'AttributeError': 'KAttributeError', 'Exception': 'KException'}
DEFAULT_INCOMING_SRC = "getattr(sys.stdin, 'encoding', None) or sys.getdefaultencoding()"
COQTY = {'pval': 'pval', 'optstr': 'option str', 'str': 'str', 'bytes': 'bytes', 'bool': 'bool'}


def coqlit(s):
    if isinstance(s, str): s = [ord(c) for c in s]
    return '([%s]%%N : str)' % ';'.join(str(int(c)) for c in s) if s else '([] : str)'


class Tr:
    def __init__(self, name, params, ret, regexes=None, callees=None):
        self.name = name
        self.types = dict(params)
        self.ret = ret
        self.regexes = regexes or {}     # python global name -> coq definition name
        self.callees = callees or {}     # python callee text -> (coq name, [arg types], ret type)

    def src(self, e):
        return ast.unparse(e)

    # ---------------------------------------------------------------- pure expressions
    def expr(self, e):
        t = self.src(e)
        if t == DEFAULT_INCOMING_SRC:
            return '(default_incoming w)', 'str'
        if isinstance(e, ast.Constant):
            if isinstance(e.value, str): return coqlit(e.value), 'str'
            if e.value is None: return '(@None str)', 'optstr'
            if isinstance(e.value, bool): return ('true' if e.value else 'false'), 'bool'
            raise Un('constant %r' % (e.value,))
        if isinstance(e, ast.Name):
            if e.id not in self.types: raise Un('unknown name ' + e.id)
            return e.id, self.types[e.id]
        if isinstance(e, ast.UnaryOp) and isinstance(e.op, ast.Not):
            return '(negb %s)' % self.as_bool(e.operand), 'bool'
        if isinstance(e, ast.BoolOp):
            op = ' && ' if isinstance(e.op, ast.And) else ' || '
            return '(' + op.join(self.as_bool(v) for v in e.values) + ')', 'bool'
        if isinstance(e, ast.Compare) and len(e.ops) == 1 and isinstance(e.ops[0], (ast.Eq, ast.NotEq)):
            a, ta = self.expr(e.left); b, tb = self.expr(e.comparators[0])
            if ta == tb and ta in ('str', 'bytes'): txt = '(beq %s %s)' % (a, b)
            elif {ta, tb} <= {'str', 'optstr'}:
                txt = '(optstr_eqb %s %s)' % (self.coerce(a, ta, 'optstr'), self.coerce(b, tb, 'optstr'))
            else: raise Un('comparison of %s with %s' % (ta, tb))
            return (txt if isinstance(e.ops[0], ast.Eq) else '(negb %s)' % txt), 'bool'
        if isinstance(e, ast.Call):
            fn = self.src(e.func)
            if fn == 'isinstance' and len(e.args) == 2 and not e.keywords:
                tys = self.pytypes(e.args[1])
                a, ta = self.expr(e.args[0])
                if ta == 'pval': return '(isinstance %s [%s])' % (a, '; '.join(tys)), 'bool'
                if ta in ('str', 'bytes'):
                    return ('true' if {'str': 'TyStr', 'bytes': 'TyBytes'}[ta] in tys else 'false'), 'bool'
                raise Un('isinstance on ' + ta)
            if fn == 'hasattr' and len(e.args) == 2 and isinstance(e.args[1], ast.Constant) and e.args[1].value == 'lower':
                a, ta = self.expr(e.args[0])
                if ta in ('str', 'bytes'): return 'true', 'bool'
                if ta == 'optstr': return '(match %s with Some _ => true | None => false end)' % a, 'bool'
                if ta == 'pval': return '(isinstance %s [TyStr; TyBytes])' % a, 'bool'
                raise Un('hasattr on ' + ta)
            # unicodedata.normalize('NFKD', X).encode('ascii', 'ignore').decode('ascii')
            m = self.match_fold(e)
            if m is not None:
                a, ta = self.expr(m)
                if ta != 'str': raise Un('NFKD fold of ' + ta)
                return '(ascii_fold w %s)' % a, 'str'
            if isinstance(e.func, ast.Attribute) and not e.keywords:
                meth = e.func.attr; recv = e.func.value
                # COMPILED_RE.sub(template, X)
                if meth == 'sub' and isinstance(recv, ast.Name) and recv.id in self.regexes and len(e.args) == 2 \
                        and isinstance(e.args[0], ast.Constant) and isinstance(e.args[0].value, str):
                    a, ta = self.expr(e.args[1])
                    if ta != 'str': raise Un('re.sub on ' + ta)
                    try: tpl = regex_tr.template_to_coq(e.args[0].value)
                    except regex_tr.Unsupported as ex: raise Un('template: %s' % ex)
                    return '(re_sub %s %s %s)' % (self.regexes[recv.id], tpl if tpl != '[]' else '(@nil titem)', a), 'str'
                if meth in ('lower', 'strip') and not e.args:
                    a, ta = self.expr(recv)
                    if ta != 'str': raise Un('.%s() on %s' % (meth, ta))
                    return '(%s %s)' % ({'lower': 'py_lower', 'strip': 'strip'}[meth], a), 'str'
            raise Un('call ' + t[:80])
        raise Un('expression ' + t[:80])

    def match_fold(self, e):
        try:
            if not (isinstance(e.func, ast.Attribute) and e.func.attr == 'decode' and [a.value for a in e.args] == ['ascii'] and not e.keywords): return None
            e1 = e.func.value
            if not (isinstance(e1, ast.Call) and isinstance(e1.func, ast.Attribute) and e1.func.attr == 'encode'
                    and [a.value for a in e1.args] == ['ascii', 'ignore'] and not e1.keywords): return None
            e2 = e1.func.value
            if not (isinstance(e2, ast.Call) and self.src(e2.func) == 'unicodedata.normalize' and len(e2.args) == 2
                    and isinstance(e2.args[0], ast.Constant) and e2.args[0].value == 'NFKD' and not e2.keywords): return None
            return e2.args[1]
        except AttributeError:
            return None

    def pytypes(self, e):
        names = [self.src(x) for x in e.elts] if isinstance(e, ast.Tuple) else [self.src(e)]
        out = []
        for n in names:
            if n == 'str': out.append('TyStr')
            elif n == 'bytes': out.append('TyBytes')
            else: raise Un('isinstance class ' + n)
        return out

    def as_bool(self, e):
        a, ta = self.expr(e)
        if ta == 'bool': return a
        if ta == 'pval': return '(truthy_pval %s)' % a
        if ta in ('str', 'bytes'): return '(truthy_str %s)' % a
        if ta == 'optstr': return '(match truthy_opt %s with Some _ => true | None => false end)' % a
        raise Un('truthiness of ' + ta)

    def coerce(self, a, ta, want):
        if ta == want: return a
        if ta == 'str' and want == 'optstr': return '(Some %s)' % a
        if want == 'pval' and ta == 'str': return '(PStr %s)' % a
        if want == 'pval' and ta == 'bytes': return '(PBytes %s)' % a
        raise Un('a value of type %s where %s is needed' % (ta, want))

    # ---------------------------------------------------------------- calls that may raise
    def raising(self, e):
        """(coq text : cres T, T) when e is a call that may raise, else None"""
        if not isinstance(e, ast.Call): return None
        fn = self.src(e.func)
        if fn in self.callees:
            coq, argt, rett = self.callees[fn]
            if e.keywords or len(e.args) != len(argt): raise Un('call shape: ' + self.src(e))
            args = []
            for x, want in zip(e.args, argt):
                a, ta = self.expr(x)
                args.append(self.coerce(a, ta, want))
            return '(%s w %s)' % (coq, ' '.join(args)), rett
        if isinstance(e.func, ast.Attribute) and e.func.attr in ('decode', 'encode') and self.match_fold(e) is None:
            if e.keywords or not (1 <= len(e.args) <= 2): raise Un('call shape: ' + self.src(e))
            r, tr_ = self.expr(e.func.value)
            name, tn = self.expr(e.args[0])
            if tn != 'str': raise Un('codec name of type ' + tn)
            if len(e.args) == 2:
                errs, te = self.expr(e.args[1])
                if te != 'str': raise Un('errors of type ' + te)
            else:
                errs = 'strict_name'
            if e.func.attr == 'decode':
                if tr_ == 'bytes': return '(bytes_decode w %s %s %s)' % (r, name, errs), 'str'
                if tr_ == 'pval': return '(pval_decode w %s %s %s)' % (r, name, errs), 'str'
                raise Un('.decode on ' + tr_)
            if tr_ == 'str': return '(str_encode w %s %s %s)' % (r, name, errs), 'bytes'
            raise Un('.encode on ' + tr_)
        return None

    # ---------------------------------------------------------------- statements
    def ret_pure(self, e):
        a, ta = self.expr(e)
        return 'COk %s' % self.coerce(a, ta, self.ret)

    def ret_call(self, call, ty):
        if ty == self.ret: return call
        return '(cmap (fun r__ => %s) %s)' % (self.coerce('r__', ty, self.ret), call)

    def narrowing(self, test):
        """(scrutinee : option T, var, new type, negated) when the test narrows a local's type"""
        neg = False
        if isinstance(test, ast.UnaryOp) and isinstance(test.op, ast.Not):
            neg = True; test = test.operand
        if isinstance(test, ast.Name) and self.types.get(test.id) == 'optstr':
            return '(truthy_opt %s)' % test.id, test.id, 'str', neg
        if isinstance(test, ast.Call) and not test.keywords and len(test.args) == 2 and isinstance(test.args[0], ast.Name):
            x = test.args[0].id; fn = self.src(test.func)
            if fn == 'isinstance' and self.types.get(x) == 'pval' and isinstance(test.args[1], ast.Name):
                ty = self.pytypes(test.args[1])[0]
                return ('(as_str %s)' if ty == 'TyStr' else '(as_bytes %s)') % x, x, ('str' if ty == 'TyStr' else 'bytes'), neg
            if fn == 'hasattr' and self.types.get(x) == 'optstr' and isinstance(test.args[1], ast.Constant) and test.args[1].value == 'lower':
                return x, x, 'str', neg
        return None

    def block(self, stmts):
        if not stmts:
            raise Un('falling off the end of %s (returns None)' % self.name)
        s, rest = stmts[0], stmts[1:]
        if isinstance(s, ast.Expr) and isinstance(s.value, ast.Constant) and isinstance(s.value.value, str):
            return self.block(rest)
        if isinstance(s, ast.Pass):
            return self.block(rest)
        if isinstance(s, ast.Return):
            if s.value is None: raise Un('bare return')
            rc = self.raising(s.value)
            if rc: return self.ret_call(*rc)
            return self.ret_pure(s.value)
        if isinstance(s, ast.Raise):
            exc = s.exc
            name = exc.func.id if isinstance(exc, ast.Call) and isinstance(exc.func, ast.Name) else (exc.id if isinstance(exc, ast.Name) else None)
            if name not in EXN: raise Un('raise of ' + self.src(s)[:60])
            return 'CExn %s' % EXN[name]
        if isinstance(s, ast.Assign) and len(s.targets) == 1 and isinstance(s.targets[0], ast.Name):
            x = s.targets[0].id
            rc = self.raising(s.value)
            saved = dict(self.types)
            if rc:
                call, ty = rc
                self.types[x] = ty
                k = self.block(rest)
                self.types = saved
                return 'match %s with CExn e__ => CExn e__ | COk %s =>\n%s end' % (call, x, k)
            a, ta = self.expr(s.value)
            self.types[x] = ta
            k = self.block(rest)
            self.types = saved
            return 'let %s := %s in\n%s' % (x, a, k)
        if isinstance(s, ast.If):
            nw = self.narrowing(s.test)
            saved = dict(self.types)
            if nw:
                scrut, x, newty, neg = nw
                pos_body, neg_body = (s.orelse, s.body) if neg else (s.body, s.orelse)
                self.types[x] = newty
                a = self.block(pos_body + rest)
                self.types = dict(saved)
                b = self.block(neg_body + rest)
                self.types = saved
                return 'match %s with Some %s => (\n%s) | None => (\n%s) end' % (scrut, x, a, b)
            c = self.as_bool(s.test)
            if c == 'true': return self.block(s.body + rest)      # e.g. hasattr(<str>, 'lower')
            if c == 'false': return self.block(s.orelse + rest)
            a = self.block(s.body + rest)
            self.types = dict(saved)
            b = self.block(s.orelse + rest)
            self.types = saved
            return 'if %s then (\n%s) else (\n%s)' % (c, a, b)
        if isinstance(s, ast.Try):
            if s.orelse or s.finalbody or len(s.body) != 1 or len(s.handlers) != 1 or not isinstance(s.body[0], ast.Return):
                raise Un('try shape')
            rc = self.raising(s.body[0].value) if s.body[0].value is not None else None
            if not rc: raise Un('try body is not `return <raising call>`')
            h = s.handlers[0]
            if h.name is not None or not isinstance(h.type, ast.Name) or h.type.id not in ECLASS: raise Un('except clause')
            saved = dict(self.types)
            handler = self.block(h.body + rest)
            self.types = saved
            call, ty = rc
            return ('match %s with\n| COk r__ => COk %s\n| CExn e__ => if exn_isa e__ %s then (\n%s) else CExn e__\nend'
                    % (call, self.coerce('r__', ty, self.ret), ECLASS[h.type.id], handler))
        raise Un('statement ' + ast.dump(s)[:80])


def translate(fndef, coqname, params, ret, defaults_expected, **kw):
    """params: [(name, type)]; defaults_expected: names that must carry a default.  Returns (coq text, {param: default value})"""
    a = fndef.args
    if a.vararg or a.kwarg or a.kwonlyargs or a.posonlyargs: raise Un('signature of %s' % fndef.name)
    argn = [x.arg for x in a.args]
    if argn != [p for p, _ in params]: raise Un('signature of %s changed: %s' % (fndef.name, argn))
    defs = {}
    for x, d in zip(a.args[len(a.args) - len(a.defaults):], a.defaults):
        if not isinstance(d, ast.Constant) or not (d.value is None or isinstance(d.value, str)): raise Un('default of ' + x.arg)
        defs[x.arg] = d.value
    if sorted(defs) != sorted(defaults_expected): raise Un('defaults of %s changed' % fndef.name)
    for p, ty in params:
        if p in defs and ((defs[p] is None) != (ty == 'optstr')): raise Un('default of %s does not fit %s' % (p, ty))
    tr = Tr(fndef.name, params, ret, **kw)
    body = tr.block(fndef.body)
    args = ''.join(' (%s : %s)' % (p, COQTY[t]) for p, t in params)
    return 'Definition %s (w : world)%s : cres %s :=\n%s.\n' % (coqname, args, COQTY[ret], body), defs


def slug_regex_names(tree):
    """module-level NAME = re.compile(<str constant>) in strutils.py"""
    out = {}
    for n in tree.body:
        if isinstance(n, ast.Assign) and len(n.targets) == 1 and isinstance(n.targets[0], ast.Name) and isinstance(n.value, ast.Call) \
                and ast.unparse(n.value.func) == 're.compile':
            out[n.targets[0].id] = n.value
    return out


def used_regexes():
    """names of the compiled regexes to_slug applies .sub to"""
    tree = repo_ast('oslo_utils/strutils.py')
    f = find_def(tree, 'to_slug')
    glob = slug_regex_names(tree)
    used = []
    for n in ast.walk(f):
        if isinstance(n, ast.Call) and isinstance(n.func, ast.Attribute) and n.func.attr == 'sub' and isinstance(n.func.value, ast.Name):
            if n.func.value.id not in glob: raise GenError('to_slug: .sub on %s which is not a module-level re.compile' % n.func.value.id)
            if n.func.value.id not in used: used.append(n.func.value.id)
    return used


def generate_slug():
    failclosed.check_all(FAILCLOSED['generate_slug'])
    m = repo_import('oslo_utils.strutils')
    out = [HEADER % ('oslo_utils/strutils.py', 'tools/gen/gen_C16.py')]
    out.append('Require Import OV.Base.Bytes OV.Base.PyInt OV.Base.Regex.')
    out.append('Open Scope N_scope.')
    for name in used_regexes():
        pat = getattr(m, name)
        try:
            term, width = regex_tr.regex_to_coq(pat)
        except regex_tr.Unsupported as e:
            raise GenError('%s: %s' % (name, e))
        if width <= 0: raise GenError('%s may match the empty string (re_sub of Base/Regex.v does not model that)' % name)
        out.append('Definition re_%s : re := %s.' % (name, term))
    # the substitutions in evaluation order (receiver before call): (regex, template)
    subs = slug_subs()
    if len(subs) != 2: raise GenError('to_slug applies %d regex substitutions, the model has two' % len(subs))
    for i, (name, tpl) in enumerate(subs, 1):
        out.append('Definition slug_sub%d_re : re := re_%s.' % (i, name))
        out.append('Definition slug_sub%d_tpl : list titem := %s.' % (i, tpl if tpl != '[]' else '(@nil titem)'))
    return '\n'.join(out) + '\n'


def slug_subs():
    tree = repo_ast('oslo_utils/strutils.py')
    f = find_def(tree, 'to_slug')
    found = []
    class V(ast.NodeVisitor):
        def visit_Call(self, n):
            self.generic_visit(n)       # children (the receiver chain) first
            if isinstance(n.func, ast.Attribute) and n.func.attr == 'sub' and isinstance(n.func.value, ast.Name):
                if len(n.args) != 2 or n.keywords or not isinstance(n.args[0], ast.Constant) or not isinstance(n.args[0].value, str):
                    raise GenError('to_slug: .sub call shape')
                try: found.append((n.func.value.id, regex_tr.template_to_coq(n.args[0].value)))
                except regex_tr.Unsupported as e: raise GenError('to_slug template: %s' % e)
    for st in f.body: V().visit(st)
    return found


def generate_code():
    failclosed.check_all(FAILCLOSED['generate_code'])
    enc_tree = repo_ast('oslo_utils/encodeutils.py')
    str_tree = repo_ast('oslo_utils/strutils.py')
    out = [HEADER % ('oslo_utils/encodeutils.py, oslo_utils/strutils.py', 'tools/gen/gen_C16.py')]
    out.append('Require Import OV.Base.Bytes OV.Base.PyInt OV.Base.Str OV.Base.Regex OV.Base.C16_Py OV.Gen.C16_Slug.')
    out.append('Open Scope N_scope.')
    sd, d1 = translate(find_def(enc_tree, 'safe_decode'), 'gen_safe_decode',
                       [('text', 'pval'), ('incoming', 'optstr'), ('errors', 'str')], 'str', ['incoming', 'errors'])
    callees = {'safe_decode': ('gen_safe_decode', ['pval', 'optstr', 'str'], 'str')}
    se, d2 = translate(find_def(enc_tree, 'safe_encode'), 'gen_safe_encode',
                       [('text', 'pval'), ('incoming', 'optstr'), ('encoding', 'str'), ('errors', 'str')], 'pval',
                       ['incoming', 'encoding', 'errors'], callees=callees)
    tu, _ = translate(find_def(enc_tree, 'to_utf8'), 'gen_to_utf8', [('text', 'pval')], 'pval', [])
    regs = {n: 're_' + n for n in used_regexes()}
    ts, d3 = translate(find_def(str_tree, 'to_slug'), 'gen_to_slug',
                       [('value', 'pval'), ('incoming', 'optstr'), ('errors', 'str')], 'str', ['incoming', 'errors'],
                       regexes=regs, callees={'encodeutils.safe_decode': ('gen_safe_decode', ['pval', 'optstr', 'str'], 'str')})
    out += [sd, se, tu, ts]
    # named literals the hand-written model refers to
    f = find_def(enc_tree, 'safe_decode')
    tries = [n for n in ast.walk(f) if isinstance(n, ast.Try)]
    fb = None
    if len(tries) == 1 and len(tries[0].handlers) == 1:
        calls = [n for n in ast.walk(tries[0].handlers[0]) if isinstance(n, ast.Call) and isinstance(n.func, ast.Attribute) and n.func.attr == 'decode']
        if len(calls) == 1 and calls[0].args and isinstance(calls[0].args[0], ast.Constant) and isinstance(calls[0].args[0].value, str):
            fb = calls[0].args[0].value
    if fb is None: raise GenError('safe_decode: fallback codec literal not found')
    g = find_def(enc_tree, 'to_utf8')
    calls = [n for n in ast.walk(g) if isinstance(n, ast.Call) and isinstance(n.func, ast.Attribute) and n.func.attr == 'encode']
    if len(calls) != 1 or not calls[0].args or not isinstance(calls[0].args[0], ast.Constant) or not isinstance(calls[0].args[0].value, str):
        raise GenError('to_utf8: codec literal not found')
    out.append('(* codec names written as literals in the source *)')
    out.append('Definition fallback_encoding : str := %s.' % coqlit(fb))
    out.append('Definition to_utf8_encoding : str := %s.' % coqlit(calls[0].args[0].value))
    out.append('(* default argument values *)')
    out.append('Definition safe_decode_default_errors : str := %s.' % coqlit(d1['errors']))
    out.append('Definition safe_encode_default_encoding : str := %s.' % coqlit(d2['encoding']))
    out.append('Definition safe_encode_default_errors : str := %s.' % coqlit(d2['errors']))
    out.append('Definition to_slug_default_errors : str := %s.' % coqlit(d3['errors']))
    return '\n'.join(out) + '\n'


# ------------------------------------------------------------------ NFKD / ASCII residue table

def residue(x):
    return unicodedata.normalize('NFKD', chr(x)).encode('ascii', 'ignore').decode('ascii')


def fold_entries():
    for x in range(128):
        if residue(x) != chr(x): raise GenError('NFKD changes the ASCII character %d' % x)
    res = []
    for x in range(128, 0x110000):
        r = residue(x)
        if r: res.append((x, r))
    ents = []    # [lo, hi, kind, payload]
    for x, r in res:
        if ents and ents[-1][1] == x - 1:
            lo, hi, kind, pay = ents[-1]
            if len(r) == 1 and kind in ('one', 'inc') and ord(r) == pay + (x - lo) and (kind == 'inc' or lo == hi):
                ents[-1] = [lo, x, 'inc', pay]; continue
            if kind in ('one', 'const') and r == (chr(pay) if kind == 'one' else pay):
                ents[-1] = [lo, x, 'const', r]; continue
        ents.append([x, x, 'one', ord(r)] if len(r) == 1 else [x, x, 'const', r])
    return ents


def generate_fold():
    ents = fold_entries()
    def ent(e):
        lo, hi, kind, pay = e
        if kind in ('one', 'inc'): return '(FInc %d %d %d)' % (lo, hi, pay)
        return '(FConst %d %d %s)' % (lo, hi, lit(pay))
    def tree(a, b):
        if a >= b: return 'FLeaf'
        m = (a + b) // 2
        return '(FNode %s %s %s)' % (tree(a, m), ent(ents[m]), tree(m + 1, b))
    out = ['(* GENERATED by tools/gen/gen_C16.py from the running CPython %s, unicodedata %s. Do not edit. *)'
           % (sys.version.split()[0], unicodedata.unidata_version)]
    out.append('Require Import OV.Base.Bytes OV.Base.C16_Py.')
    out.append('Open Scope N_scope.')
    out.append('(* residue of NFKD(chr(c)).encode("ascii","ignore") for c >= 128 (absent = empty); for c < 128 it is chr(c) (checked by the generator) *)')
    out.append('Definition nfkd_ascii_tree : ftree := %s.' % tree(0, len(ents)))
    return '\n'.join(out) + '\n'


# ------------------------------------------------------------------ codec names

def generate_aliases():
    import codecs, encodings, encodings.aliases, pkgutil
    want = {'utf-8': 'CUtf8', 'iso8859-1': 'CLatin1', 'ascii': 'CAscii'}
    def ident(name):
        try: n = codecs.lookup(name).name
        except LookupError: return None
        return want.get(n)
    al = sorted((k, ident(k)) for k in encodings.aliases.aliases if ident(k))
    mods = sorted((mname, ident(mname)) for _, mname, _ in pkgutil.iter_modules(encodings.__path__) if ident(mname))
    for k, _ in al + mods:
        if not re.fullmatch(r'[a-z0-9_.]+', k): raise GenError('unexpected codec name %r' % k)
    out = ['(* GENERATED by tools/gen/gen_C16.py from encodings.aliases / the encodings package of the running CPython %s. Do not edit. *)'
           % sys.version.split()[0]]
    out.append('Require Import OV.Base.Bytes.')
    out.append('Open Scope N_scope.')
    out.append('Inductive codec_id := CUtf8 | CLatin1 | CAscii.')
    out.append('(* keys of encodings.aliases.aliases that resolve to one of the three modelled codecs *)')
    out.append('Definition codec_aliases : list (str * codec_id) := [%s].' % '; '.join('(%s, %s)' % (lit(k), v) for k, v in al))
    out.append('(* module names of the encodings package that are one of the three modelled codecs *)')
    out.append('Definition codec_modules : list (str * codec_id) := [%s].' % '; '.join('(%s, %s)' % (lit(k), v) for k, v in mods))
    return '\n'.join(out) + '\n'


if __name__ == '__main__':
    which = sys.argv[1] if len(sys.argv) > 1 else 'code'
    sys.stdout.write({'code': generate_code, 'slug': generate_slug, 'fold': generate_fold, 'aliases': generate_aliases}[which]())
