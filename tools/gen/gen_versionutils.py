"""Gen/Versionutils.v from oslo_utils/versionutils.py"""
import ast
from common import *
import regex_tr
import failclosed

# Only single values of these functions are read (radix, factor, the re.sub arguments, the separator, the class tables); the rest of
# their bodies is TRANSCRIBED by Model/C17.v.  failclosed pins that rest: one undecorated definition each, bound to its name at run
# time, the statement skeleton the model was written from, every constant that is not read here (ANY = read and emitted below).
_A = failclosed.ANY
_FC = {'src': 'oslo_utils/versionutils.py', 'mod': 'oslo_utils.versionutils',
       'imports': {'re': 're', 'operator': 'operator', 'functools': 'functools', 'packaging': 'packaging'}}
FAILCLOSED = {
    'generate': [dict(_FC, classes={'VersionPredicate': {'bases': [], 'methods': ['__init__', '_parse_predicate', 'satisfied_by']}},
        functions={'convert_version_to_int': {'defaults': {}}, 'convert_version_to_str': {'defaults': {}},
                   'convert_version_to_tuple': {'defaults': {}}, 'is_compatible': {'defaults': {'same_major': 'True'}},
                   'VersionPredicate.__init__': {'defaults': {}}, 'VersionPredicate._parse_predicate': {'defaults': {}},
                   'VersionPredicate.satisfied_by': {'defaults': {}}},
        shapes={'convert_version_to_int': ('f25bab6a8e3fe1a8', [_A, _A]),
                'convert_version_to_tuple': ('41667cea2dda967e', [_A, _A, _A]),
                'is_compatible': ('535094073a24b473', [True, False]),
                'VersionPredicate.__init__': ('c16e27520daa3494', [',']),
                'VersionPredicate._parse_predicate': ('2b3d9a6b4d4649ae', [_A]),
                'VersionPredicate.satisfied_by': ('b6a42fa6f990b983', [False, True])})],
    'generate_code': [dict(_FC, functions={'convert_version_to_str': {'defaults': {}}})]}

def generate():
    failclosed.check_all(FAILCLOSED['generate'])
    m = repo_import('oslo_utils.versionutils')
    tree = repo_ast('oslo_utils/versionutils.py')
    # convert_version_to_int: the radix is the integer literal of the reduce lambda
    f = find_def(tree, 'convert_version_to_int')
    lambdas = [n for n in ast.walk(f) if isinstance(n, ast.Lambda)]
    if len(lambdas) != 1: raise GenError('convert_version_to_int: expected one lambda')
    lam = lambdas[0]
    # expected shape: lambda x, y: (x * R) + y
    b = lam.body
    ok = (isinstance(b, ast.BinOp) and isinstance(b.op, ast.Add) and isinstance(b.left, ast.BinOp)
          and isinstance(b.left.op, ast.Mult) and isinstance(b.left.left, ast.Name)
          and isinstance(b.left.right, ast.Constant) and isinstance(b.right, ast.Name)
          and [a.arg for a in lam.args.args] == [b.left.left.id, b.right.id])
    if not ok: raise GenError('convert_version_to_int: lambda is not x*R+y')
    radix_int = b.left.right.value
    # convert_version_to_str: factor = R
    g = find_def(tree, 'convert_version_to_str')
    factor = None
    for n in ast.walk(g):
        if isinstance(n, ast.Assign) and len(n.targets) == 1 and isinstance(n.targets[0], ast.Name) \
           and n.targets[0].id == 'factor' and isinstance(n.value, ast.Constant):
            factor = n.value.value
    if not isinstance(factor, int): raise GenError('convert_version_to_str: factor literal not found')
    # convert_version_to_tuple: the re.sub call
    h = find_def(tree, 'convert_version_to_tuple')
    subs = [n for n in ast.walk(h) if isinstance(n, ast.Call) and isinstance(n.func, ast.Attribute) and n.func.attr == 'sub']
    if len(subs) != 1 or not all(isinstance(a, ast.Constant) for a in subs[0].args[:2]):
        raise GenError('convert_version_to_tuple: re.sub call not found')
    pat, repl = subs[0].args[0].value, subs[0].args[1].value
    splits = [n for n in ast.walk(h) if isinstance(n, ast.Call) and isinstance(n.func, ast.Attribute) and n.func.attr == 'split']
    if len(splits) != 1 or len(splits[0].args) != 1 or not isinstance(splits[0].args[0], ast.Constant) or len(splits[0].args[0].value) != 1:
        raise GenError('convert_version_to_tuple: split separator')
    sep = splits[0].args[0].value
    suffix_re, w = regex_tr.regex_to_coq(pat, 0)
    if w <= 0: raise GenError('suffix pattern may match the empty string')
    pred_re, _ = regex_tr.regex_to_coq(m.VersionPredicate._PREDICATE_MATCH)
    ops = list(m.VersionPredicate._COMP_MAP.keys())
    import operator
    opname = {operator.lt: 'OpLt', operator.le: 'OpLe', operator.eq: 'OpEq', operator.gt: 'OpGt', operator.ge: 'OpGe', operator.ne: 'OpNe'}
    try:
        comp = [(k, opname[v]) for k, v in m.VersionPredicate._COMP_MAP.items()]
    except KeyError:
        raise GenError('_COMP_MAP maps to an unknown operator')
    out = [HEADER % ('oslo_utils/versionutils.py', 'tools/gen/gen_versionutils.py')]
    out.append('Require Import OV.Base.Bytes OV.Base.PyInt OV.Base.Regex.')
    out.append('Open Scope N_scope.')
    out.append('Definition radix_to_int : Z := %d%%Z.' % radix_int)
    out.append('Definition radix_to_str : Z := %d%%Z.' % factor)
    out.append('Definition version_sep : N := %d%%N.' % ord(sep))
    out.append('Definition suffix_re : re := %s.' % suffix_re)
    out.append('Definition suffix_repl : list titem := %s.' % regex_tr.template_to_coq(repl))
    out.append('Definition predicate_re : re := %s.' % pred_re)
    out.append('Inductive cmpop := OpLt | OpLe | OpEq | OpGt | OpGe | OpNe.')
    out.append('Definition comp_map : list (str * cmpop) := [%s].' % '; '.join('(%s, %s)' % (lit(k), v) for k, v in comp))
    return '\n'.join(out) + '\n'

def generate_code():
    """statement-level translation of convert_version_to_str"""
    import py2gal
    from py2gal import Fn
    failclosed.check_all(FAILCLOSED['generate_code'])
    tree = repo_ast('oslo_utils/versionutils.py')
    try:
        body = py2gal.translate_function(
            py2gal.get_fndef(tree, 'convert_version_to_str'), 'gen_convert_version_to_str', [('version_int', 'int')],
            funcs={'str': Fn('dec_of_Z', ['int'], 'bytes')},
            consts={"'.'.join(map(str, version_numbers))": ('(join [46%N] version_numbers)', 'bytes')},
            hints={'version_numbers': 'strlist'}, fuel='fuel')
    except py2gal.Unsupported as e:
        raise GenError('convert_version_to_str: ' + str(e))
    return (HEADER % ('oslo_utils/versionutils.py', 'tools/gen/gen_versionutils.py (py2gal)')
            + 'Require Import OV.Base.Bytes OV.Base.Py OV.Base.PyInt OV.Base.Str.\nOpen Scope Z_scope.\n' + body)

if __name__ == '__main__':
    import sys
    sys.stdout.write(generate()); sys.stdout.write(generate_code())
