"""Gen/Versionutils.v from oslo_utils/versionutils.py"""
import ast
from common import *
import regex_tr
import failclosed

# Only single values of these functions are read (radix, factor, the re.sub arguments, the separator, the class tables); the rest of
# their bodies is TRANSCRIBED by Model/C17.v.  failclosed pins that rest: one undecorated definition each, bound to its name at run
# time, the statement skeleton the model was written from, every constant that is not read here (ANY = read and emitted below).
_A = failclosed.ANY
_FC = {'src': 'oslo_utils/versionutils.py', 'mod': 'oslo_utils.versionutils',
       'imports': {'re': 're', 'operator': 'operator', 'functools': 'functools', 'packaging': 'packaging'}}
FAILCLOSED = {
    'generate': [dict(_FC, classes={'VersionPredicate': {'bases': [], 'methods': ['__init__', '_parse_predicate', 'satisfied_by']}},
        functions={'convert_version_to_int': {'defaults': {}}, 'convert_version_to_str': {'defaults': {}},
                   'convert_version_to_tuple': {'defaults': {}}, 'is_compatible': {'defaults': {'same_major': 'True'}},
                   'VersionPredicate.__init__': {'defaults': {}}, 'VersionPredicate._parse_predicate': {'defaults': {}},
                   'VersionPredicate.satisfied_by': {'defaults': {}}},
        shapes={'convert_version_to_int': ('f25bab6a8e3fe1a8', [_A, _A]),
                'convert_version_to_tuple': ('41667cea2dda967e', [_A, _A, _A]),
                'is_compatible': ('535094073a24b473', [True, False]),
                'VersionPredicate.__init__': ('c16e27520daa3494', [',']),
                'VersionPredicate._parse_predicate': ('2b3d9a6b4d4649ae', [_A]),
                'VersionPredicate.satisfied_by': ('b6a42fa6f990b983', [False, True])})],
    'generate_code': [dict(_FC, functions={'convert_version_to_str': {'defaults': {}}})],
    # statement-level translation (T17): every statement of these bodies is translated, so no shapes; what is NOT in the translated
    # text is pinned: single undecorated runtime-bound definitions, defaults, the class (no bases, these methods only), the two class
    # attributes read through the imported module, and what the names re / functools / packaging / operator / _ denote
    'generate_code17': [dict(_FC, imports=dict(_FC['imports'], _='oslo_utils._i18n:_'),
        classes={'VersionPredicate': {'bases': [], 'methods': ['__init__', '_parse_predicate', 'satisfied_by']}},
        functions={'convert_version_to_int': {'defaults': {}}, 'convert_version_to_tuple': {'defaults': {}},
                   'is_compatible': {'defaults': {'same_major': 'True'}},
                   'VersionPredicate.__init__': {'defaults': {}}, 'VersionPredicate._parse_predicate': {'defaults': {}},
                   'VersionPredicate.satisfied_by': {'defaults': {}}},
        constants=['VersionPredicate._PREDICATE_MATCH', 'VersionPredicate._COMP_MAP'])]}

def generate():
    failclosed.check_all(FAILCLOSED['generate'])
    m = repo_import('oslo_utils.versionutils')
    tree = repo_ast('oslo_utils/versionutils.py')
    # convert_version_to_int: the radix is the integer literal of the reduce lambda
    f = find_def(tree, 'convert_version_to_int')
    lambdas = [n for n in ast.walk(f) if isinstance(n, ast.Lambda)]
    if len(lambdas) != 1: raise GenError('convert_version_to_int: expected one lambda')
    lam = lambdas[0]
    # expected shape: lambda x, y: (x * R) + y
    b = lam.body
    ok = (isinstance(b, ast.BinOp) and isinstance(b.op, ast.Add) and isinstance(b.left, ast.BinOp)
          and isinstance(b.left.op, ast.Mult) and isinstance(b.left.left, ast.Name)
          and isinstance(b.left.right, ast.Constant) and isinstance(b.right, ast.Name)
          and [a.arg for a in lam.args.args] == [b.left.left.id, b.right.id])
    if not ok: raise GenError('convert_version_to_int: lambda is not x*R+y')
    radix_int = b.left.right.value
    # convert_version_to_str: factor = R
    g = find_def(tree, 'convert_version_to_str')
    factor = None
    for n in ast.walk(g):
        if isinstance(n, ast.Assign) and len(n.targets) == 1 and isinstance(n.targets[0], ast.Name) \
           and n.targets[0].id == 'factor' and isinstance(n.value, ast.Constant):
            factor = n.value.value
    if not isinstance(factor, int): raise GenError('convert_version_to_str: factor literal not found')
    # convert_version_to_tuple: the re.sub call
    h = find_def(tree, 'convert_version_to_tuple')
    subs = [n for n in ast.walk(h) if isinstance(n, ast.Call) and isinstance(n.func, ast.Attribute) and n.func.attr == 'sub']
    if len(subs) != 1 or not all(isinstance(a, ast.Constant) for a in subs[0].args[:2]):
        raise GenError('convert_version_to_tuple: re.sub call not found')
    pat, repl = subs[0].args[0].value, subs[0].args[1].value
    splits = [n for n in ast.walk(h) if isinstance(n, ast.Call) and isinstance(n.func, ast.Attribute) and n.func.attr == 'split']
    if len(splits) != 1 or len(splits[0].args) != 1 or not isinstance(splits[0].args[0], ast.Constant) or len(splits[0].args[0].value) != 1:
        raise GenError('convert_version_to_tuple: split separator')
    sep = splits[0].args[0].value
    suffix_re, w = regex_tr.regex_to_coq(pat, 0)
    if w <= 0: raise GenError('suffix pattern may match the empty string')
    pred_re, _ = regex_tr.regex_to_coq(m.VersionPredicate._PREDICATE_MATCH)
    ops = list(m.VersionPredicate._COMP_MAP.keys())
    import operator
    opname = {operator.lt: 'OpLt', operator.le: 'OpLe', operator.eq: 'OpEq', operator.gt: 'OpGt', operator.ge: 'OpGe', operator.ne: 'OpNe'}
    try:
        comp = [(k, opname[v]) for k, v in m.VersionPredicate._COMP_MAP.items()]
    except KeyError:
        raise GenError('_COMP_MAP maps to an unknown operator')
    out = [HEADER % ('oslo_utils/versionutils.py', 'tools/gen/gen_versionutils.py')]
    out.append('Require Import OV.Base.Bytes OV.Base.PyInt OV.Base.Regex.')
    out.append('Open Scope N_scope.')
    out.append('Definition radix_to_int : Z := %d%%Z.' % radix_int)
    out.append('Definition radix_to_str : Z := %d%%Z.' % factor)
    out.append('Definition version_sep : N := %d%%N.' % ord(sep))
    out.append('Definition suffix_re : re := %s.' % suffix_re)
    out.append('Definition suffix_repl : list titem := %s.' % regex_tr.template_to_coq(repl))
    out.append('Definition predicate_re : re := %s.' % pred_re)
    out.append('Inductive cmpop := OpLt | OpLe | OpEq | OpGt | OpGe | OpNe.')
    out.append('Definition comp_map : list (str * cmpop) := [%s].' % '; '.join('(%s, %s)' % (lit(k), v) for k, v in comp))
    return '\n'.join(out) + '\n'

def generate_code():
    """statement-level translation of convert_version_to_str"""
    import py2gal
    from py2gal import Fn
    failclosed.check_all(FAILCLOSED['generate_code'])
    tree = repo_ast('oslo_utils/versionutils.py')
    try:
        body = py2gal.translate_function(
            py2gal.get_fndef(tree, 'convert_version_to_str'), 'gen_convert_version_to_str', [('version_int', 'int')],
            funcs={'str': Fn('dec_of_Z', ['int'], 'bytes')},
            consts={"'.'.join(map(str, version_numbers))": ('(join [46%N] version_numbers)', 'bytes')},
            hints={'version_numbers': 'strlist'}, fuel='fuel')
    except py2gal.Unsupported as e:
        raise GenError('convert_version_to_str: ' + str(e))
    return (HEADER % ('oslo_utils/versionutils.py', 'tools/gen/gen_versionutils.py (py2gal)')
            + 'Require Import OV.Base.Bytes OV.Base.Py OV.Base.PyInt OV.Base.Str.\nOpen Scope Z_scope.\n' + body)


# ---------------------------------------------------------------------------------------------------
# Statement-level translation of convert_version_to_tuple / convert_version_to_int / is_compatible /
# VersionPredicate._parse_predicate / __init__ (Gen/C17_Code.v).  py2gal.Translator is extended here
# (py2gal.py itself is not edited) with the constructs these functions use; every rule is local and
# fails closed (Unsupported -> GenError -> committed baseline + translator_fallback in the evidence):
#   re.sub(<literal>, <literal>, s)           -> re_sub of the regex/template translated at that call site
#   s.split(<1 char>)                          -> split_char
#   tuple(f(x) for x in l) / [f(x) for x in l] -> map_res (left to right, first failure escapes)
#   functools.reduce(lambda x, y: E, t)        -> reduce_res (TypeError on the empty tuple)
#   isinstance(x, str|tuple)                   -> decided by the declared type of the entry point (dead branch pruned)
#   try: ... except Exception as ex: msg = <literal with one %s> % v; raise ValueError(msg) from ex
#                                              -> every raising point of the body continues in the handler, translated with
#                                                 the types current at that point (formatting a tuple of length != 1: TypeError)
#   packaging.version.Version(t), a.major, a >= b -> the contract functions vparse / major / vle
#   <compiled regex attribute>.match(s), `if not m`, a, b = m.groups() -> re_match / option test / group texts
import py2gal
from py2gal import Unsupported, Fn

py2gal.COQ_TY.update({'intlist': 'list Z', 'ver': 'V', 'match': 'option match_obj', 'matchobj': 'match_obj',
                      'optstr': 'option bytes', 'predpair': '(option bytes * V)', 'predlist': 'list (option bytes * V)'})

class T17(py2gal.Translator):
    def __init__(self, params, regexes, module=None, **kw):
        super().__init__(params, **kw)
        self.regexes = regexes          # shared list of (name, coq regex, coq template or None)
        self.module = module            # imported oslo_utils.versionutils (for compiled class attributes)
        self.handlers = []              # enclosing `except Exception` handlers (innermost last)
        self.after = []                 # statements following the enclosing try statements
        self.subject = {}               # match-object local -> coq text of the subject string
        self.opaque = set()             # locals only usable as exception arguments
        self.tables = {}                # source text of an operator table -> coq name of its generated association list

    def ret(self, valtext, valty):
        if getattr(self, 'read_fields', False):       # a method that only reads its fields returns just the value
            if self.ret_type is None: self.ret_type = valty
            if valty != self.ret_type: raise Unsupported('return type %s vs %s' % (valty, self.ret_type))
            return 'RET(%s)' % valtext
        return super().ret(valtext, valty)

    # ---------------------------------------------------------------- regex literals
    def regex_const(self, pattern, flags=0, need_nonempty=False):
        coq, w = regex_tr.regex_to_coq(pattern, flags)
        if need_nonempty and w <= 0: raise Unsupported('pattern used with sub may match the empty string')
        for name, c, _ in self.regexes:
            if c == coq: return name
        name = 'gen_re_%d' % (len(self.regexes) + 1)
        self.regexes.append((name, coq, None))
        return name

    # ---------------------------------------------------------------- expressions
    def static_isinstance(self, e):
        """isinstance(<local>, str|tuple) decided by the local's declared type; None when e is not such a test"""
        if isinstance(e, ast.Call) and self.src(e.func) == 'isinstance' and len(e.args) == 2 and not e.keywords \
                and isinstance(e.args[0], ast.Name) and isinstance(e.args[1], ast.Name):
            ty = self.types.get(e.args[0].id)
            cls = e.args[1].id
            table = {'bytes': 'str', 'intlist': 'tuple'}
            if ty not in table or cls not in ('str', 'tuple'): raise Unsupported('isinstance(%s : %s, %s)' % (e.args[0].id, ty, cls))
            return table[ty] == cls
        return None

    def expr(self, e):
        t = self.src(e)
        if t in self.consts: return self.consts[t]
        if isinstance(e, ast.Name) and e.id in self.opaque: raise Unsupported('use of %s outside a raise' % e.id)
        if isinstance(e, ast.Call) and self.src(e.func) == 're.sub':
            if e.keywords or len(e.args) != 3 or not all(isinstance(a, ast.Constant) and isinstance(a.value, str) for a in e.args[:2]):
                raise Unsupported('re.sub form: ' + t)
            subj, ts = self.expr(e.args[2])
            if ts != 'bytes': raise Unsupported('re.sub subject of type ' + ts)
            name = self.regex_const(e.args[0].value, 0, need_nonempty=True)
            tmpl = regex_tr.template_to_coq(e.args[1].value)
            return '(re_sub %s %s %s)' % (name, tmpl, subj), 'bytes'
        if isinstance(e, ast.Call) and isinstance(e.func, ast.Attribute) and e.func.attr == 'split':
            recv, tr = self.expr(e.func.value)
            if tr != 'bytes' or e.keywords or len(e.args) != 1: raise Unsupported('split form: ' + t)
            sep = e.args[0]
            if not (isinstance(sep, ast.Constant) and isinstance(sep.value, str) and len(sep.value) == 1):
                raise Unsupported('split separator is not a one-character literal')
            return '(split_char %d%%N %s)' % (ord(sep.value), recv), 'strlist'
        if isinstance(e, ast.Call) and isinstance(e.func, ast.Attribute) and e.func.attr == 'match' and t.split('.match(')[0] in self.consts_re():
            pat = self.consts_re()[t.split('.match(')[0]]
            if e.keywords or len(e.args) != 1: raise Unsupported('match form')
            subj, ts = self.expr(e.args[0])
            if ts != 'bytes': raise Unsupported('match subject of type ' + ts)
            name = self.regex_const(pat)
            return '(re_match %s %s)' % (name, subj), 'match:' + subj + ':%d' % pat.groups
        if isinstance(e, ast.Attribute) and e.attr == 'major':
            a, ta = self.expr(e.value)
            if ta != 'ver': raise Unsupported('.major of ' + ta)
            return '(major %s)' % a, 'int'
        if isinstance(e, ast.Compare) and len(e.ops) == 1:
            try:
                a, ta = self.expr(e.left); b, tb = self.expr(e.comparators[0])
            except Unsupported:
                ta = tb = None
            if ta == tb == 'ver':
                op = e.ops[0]
                if isinstance(op, ast.GtE): return '(vle %s %s)' % (b, a), 'bool'
                if isinstance(op, ast.LtE): return '(vle %s %s)' % (a, b), 'bool'
                raise Unsupported('comparison of versions: ' + t)
        return super().expr(e)

    def consts_re(self):
        """source text -> compiled pattern, for class attributes that are compiled regexes"""
        out = {}
        if self.module is not None:
            for cname, cls in vars(self.module).items():
                if isinstance(cls, type) and getattr(cls, '__module__', None) == self.module.__name__:
                    for an, av in vars(cls).items():
                        if hasattr(av, 'pattern') and hasattr(av, 'match'):
                            out['%s.%s' % (self.self_name, an)] = av
        return out

    def raising(self, e):
        """(coq text : res T, T) for the raising constructs, else None"""
        if not isinstance(e, ast.Call): return None
        fn = self.src(e.func)
        if fn in self.funcs and self.funcs[fn].raises:
            f = self.funcs[fn]
            return self.call(f, e), f.ret
        if fn == 'packaging.version.Version' and len(e.args) == 1 and not e.keywords:
            a, ta = self.expr(e.args[0])
            if ta == 'bytes': return '(vparse_res vparse %s)' % a, 'ver'
            if ta == 'optstr': return '(vparse_opt vparse %s)' % a, 'ver'
            raise Unsupported('Version(%s)' % ta)
        if fn == 'functools.reduce' and len(e.args) == 2 and not e.keywords and isinstance(e.args[0], ast.Lambda):
            lam = e.args[0]
            if lam.args.vararg or lam.args.kwarg or lam.args.kwonlyargs or lam.args.defaults or len(lam.args.args) != 2:
                raise Unsupported('reduce lambda signature')
            x, y = [a.arg for a in lam.args.args]
            seq, ts = self.expr(e.args[1])
            if ts != 'intlist': raise Unsupported('reduce over ' + ts)
            sub = T17([(x, 'int'), (y, 'int')], self.regexes, self.module)
            body, tb = sub.expr(lam.body)
            if tb != 'int': raise Unsupported('reduce lambda returns ' + tb)
            return '(reduce_res (fun %s %s => %s) %s)' % (x, y, body, seq), 'int'
        comp = None
        if fn == 'tuple' and len(e.args) == 1 and isinstance(e.args[0], ast.GeneratorExp): comp = e.args[0]
        return self.comprehension(comp) if comp is not None else None

    def comprehension(self, comp):
        if len(comp.generators) != 1: raise Unsupported('nested comprehension')
        g = comp.generators[0]
        if g.ifs or g.is_async or not isinstance(g.target, ast.Name): raise Unsupported('comprehension form')
        seq, ts = self.expr(g.iter)
        if ts != 'strlist': raise Unsupported('comprehension over ' + ts)
        var = g.target.id
        if var in self.types: raise Unsupported('comprehension variable shadows a local')
        elt = comp.elt
        if isinstance(elt, ast.Call) and self.src(elt.func) == 'int' and len(elt.args) == 1 and not elt.keywords \
                and isinstance(elt.args[0], ast.Name) and elt.args[0].id == var:
            return '(map_res (fun %s => py_int_res %s) %s)' % (var, var, seq), 'intlist'
        if isinstance(elt, ast.Call) and self.src(elt.func) in self.funcs and self.funcs[self.src(elt.func)].raises \
                and len(elt.args) == 1 and isinstance(elt.args[0], ast.Name) and elt.args[0].id == var and not elt.keywords:
            f = self.funcs[self.src(elt.func)]
            if f.args != ['bytes']: raise Unsupported('comprehension callee signature')
            return '(map_res (fun %s => %s %s) %s)' % (var, f.coq, var, seq), {'predpair': 'predlist', 'int': 'intlist'}.get(f.ret) or self._no('list of ' + f.ret)
        raise Unsupported('comprehension element ' + self.src(elt))

    def _no(self, what):
        raise Unsupported(what)

    # ---------------------------------------------------------------- exceptions
    def on_exn(self, evar):
        """what happens when an exception (coq value evar) is raised at the current point"""
        if not self.handlers: return 'RAISE(%s)' % evar
        h = self.handlers[-1]
        saved_h, saved_a, saved_t, saved_o = self.handlers, self.after, dict(self.types), set(self.opaque)
        self.handlers, self.after = self.handlers[:-1], self.after[:-1]      # the handler runs outside its own try
        try:
            return self.handler_block(list(h.body))
        finally:
            self.handlers, self.after, self.types, self.opaque = saved_h, saved_a, saved_t, saved_o

    def handler_block(self, stmts):
        # msg = <literal with exactly one %s, possibly through _()> % <local> ; raise <Exn>(msg) from ex
        if len(stmts) == 2 and isinstance(stmts[0], ast.Assign) and len(stmts[0].targets) == 1 and isinstance(stmts[0].targets[0], ast.Name) \
                and isinstance(stmts[0].value, ast.BinOp) and isinstance(stmts[0].value.op, ast.Mod) and isinstance(stmts[1], ast.Raise):
            fmt, arg = stmts[0].value.left, stmts[0].value.right
            if isinstance(fmt, ast.Call) and self.src(fmt.func) == '_' and len(fmt.args) == 1 and not fmt.keywords: fmt = fmt.args[0]
            if not (isinstance(fmt, ast.Constant) and isinstance(fmt.value, str)): raise Unsupported('message format')
            import re as _re
            if len(_re.findall(r'%', fmt.value)) != 1 or '%s' not in fmt.value: raise Unsupported('message format specifiers')
            if not isinstance(arg, ast.Name): raise Unsupported('message argument')
            ta = self.types.get(arg.id)
            self.opaque.add(stmts[0].targets[0].id)
            rz = stmts[1]
            if not (isinstance(rz.exc, ast.Call) and isinstance(rz.exc.func, ast.Name) and rz.exc.func.id in self.exn_names
                    and len(rz.exc.args) == 1 and isinstance(rz.exc.args[0], ast.Name) and rz.exc.args[0].id in self.opaque):
                raise Unsupported('handler raise form')
            self.raises = True
            final = self.on_exn(rz.exc.func.id)
            if ta == 'bytes': return final                       # "%s" % str never raises
            if ta == 'intlist':                                   # "%s" % tuple: TypeError unless exactly one element
                return 'if (llenZ %s =? 1) then (%s) else (%s)' % (arg.id, final, self.on_exn('TypeError'))
            raise Unsupported('message argument of type %s' % ta)
        raise Unsupported('handler shape')

    # ---------------------------------------------------------------- statements
    def bind_target(self, tgt, ty):
        if isinstance(tgt, ast.Name):
            self.types[tgt.id] = ty            # Python rebinding: the new binding shadows the old one
            self.consts.pop(tgt.id, None)
            return tgt.id
        return super().bind_target(tgt, ty)

    def assign(self, tgt, value, rest):
        rc = self.raising(value)
        if rc is not None:
            call, ty = rc
            self.raises = True
            handler = self.on_exn('e__')                 # translated BEFORE the target is rebound
            name = self.bind_target(tgt, ty)
            return 'match %s with Exn e__ => %s | Ok %s =>\n%s end' % (call, handler, name, self.block(rest))
        v, ty = self.expr(value)
        if ty.startswith('match:'):
            _, subj, ng = ty.split(':')
            name = self.bind_target(tgt, 'match')
            self.subject[name] = (subj, int(ng))
            return 'let %s := %s in\n%s' % (name, v, self.block(rest))
        name = self.bind_target(tgt, ty)
        return 'let %s := %s in\n%s' % (name, v, self.block(rest))

    def block(self, stmts):
        if not stmts:
            if self.after:
                rest = self.after[-1]
                saved_h, saved_a = self.handlers, self.after
                self.handlers, self.after = self.handlers[:-1], self.after[:-1]
                try: return self.block(rest)
                finally: self.handlers, self.after = saved_h, saved_a
            return super().block(stmts)
        s, rest = stmts[0], stmts[1:]
        if isinstance(s, ast.If):
            st = self.static_isinstance(s.test)
            if st is not None:
                return '(* %s is %s for this entry point *)\n%s' % (self.src(s.test), 'True' if st else 'False',
                                                                      self.block((s.body if st else s.orelse) + rest))
            # `if not m:` / `if m:` on a match object
            neg = isinstance(s.test, ast.UnaryOp) and isinstance(s.test.op, ast.Not)
            inner = s.test.operand if neg else s.test
            if isinstance(inner, ast.Name) and self.types.get(inner.id) == 'match':
                some_body, none_body = (s.orelse, s.body) if neg else (s.body, s.orelse)
                saved = dict(self.types)
                b_none = self.block(none_body + rest)
                self.types = dict(saved); self.types[inner.id] = 'matchobj'
                b_some = self.block(some_body + rest)
                self.types = saved
                return 'match %s with None => (\n%s) | Some %s => (\n%s) end' % (inner.id, b_none, inner.id, b_some)
        if isinstance(s, ast.Raise) and self.handlers:
            raise Unsupported('raise inside try')
        if isinstance(s, ast.Try):
            if s.orelse or s.finalbody or len(s.handlers) != 1: raise Unsupported('try shape')
            h = s.handlers[0]
            if not (isinstance(h.type, ast.Name) and h.type.id == 'Exception' and h.name): raise Unsupported('except clause')
            for n in ast.walk(ast.Module(body=h.body, type_ignores=[])):
                if isinstance(n, ast.Name) and n.id == h.name and not isinstance(getattr(n, 'ctx', None), ast.Load): raise Unsupported('handler rebinds the exception')
            self.handlers.append(h); self.after.append(rest)
            try: return self.block(list(s.body))
            finally: self.handlers.pop(); self.after.pop()
        if isinstance(s, ast.Assign) and len(s.targets) == 1 and isinstance(s.targets[0], ast.Tuple) \
                and isinstance(s.value, ast.Call) and isinstance(s.value.func, ast.Attribute) and s.value.func.attr == 'groups' \
                and isinstance(s.value.func.value, ast.Name) and self.types.get(s.value.func.value.id) == 'matchobj' and not s.value.args:
            m = s.value.func.value.id
            subj, ng = self.subject[m]
            names = s.targets[0].elts
            if len(names) != ng or not all(isinstance(n, ast.Name) for n in names): raise Unsupported('unpacking of groups()')
            out = ''
            for i, n in enumerate(names):
                nm = self.bind_target(n, 'optstr')
                out += 'let %s := (group_of %s %s %d%%nat) in\n' % (nm, subj, m, i + 1)
            return out + self.block(rest)
        if isinstance(s, ast.Assign) and len(s.targets) == 1 and isinstance(s.value, ast.ListComp):
            call, ty = self.comprehension(s.value)
            self.raises = True
            handler = self.on_exn('e__')
            name = self.bind_target(s.targets[0], ty)
            return 'match %s with Exn e__ => %s | Ok %s =>\n%s end' % (call, handler, name, self.block(rest))
        if isinstance(s, ast.Return) and s.value is not None:
            rc = self.raising(s.value)
            if rc is not None:
                call, ty = rc
                self.raises = True
                return 'match %s with Exn e__ => %s | Ok ret__ =>\n%s end' % (call, self.on_exn('e__'), self.ret('ret__', ty))
            if isinstance(s.value, ast.Tuple) and len(s.value.elts) == 2:
                a, ta = self.expr(s.value.elts[0])
                rc = self.raising(s.value.elts[1])
                if rc is None or ta != 'optstr' or rc[1] != 'ver': raise Unsupported('returned pair')
                self.raises = True
                return 'match %s with Exn e__ => %s | Ok ret__ =>\n%s end' % (rc[0], self.on_exn('e__'), self.ret('(%s, ret__)' % a, 'predpair'))
        if isinstance(s, ast.For):
            return self.for_(s, rest)
        return super().block(stmts)

    def table_test(self, e):
        """[not] <operator table>[<optstr local>](<ver local>, <ver local>) -> (coq test on op__, key text, negated)"""
        neg = isinstance(e, ast.UnaryOp) and isinstance(e.op, ast.Not)
        c = e.operand if neg else e
        if not (isinstance(c, ast.Call) and isinstance(c.func, ast.Subscript) and self.src(c.func.value) in self.tables
                and isinstance(c.func.slice, ast.Name) and len(c.args) == 2 and not c.keywords):
            raise Unsupported('loop test ' + self.src(e))
        k, tk = self.expr(c.func.slice)
        a, ta = self.expr(c.args[0]); b, tb = self.expr(c.args[1])
        if tk != 'optstr' or ta != 'ver' or tb != 'ver': raise Unsupported('loop test types')
        test = '(cmp_apply vle veq op__ %s %s)' % (a, b)
        return ('(negb %s)' % test if neg else test), k, self.tables[self.src(c.func.value)]

    def for_(self, s, rest):
        # for a, b in <list of pairs>: a sequence of `if <table test>: return <bool literal>`; then the rest
        if s.orelse or not (isinstance(s.target, ast.Tuple) and len(s.target.elts) == 2 and all(isinstance(n, ast.Name) for n in s.target.elts)):
            raise Unsupported('for shape')
        seq, ts = self.expr(s.iter)
        if ts != 'predlist': raise Unsupported('for over ' + ts)
        a, b = [n.id for n in s.target.elts]
        if a in self.types or b in self.types: raise Unsupported('loop variable shadows a local')
        free = [(n, t) for n, t in self.types.items() if t in ('ver', 'int', 'bool', 'bytes')]
        saved = dict(self.types)
        self.types[a] = 'optstr'; self.types[b] = 'ver'
        self.loop_id += 1
        lname = '%s_loop%d' % (self.name, self.loop_id)
        recur = '%s vle veq%s l__\'' % (lname, ''.join(' ' + n for n, _ in free))
        body = recur
        for st in reversed(s.body):
            if not (isinstance(st, ast.If) and not st.orelse and len(st.body) == 1 and isinstance(st.body[0], ast.Return)
                    and isinstance(st.body[0].value, ast.Constant) and isinstance(st.body[0].value.value, bool)):
                raise Unsupported('loop body statement ' + self.src(st))
            test, key, table = self.table_test(st.test)
            r = 'true' if st.body[0].value.value else 'false'
            body = 'match assoc_opt %s %s with None => Exn KeyError | Some op__ =>\n    if %s then Ok (Some %s) else %s end' % (key, table, test, r, body)
        self.types = saved
        if self.ret_type not in (None, 'bool'): raise Unsupported('loop return type')
        self.ret_type = 'bool'
        self.raises = True
        params = ''.join(' (%s : %s)' % (n, py2gal.COQ_TY[t]) for n, t in free)
        self.aux.append('Fixpoint %s {V : Type} (vle veq : V -> V -> bool)%s (l__ : list (option bytes * V)) {struct l__} : res (option bool) :=\n'
                        '  match l__ with\n  | [] => Ok None\n  | (%s, %s) :: l__\' =>\n    %s\n  end.\n' % (lname, params, a, b, body))
        return ('match %s vle veq%s %s with Exn e__ => %s | Ok (Some r__) => %s | Ok None =>\n%s end'
                % (lname, ''.join(' ' + n for n, _ in free), seq, self.on_exn('e__'), self.ret('r__', 'bool'), self.block(rest)))

def translate17(tr, fndef, name, params, binders='', self_param=False):
    """emit one Definition (the tail of py2gal.translate_function, with leading contract binders)"""
    for d in fndef.decorator_list:
        raise Unsupported('decorator @%s on %s' % (ast.unparse(d), name))
    argn = [a.arg for a in fndef.args.args]
    if self_param:
        if not argn or argn[0] != 'self': raise Unsupported('method without self')
        argn = argn[1:]
    if argn != [p for p, _ in params]: raise Unsupported('signature of %s changed: %s' % (name, argn))
    if fndef.args.vararg or fndef.args.kwarg or fndef.args.kwonlyargs: raise Unsupported('varargs')
    tr.name = name
    body = tr.block(fndef.body)
    if tr.ret_type is None: tr.ret_type = 'none'
    rty = py2gal.COQ_TY[tr.ret_type]
    if tr.raises:
        body = body.replace('RET(', 'Ok (').replace('RAISE(', 'Exn (')
        rty = 'res (%s)' % rty
    else:
        body = body.replace('RET(', '(')
    args = ''.join(' (%s : %s)' % (p, py2gal.COQ_TY[t]) for p, t in params)
    selfargs = ''.join(' (self_%s : %s)' % (f, py2gal.COQ_TY[t]) for f, t in (tr.fields or {}).items()) if getattr(tr, 'read_fields', False) else ''
    return ''.join(tr.aux) + 'Definition %s%s%s%s : %s :=\n%s.\n' % (name, binders, selfargs, args, rty, body)

VBIND = ' {V : Type} (vparse : bytes -> option V)'

def generate_code17():
    """Gen/C17_Code.v"""
    failclosed.check_all(FAILCLOSED['generate_code17'])
    m = repo_import('oslo_utils.versionutils')
    tree = repo_ast('oslo_utils/versionutils.py')
    regexes = []
    defs = []
    try:
        t = T17([('version_str', 'bytes')], regexes, m)
        defs.append(translate17(t, py2gal.get_fndef(tree, 'convert_version_to_tuple'), 'gen_convert_version_to_tuple', [('version_str', 'bytes')]))
        tup = {'convert_version_to_tuple': Fn('gen_convert_version_to_tuple', ['bytes'], 'intlist', raises=True)}
        t = T17([('version', 'bytes')], regexes, m, funcs=tup)
        defs.append(translate17(t, py2gal.get_fndef(tree, 'convert_version_to_int'), 'gen_convert_version_to_int_str', [('version', 'bytes')]))
        t = T17([('version', 'intlist')], regexes, m, funcs=tup)
        defs.append(translate17(t, py2gal.get_fndef(tree, 'convert_version_to_int'), 'gen_convert_version_to_int_tuple', [('version', 'intlist')]))
        ps = [('requested_version', 'bytes'), ('current_version', 'bytes'), ('same_major', 'bool')]
        t = T17(ps, regexes, m)
        defs.append(translate17(t, py2gal.get_fndef(tree, 'is_compatible'), 'gen_is_compatible', ps,
                                binders=VBIND + ' (vle : V -> V -> bool) (major : V -> Z)'))
        t = T17([('pred', 'bytes')], regexes, m)
        defs.append(translate17(t, py2gal.get_fndef(tree, '_parse_predicate', 'VersionPredicate'), 'gen_parse_predicate', [('pred', 'bytes')],
                                binders=VBIND, self_param=True))
        t = T17([('predicate_str', 'bytes')], regexes, m, fields={'pred': 'predlist'},
                funcs={'self._parse_predicate': Fn('(gen_parse_predicate vparse)', ['bytes'], 'predpair', raises=True)})
        body = translate17(t, py2gal.get_fndef(tree, '__init__', 'VersionPredicate'), 'gen_predicate_init', [('predicate_str', 'bytes')],
                           binders=VBIND, self_param=True)
        # __init__ only sets self.pred and returns None: expose the new state
        if t.assigned_fields != {'pred'} or t.ret_type != 'none': raise Unsupported('__init__ does more than setting self.pred')
        if body.count('Ok (((self_pred), tt))') != 1 or ': res (unit)' not in body: raise Unsupported('__init__ return shape')
        body = body.replace(': res (unit)', ': res (list (option bytes * V))').replace('Ok (((self_pred), tt))', 'Ok (self_pred)')
        defs.append(body)
        # satisfied_by reads self.pred and the operator table (Gen/Versionutils.comp_map is generated from the same class attribute)
        t = T17([('version_str', 'bytes')], regexes, m, fields={'pred': 'predlist'})
        t.tables = {'self._COMP_MAP': 'comp_map'}
        t.read_fields = True
        defs.append(translate17(t, py2gal.get_fndef(tree, 'satisfied_by', 'VersionPredicate'), 'gen_satisfied_by', [('version_str', 'bytes')],
                                binders=VBIND + ' (vle veq : V -> V -> bool)', self_param=True))
        if t.assigned_fields: raise Unsupported('satisfied_by assigns a field')
    except (Unsupported, regex_tr.Unsupported) as e:
        raise GenError('statement-level translation: ' + str(e))
    out = [HEADER % ('oslo_utils/versionutils.py', 'tools/gen/gen_versionutils.py (py2gal + T17)')]
    out.append('Require Import OV.Base.Bytes OV.Base.Py OV.Base.PyInt OV.Base.Str OV.Base.Regex OV.Base.C17_Py OV.Gen.Versionutils.\nOpen Scope N_scope.')
    # operator.lt/le/eq/gt/ge/ne applied to two Version objects, in terms of the contract's <= and ==
    out.append('Definition cmp_apply {V : Type} (vle veq : V -> V -> bool) (o : cmpop) (a b : V) : bool :=\n'
               '  match o with OpLt => vle a b && negb (veq a b) | OpLe => vle a b | OpEq => veq a b\n'
               '  | OpGt => vle b a && negb (veq a b) | OpGe => vle b a | OpNe => negb (veq a b) end.')
    for name, coq, _ in regexes:
        out.append('Definition %s : re := %s.' % (name, coq))
    out.append('Open Scope Z_scope.')
    return '\n'.join(out) + '\n' + ''.join(defs)

if __name__ == '__main__':
    import sys
    sys.stdout.write(generate()); sys.stdout.write(generate_code()); sys.stdout.write(generate_code17())
