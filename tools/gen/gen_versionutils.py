"""Gen/Versionutils.v from oslo_utils/versionutils.py"""
import ast
from common import *
import regex_tr

def generate():
    m = repo_import('oslo_utils.versionutils')
    tree = repo_ast('oslo_utils/versionutils.py')
    # convert_version_to_int: the radix is the integer literal of the reduce lambda
    f = find_def(tree, 'convert_version_to_int')
    lambdas = [n for n in ast.walk(f) if isinstance(n, ast.Lambda)]
    if len(lambdas) != 1: raise GenError('convert_version_to_int: expected one lambda')
    lam = lambdas[0]
    # expected shape: lambda x, y: (x * R) + y
    b = lam.body
    ok = (isinstance(b, ast.BinOp) and isinstance(b.op, ast.Add) and isinstance(b.left, ast.BinOp)
          and isinstance(b.left.op, ast.Mult) and isinstance(b.left.left, ast.Name)
          and isinstance(b.left.right, ast.Constant) and isinstance(b.right, ast.Name)
          and [a.arg for a in lam.args.args] == [b.left.left.id, b.right.id])
    if not ok: raise GenError('convert_version_to_int: lambda is not x*R+y')
    radix_int = b.left.right.value
    # convert_version_to_str: factor = R
    g = find_def(tree, 'convert_version_to_str')
    factor = None
    for n in ast.walk(g):
        if isinstance(n, ast.Assign) and len(n.targets) == 1 and isinstance(n.targets[0], ast.Name) \
           and n.targets[0].id == 'factor' and isinstance(n.value, ast.Constant):
            factor = n.value.value
    if not isinstance(factor, int): raise GenError('convert_version_to_str: factor literal not found')
    # convert_version_to_tuple: the re.sub call
    h = find_def(tree, 'convert_version_to_tuple')
    subs = [n for n in ast.walk(h) if isinstance(n, ast.Call) and isinstance(n.func, ast.Attribute) and n.func.attr == 'sub']
    if len(subs) != 1 or not all(isinstance(a, ast.Constant) for a in subs[0].args[:2]):
        raise GenError('convert_version_to_tuple: re.sub call not found')
    pat, repl = subs[0].args[0].value, subs[0].args[1].value
    splits = [n for n in ast.walk(h) if isinstance(n, ast.Call) and isinstance(n.func, ast.Attribute) and n.func.attr == 'split']
    if len(splits) != 1 or len(splits[0].args) != 1 or not isinstance(splits[0].args[0], ast.Constant) or len(splits[0].args[0].value) != 1:
        raise GenError('convert_version_to_tuple: split separator')
    sep = splits[0].args[0].value
    suffix_re, w = regex_tr.regex_to_coq(pat, 0)
    if w <= 0: raise GenError('suffix pattern may match the empty string')
    pred_re, _ = regex_tr.regex_to_coq(m.VersionPredicate._PREDICATE_MATCH)
    ops = list(m.VersionPredicate._COMP_MAP.keys())
    import operator
    opname = {operator.lt: 'OpLt', operator.le: 'OpLe', operator.eq: 'OpEq', operator.gt: 'OpGt', operator.ge: 'OpGe', operator.ne: 'OpNe'}
    try:
        comp = [(k, opname[v]) for k, v in m.VersionPredicate._COMP_MAP.items()]
    except KeyError:
        raise GenError('_COMP_MAP maps to an unknown operator')
    out = [HEADER % ('oslo_utils/versionutils.py', 'tools/gen/gen_versionutils.py')]
    out.append('Require Import OV.Base.Bytes OV.Base.PyInt OV.Base.Regex.')
    out.append('Open Scope N_scope.')
    out.append('Definition radix_to_int : Z := %d%%Z.' % radix_int)
    out.append('Definition radix_to_str : Z := %d%%Z.' % factor)
    out.append('Definition version_sep : N := %d%%N.' % ord(sep))
    out.append('Definition suffix_re : re := %s.' % suffix_re)
    out.append('Definition suffix_repl : list titem := %s.' % regex_tr.template_to_coq(repl))
    out.append('Definition predicate_re : re := %s.' % pred_re)
    out.append('Inductive cmpop := OpLt | OpLe | OpEq | OpGt | OpGe | OpNe.')
    out.append('Definition comp_map : list (str * cmpop) := [%s].' % '; '.join('(%s, %s)' % (lit(k), v) for k, v in comp))
    return '\n'.join(out) + '\n'

def generate_code():
    """statement-level translation of convert_version_to_str"""
    import py2gal
    from py2gal import Fn
    tree = repo_ast('oslo_utils/versionutils.py')
    try:
        body = py2gal.translate_function(
            py2gal.get_fndef(tree, 'convert_version_to_str'), 'gen_convert_version_to_str', [('version_int', 'int')],
            funcs={'str': Fn('dec_of_Z', ['int'], 'bytes')},
            consts={"'.'.join(map(str, version_numbers))": ('(join [46%N] version_numbers)', 'bytes')},
            hints={'version_numbers': 'strlist'}, fuel='fuel')
    except py2gal.Unsupported as e:
        raise GenError('convert_version_to_str: ' + str(e))
    return (HEADER % ('oslo_utils/versionutils.py', 'tools/gen/gen_versionutils.py (py2gal)')
            + 'Require Import OV.Base.Bytes OV.Base.Py OV.Base.PyInt OV.Base.Str.\nOpen Scope Z_scope.\n' + body)

if __name__ == '__main__':
    import sys
    sys.stdout.write(generate()); sys.stdout.write(generate_code())
