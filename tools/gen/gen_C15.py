"""Gen/C15_Netutils.v from oslo_utils/netutils.py (property C15).

Everything is read from the AST of the file in /repo, fail-closed (GenError => the
runner falls back to coq/GenBaseline/C15_Netutils.v and says so in the evidence):

  gen_eui64_combine      the integer expression inside `netaddr.IPAddress(...)` of
                         get_ipv6_addr_by_EUI64 (operator precedence as CPython parses it)
  gen_eui64_prechecks    the guards before the `try` (not-a-str -> TypeError, IPv4 -> ValueError)
  gen_eui64_handlers     the `except` clauses of get_ipv6_addr_by_EUI64: (classes caught, class raised)
  gen_mac_of_ipv6        the integer expression inside `netaddr.EUI(int(...))` of get_mac_addr_by_ipv6
  gen_parse_host_port    statement-level translation of parse_host_port
  gen_urlsplit_post      statement-level translation of what urlsplit does after parse.urlsplit
"""
import ast
from common import *
import py2gal
from py2gal import Unsupported
import failclosed

# the functions read below (and is_valid_ipv4, which the guards of get_ipv6_addr_by_EUI64 call with its default): one undecorated
# definition each, bound to its name at run time; `netaddr` / `parse` the real modules (tools/gen/failclosed.py)
FAILCLOSED = {'generate': [{'src': 'oslo_utils/netutils.py', 'mod': 'oslo_utils.netutils',
    'classes': {'_ModifiedSplitResult': {'bases': ['parse.SplitResult']}},
    'functions': {'get_ipv6_addr_by_EUI64': {'defaults': {}}, 'get_mac_addr_by_ipv6': {'defaults': {'dialect': 'netaddr.mac_unix_expanded'}},
                  'parse_host_port': {'defaults': {'default_port': 'None'}}, 'urlsplit': {'defaults': {'scheme': "''", 'allow_fragments': 'True'}},
                  'is_valid_ipv4': {'defaults': {'strict': 'True'}}},
    'imports': {'netaddr': 'netaddr', 'parse': 'urllib.parse'}}]}

COQ_TY = dict(py2gal.COQ_TY, pyval='pyval', hostport='(option bytes * option Z)',
              split5='(bytes * bytes * bytes * bytes * bytes)')


def _char(e):
    """code point of a one-character str constant, else None"""
    if isinstance(e, ast.Constant) and isinstance(e.value, str) and len(e.value) == 1:
        return ord(e.value)
    return None


class NetTr(py2gal.Translator):
    """py2gal + the str methods / tuple statements parse_host_port and urlsplit use.

    additional expression forms (pure):
        not s                         s : str            -> bempty s
        'c' in s / 'c' not in s       s : str            -> has_char c s
        s.count('c')                  s : str            -> count_char c s
    additional statement forms (may raise, exactly as CPython does):
        if s[k] == 'c': A else: B     IndexError when k is out of range
        a, b = s.split('c')           ValueError unless exactly two fields
        a, b = s.split('c', n)        the same with maxsplit; s.rsplit('c', n) likewise (from the right)
        x = s.split('c')[k]           IndexError when there is no k-th field
        return (e0, e1)               element forms: None, a str, `None if v is None else int(v)`
        return Ctor(a, b, c, d, e)    five str names (a SplitResult) -> a 5-tuple
    A local hinted 'pyval' (None | int | str) receives str values wrapped in VStr.
    """
    def __init__(self, *a, ret_elems=None, ctor=None, **k):
        super().__init__(*a, **k)
        self.ret_elems = ret_elems
        self.ctor = ctor

    # ---- expressions
    def expr(self, e):
        if isinstance(e, ast.UnaryOp) and isinstance(e.op, ast.Not):
            a, ta = self.expr(e.operand)
            if ta == 'bytes': return '(bempty %s)' % a, 'bool'
            if ta == 'bool': return '(negb %s)' % a, 'bool'
            raise Unsupported('not on ' + ta)
        if isinstance(e, ast.Compare) and len(e.ops) == 1 and isinstance(e.ops[0], (ast.In, ast.NotIn)):
            c = _char(e.left)
            if c is None: raise Unsupported('`in` with a non one-character needle')
            s, ts = self.expr(e.comparators[0])
            if ts != 'bytes': raise Unsupported('`in` on ' + ts)
            t = '(has_char %d%%N %s)' % (c, s)
            return (t if isinstance(e.ops[0], ast.In) else '(negb %s)' % t), 'bool'
        if isinstance(e, ast.Call) and isinstance(e.func, ast.Attribute) and e.func.attr == 'count':
            if e.keywords or len(e.args) != 1 or _char(e.args[0]) is None: raise Unsupported('count arguments')
            s, ts = self.expr(e.func.value)
            if ts != 'bytes': raise Unsupported('count on ' + ts)
            return '(count_char %d%%N %s)' % (_char(e.args[0]), s), 'int'
        return super().expr(e)

    def split_call(self, e):
        """e = <str expr>.split('c'[, n]) or .rsplit('c'[, n])  ->  Coq text of the list of fields, else None"""
        if not (isinstance(e, ast.Call) and isinstance(e.func, ast.Attribute) and e.func.attr in ('split', 'rsplit')): return None
        if e.keywords or not (1 <= len(e.args) <= 2) or _char(e.args[0]) is None: raise Unsupported('split arguments')
        s, ts = self.expr(e.func.value)
        if ts != 'bytes': raise Unsupported('split on ' + ts)
        right = e.func.attr == 'rsplit'
        if len(e.args) == 2:
            n = e.args[1]
            if not (isinstance(n, ast.Constant) and isinstance(n.value, int) and not isinstance(n.value, bool) and 0 <= n.value <= 64):
                raise Unsupported('maxsplit')
            return '(%ssplit_char_max %d%%N %s %d%%nat)' % ('r' if right else '', _char(e.args[0]), s, n.value)
        # without maxsplit, rsplit and split give the same fields
        return '(split_char %d%%N %s)' % (_char(e.args[0]), s)

    def bind_str(self, tgt, rest_fn, fresh):
        """binds the Coq variable `fresh` (a str) to the Python name tgt; returns text"""
        if not isinstance(tgt, ast.Name): raise Unsupported('target ' + self.src(tgt))
        if self.hints.get(tgt.id) == 'pyval' or self.types.get(tgt.id) == 'pyval':
            self.bind_target(tgt, 'pyval')
            return 'let %s := (VStr %s) in\n' % (tgt.id, fresh)
        self.bind_target(tgt, 'bytes')
        return 'let %s := %s in\n' % (tgt.id, fresh)

    # ---- statements
    def block(self, stmts):
        if stmts:
            s, rest = stmts[0], stmts[1:]
            # if s[k] == 'c':
            if isinstance(s, ast.If) and isinstance(s.test, ast.Compare) and len(s.test.ops) == 1 \
                    and isinstance(s.test.ops[0], ast.Eq) and isinstance(s.test.left, ast.Subscript) \
                    and _char(s.test.comparators[0]) is not None:
                sub = s.test.left
                k = sub.slice
                if not (isinstance(k, ast.Constant) and isinstance(k.value, int) and not isinstance(k.value, bool) and 0 <= k.value <= 64):
                    raise Unsupported('index')
                a, ta = self.expr(sub.value)
                if ta != 'bytes': raise Unsupported('index of ' + ta)
                self.raises = True
                saved = dict(self.types)
                A = self.block(s.body + rest); self.types = dict(saved)
                B = self.block(s.orelse + rest); self.types = dict(saved)
                return ('match nth_error %s %d%%nat with None => RAISE(IndexError) | Some c__ =>\nif (c__ =? %d)%%N then (\n%s) else (\n%s) end'
                        % (a, k.value, _char(s.test.comparators[0]), A, B))
            # a, b = s.split('c'[, n])
            if isinstance(s, ast.Assign) and len(s.targets) == 1 and isinstance(s.targets[0], ast.Tuple):
                fields = self.split_call(s.value)
                if fields is None: raise Unsupported('tuple assignment from ' + self.src(s.value))
                tg = s.targets[0].elts
                if len(tg) != 2: raise Unsupported('unpacking into %d names' % len(tg))
                self.raises = True
                binds = ''.join(self.bind_str(t, None, 'f%d__' % i) for i, t in enumerate(tg))
                return 'match %s with\n| [f0__; f1__] =>\n%s%s\n| _ => RAISE(ValueError) end' % (fields, binds, self.block(rest))
            # x = s.split('c')[k]
            if isinstance(s, ast.Assign) and len(s.targets) == 1 and isinstance(s.value, ast.Subscript) \
                    and self.is_split(s.value.value):
                k = s.value.slice
                if not (isinstance(k, ast.Constant) and isinstance(k.value, int) and not isinstance(k.value, bool) and 0 <= k.value <= 64):
                    raise Unsupported('index')
                fields = self.split_call(s.value.value)
                self.raises = True
                b = self.bind_str(s.targets[0], None, 'f__')
                return 'match nth_error %s %d%%nat with None => RAISE(IndexError) | Some f__ =>\n%s%s end' % (fields, k.value, b, self.block(rest))
            # x = <str expr>   where x is a 'pyval' local
            if isinstance(s, ast.Assign) and len(s.targets) == 1 and isinstance(s.targets[0], ast.Name) \
                    and (self.hints.get(s.targets[0].id) == 'pyval' or self.types.get(s.targets[0].id) == 'pyval'):
                v, ty = self.expr(s.value)
                if ty == 'bytes': v = '(VStr %s)' % v
                elif ty == 'int': v = '(VInt %s)' % v
                elif ty == 'none': v = 'VNone'
                elif ty != 'pyval': raise Unsupported('pyval := ' + ty)
                self.bind_target(s.targets[0], 'pyval')
                return 'let %s := %s in\n%s' % (s.targets[0].id, v, self.block(rest))
            if isinstance(s, ast.Return) and isinstance(s.value, ast.Tuple) and self.ret_elems is not None:
                return self.ret_tuple(s.value)
            if isinstance(s, ast.Return) and isinstance(s.value, ast.Call) and self.ctor is not None \
                    and self.src(s.value.func) == self.ctor:
                c = s.value
                if c.keywords or len(c.args) != 5: raise Unsupported('constructor arguments')
                parts = []
                for a in c.args:
                    if not isinstance(a, ast.Name): raise Unsupported('constructor argument ' + self.src(a))
                    v, ty = self.expr(a)
                    if ty != 'bytes': raise Unsupported('constructor argument type ' + ty)
                    parts.append(v)
                return self.ret('(%s)' % ', '.join(parts), 'split5')
        return super().block(stmts)

    def is_split(self, e):
        return isinstance(e, ast.Call) and isinstance(e.func, ast.Attribute) and e.func.attr in ('split', 'rsplit')

    def ret_tuple(self, t):
        if len(t.elts) != len(self.ret_elems): raise Unsupported('tuple arity')
        pre, parts = [], []
        for i, (e, want) in enumerate(zip(t.elts, self.ret_elems)):
            if isinstance(e, ast.Constant) and e.value is None:
                parts.append('None'); continue
            if want == 'optstr':
                v, ty = self.expr(e)
                if ty != 'bytes': raise Unsupported('tuple element type ' + ty)
                parts.append('(Some %s)' % v); continue
            if want == 'optint':
                # None if v is None else int(v)
                ok = (isinstance(e, ast.IfExp) and isinstance(e.body, ast.Constant) and e.body.value is None
                      and isinstance(e.test, ast.Compare) and len(e.test.ops) == 1 and isinstance(e.test.ops[0], ast.Is)
                      and isinstance(e.test.comparators[0], ast.Constant) and e.test.comparators[0].value is None
                      and isinstance(e.test.left, ast.Name)
                      and isinstance(e.orelse, ast.Call) and isinstance(e.orelse.func, ast.Name) and e.orelse.func.id == 'int'
                      and not e.orelse.keywords and len(e.orelse.args) == 1 and isinstance(e.orelse.args[0], ast.Name)
                      and e.orelse.args[0].id == e.test.left.id)
                if not ok: raise Unsupported('tuple element ' + self.src(e))
                v, ty = self.expr(e.test.left)
                if ty != 'pyval': raise Unsupported('int() of ' + ty)
                self.raises = True
                pre.append('match opt_int %s with Exn e__ => RAISE(e__) | Ok r%d__ =>\n' % (v, i))
                parts.append('r%d__' % i); continue
            raise Unsupported('tuple element kind ' + want)
        return ''.join(pre) + self.ret('(%s)' % ', '.join(parts), 'hostport') + ' end' * len(pre)


def translate(fndef_body, argnames_expected, fndef, name, params, ret_type, **kw):
    argn = [a.arg for a in fndef.args.args]
    if argn != argnames_expected: raise Unsupported('signature of %s changed: %s' % (fndef.name, argn))
    if fndef.args.vararg or fndef.args.kwarg or fndef.args.kwonlyargs: raise Unsupported('varargs')
    tr = NetTr(params, None, None, None, 'self', ret_type, **kw)
    tr.name = name
    body = tr.block(fndef_body)
    rty = COQ_TY[tr.ret_type]
    if tr.raises:
        body = body.replace('RET(', 'Ok (').replace('RAISE(', 'Exn (')
        rty = 'res %s' % rty
    else:
        body = body.replace('RET(', '(')
    args = ''.join(' (%s : %s)' % (p, COQ_TY[t]) for p, t in params)
    return 'Definition %s%s : %s :=\n%s.\n' % (name, args, rty, body)


def defaults_of(fndef):
    return [ast.unparse(d) for d in fndef.args.defaults]


def gen_parse_host_port(tree):
    f = find_def(tree, 'parse_host_port')
    if defaults_of(f) != ['None']: raise GenError('parse_host_port: default of default_port changed')
    return translate(f.body, ['address', 'default_port'], f, 'gen_parse_host_port',
                     [('address', 'bytes'), ('default_port', 'pyval')], 'hostport',
                     hints={'port': 'pyval'}, ret_elems=['optstr', 'optint'])


def gen_urlsplit_post(tree):
    f = find_def(tree, 'urlsplit')
    if defaults_of(f) != ["''", 'True']: raise GenError('urlsplit: parameter defaults changed')
    body = [s for s in f.body if not (isinstance(s, ast.Expr) and isinstance(s.value, ast.Constant))]
    first = body[0] if body else None
    names = ['scheme', 'netloc', 'path', 'query', 'fragment']
    ok = (isinstance(first, ast.Assign) and len(first.targets) == 1 and isinstance(first.targets[0], ast.Tuple)
          and [ast.unparse(x) for x in first.targets[0].elts] == names
          and ast.unparse(first.value) == 'parse.urlsplit(url, scheme, allow_fragments)')
    if not ok: raise GenError('urlsplit: first statement is not the 5-tuple from parse.urlsplit(url, scheme, allow_fragments)')
    imp = [n for n in tree.body if isinstance(n, ast.ImportFrom) and n.module == 'urllib' and any(a.name == 'parse' and a.asname is None for a in n.names)]
    if not imp: raise GenError('urlsplit: `from urllib import parse` not found')
    # the returned class must be the SplitResult subclass defined in the module
    cls = [n for n in tree.body if isinstance(n, ast.ClassDef) and n.name == '_ModifiedSplitResult']
    if len(cls) != 1 or [ast.unparse(b) for b in cls[0].bases] != ['parse.SplitResult']:
        raise GenError('_ModifiedSplitResult is not a parse.SplitResult subclass')
    if any(isinstance(n, ast.FunctionDef) and n.name in ('__new__', '__init__', '__getitem__', '__iter__') for n in cls[0].body):
        raise GenError('_ModifiedSplitResult overrides construction')
    f2 = ast.FunctionDef(name='urlsplit', args=f.args, body=body[1:], decorator_list=[])
    return translate(body[1:], ['url', 'scheme', 'allow_fragments'], f2, 'gen_urlsplit_post',
                     [(n, 'bytes') for n in names] + [('allow_fragments', 'bool')], 'split5',
                     ctor='_ModifiedSplitResult')


def gen_mac_of_ipv6(tree):
    f = find_def(tree, 'get_mac_addr_by_ipv6')
    body = [s for s in f.body if not (isinstance(s, ast.Expr) and isinstance(s.value, ast.Constant))]
    if len(body) != 1 or not isinstance(body[0], ast.Return): raise GenError('get_mac_addr_by_ipv6: body is not a single return')
    c = body[0].value
    ok = (isinstance(c, ast.Call) and ast.unparse(c.func) == 'netaddr.EUI' and len(c.args) == 1
          and [(k.arg, ast.unparse(k.value)) for k in c.keywords] == [('dialect', 'dialect')]
          and isinstance(c.args[0], ast.Call) and ast.unparse(c.args[0].func) == 'int'
          and len(c.args[0].args) == 1 and not c.args[0].keywords)
    if not ok: raise GenError('get_mac_addr_by_ipv6: not netaddr.EUI(int(<expr>), dialect=dialect)')
    if [a.arg for a in f.args.args] != ['ipv6', 'dialect']: raise GenError('get_mac_addr_by_ipv6: signature')
    tr = NetTr([('ipv6', 'int')])
    v, ty = tr.expr(c.args[0].args[0])
    if ty != 'int': raise GenError('get_mac_addr_by_ipv6: expression type')
    return 'Definition gen_mac_of_ipv6 (ipv6 : Z) : Z :=\n%s.\n' % v


LIBEXN = {'ValueError': 'LValueError', 'netaddr.AddrFormatError': 'LAddrFormatError', 'TypeError': 'LTypeError'}
EXN = {'ValueError', 'TypeError'}

def _raised(stmts):
    """the class raised by a block that is `[msg = ...;] raise Cls(...)`"""
    body = [s for s in stmts if not isinstance(s, ast.Assign)]
    if len(body) != 1 or not isinstance(body[0], ast.Raise) or body[0].cause is not None: raise GenError('handler/guard body is not a single raise')
    e = body[0].exc
    if not (isinstance(e, ast.Call) and isinstance(e.func, ast.Name) and e.func.id in EXN): raise GenError('raise of ' + ast.unparse(e)[:60])
    return e.func.id


def gen_eui64(tree):
    f = find_def(tree, 'get_ipv6_addr_by_EUI64')
    if [a.arg for a in f.args.args] != ['prefix', 'mac']: raise GenError('get_ipv6_addr_by_EUI64: signature')
    body = [s for s in f.body if not (isinstance(s, ast.Expr) and isinstance(s.value, ast.Constant))]
    if not body or not isinstance(body[-1], ast.Try): raise GenError('get_ipv6_addr_by_EUI64: last statement is not try')
    # guards
    guards = []
    for s in body[:-1]:
        if not isinstance(s, ast.If) or s.orelse: raise GenError('get_ipv6_addr_by_EUI64: guard shape')
        t = ast.unparse(s.test)
        if t == 'not isinstance(prefix, str)': kind = 'GuardNotStr'
        elif t == 'is_valid_ipv4(prefix, False)': kind = 'GuardIPv4Loose'
        elif t in ('is_valid_ipv4(prefix, True)', 'is_valid_ipv4(prefix)'): kind = 'GuardIPv4Strict'
        else: raise GenError('get_ipv6_addr_by_EUI64: unknown guard ' + t[:60])
        guards.append((kind, _raised(s.body)))
    tr_ = body[-1]
    if tr_.orelse or tr_.finalbody: raise GenError('try/else/finally')
    want = ['eui64 = int(netaddr.EUI(mac).eui64())', 'prefix = netaddr.IPNetwork(prefix)']
    if [ast.unparse(s) for s in tr_.body[:-1]] != want: raise GenError('get_ipv6_addr_by_EUI64: try body changed')
    r = tr_.body[-1]
    ok = (isinstance(r, ast.Return) and isinstance(r.value, ast.Call) and ast.unparse(r.value.func) == 'netaddr.IPAddress'
          and len(r.value.args) == 1 and not r.value.keywords)
    if not ok: raise GenError('get_ipv6_addr_by_EUI64: return is not netaddr.IPAddress(<expr>)')
    tr = NetTr([('eui64', 'int')], consts={'prefix.first': ('first', 'int')})
    v, ty = tr.expr(r.value.args[0])
    if ty != 'int': raise GenError('combine expression type')
    handlers = []
    for h in tr_.handlers:
        if h.type is None: raise GenError('bare except')
        names = [ast.unparse(x) for x in (h.type.elts if isinstance(h.type, ast.Tuple) else [h.type])]
        try: caught = [LIBEXN[n] for n in names]
        except KeyError as e: raise GenError('except class %s' % e)
        handlers.append((caught, _raised(h.body)))
    out = ['Definition gen_eui64_combine (first eui64 : Z) : Z :=\n%s.' % v]
    out.append('Definition gen_eui64_prechecks : list (guard * exn) := [%s].' % '; '.join('(%s, %s)' % g for g in guards))
    out.append('Definition gen_eui64_handlers : list (list libexn * exn) := [%s].'
               % '; '.join('([%s], %s)' % ('; '.join(c), r) for c, r in handlers))
    return '\n'.join(out) + '\n'


# module-level names the functions of the property may read: imports, the gettext marker, sibling functions / the
# result class.  Anything else at module level (a cache dict, a counter, a flag) is state the translation does not
# see: refuse (GenError -> baseline fallback, the correspondence / statelessness checks decide).
ALLOWED_GLOBALS = {'netaddr', 'parse', '_', 'is_valid_ipv4', 'is_valid_ipv6', '_ModifiedSplitResult', 'INET_ATON', 'INET_PTON'}
STATELESS = [('get_ipv6_addr_by_EUI64', None), ('get_mac_addr_by_ipv6', None), ('parse_host_port', None), ('escape_ipv6', None),
             ('urlsplit', None), ('is_valid_ipv4', None), ('is_valid_ipv6', None), ('params', '_ModifiedSplitResult')]

def check_no_module_state(tree):
    import builtins
    for name, cls in STATELESS:
        f = find_def(tree, name, cls)
        local = {a.arg for a in f.args.args + f.args.kwonlyargs}
        if f.args.vararg: local.add(f.args.vararg.arg)
        if f.args.kwarg: local.add(f.args.kwarg.arg)
        for n in ast.walk(f):
            if isinstance(n, (ast.Global, ast.Nonlocal)): raise GenError('%s declares global/nonlocal %s' % (name, ', '.join(n.names)))
            if isinstance(n, ast.Name) and isinstance(n.ctx, (ast.Store, ast.Del)): local.add(n.id)
            if isinstance(n, ast.ExceptHandler) and n.name: local.add(n.name)
            if isinstance(n, (ast.FunctionDef, ast.Lambda, ast.ClassDef)) and n is not f: raise GenError('%s defines a nested function/class' % name)
            if isinstance(n, ast.comprehension):
                for t in ast.walk(n.target):
                    if isinstance(t, ast.Name): local.add(t.id)
        for n in ast.walk(f):
            if isinstance(n, ast.Name) and isinstance(n.ctx, ast.Load) and n.id not in local \
                    and n.id not in ALLOWED_GLOBALS and not hasattr(builtins, n.id):
                raise GenError('%s reads the module-level name %s (state the translation does not see)' % (name, n.id))
        # attributes hung on the function objects themselves (f.cache = {...})
    for n in ast.walk(tree):
        if isinstance(n, (ast.Assign, ast.AugAssign, ast.AnnAssign)):
            for t in (n.targets if isinstance(n, ast.Assign) else [n.target]):
                if isinstance(t, ast.Attribute) and isinstance(t.value, ast.Name) and t.value.id in {x for x, _ in STATELESS} | {'_ModifiedSplitResult'}:
                    raise GenError('attribute %s.%s is assigned' % (t.value.id, t.attr))


def generate():
    failclosed.check_all(FAILCLOSED['generate'])
    tree = repo_ast('oslo_utils/netutils.py')
    check_no_module_state(tree)
    try:
        parts = [gen_eui64(tree), gen_mac_of_ipv6(tree), gen_parse_host_port(tree), gen_urlsplit_post(tree)]
    except Unsupported as e:
        raise GenError('netutils: ' + str(e))
    return (HEADER % ('oslo_utils/netutils.py', 'tools/gen/gen_C15.py (py2gal + str/tuple extensions)')
            + 'Require Import OV.Base.Bytes OV.Base.Py OV.Base.PyInt OV.Base.Str OV.Base.C15_PyVal.\nOpen Scope Z_scope.\n'
            + '(* exception classes a netaddr call can raise, as the except clauses name them *)\n'
            + 'Inductive libexn := LValueError | LAddrFormatError | LTypeError | LOtherExn.\n'
            + '(* guards in front of the try: block of get_ipv6_addr_by_EUI64 *)\n'
            + 'Inductive guard := GuardNotStr | GuardIPv4Loose | GuardIPv4Strict.\n'
            + '\n'.join(parts))


if __name__ == '__main__':
    import sys
    sys.stdout.write(generate())
