"""gen_C07 — statement-level translation (py2gal) of the `virtual_size` properties that fit the subset:
VHDInspector, VDIInspector, ISOInspector, LUKSInspector, VHDXInspector  ->  coq/Gen/C07_Code.v

The inspector state a property reads is abstracted into parameters, one per *source expression*
(`self.region('header').complete` -> hdr_complete, `self.region('header').data` -> hdr, `self.format_match` ->
fmatch, ...): the table EXPRS below is positional and exact (expression TEXT), anything else in the body fails
closed.  Two shapes are rewritten before translation, both exact:
    struct.unpack(FMT, X)[0]          ->  C07_unpack1_<FMT>(X)
    name, = struct.unpack(FMT, X)     ->  name = C07_unpack1_<FMT>(X)
with FMT one of the single-field formats of UNPACK (a raising call: struct.error unless len(X) = size).
Proofs/C07_Equiv.v proves each translation equal to the hand-written model (Model/Insp_*.v).
"""
import ast, copy
from common import repo_ast, GenError, HEADER
import py2gal
from py2gal import Fn
import failclosed

SRC = 'oslo_utils/imageutils/format_inspector.py'

# struct format -> (big endian?, size)
UNPACK = {'>Q': (True, 8), '<Q': (False, 8), '<H': (False, 2), '<L': (False, 4), '<I': (False, 4), '>I': (True, 4)}
def tag(fmt): return ('be' if UNPACK[fmt][0] else 'le') + str(UNPACK[fmt][1])

FUNCS = {'C07_unpack1_' + tag(f): Fn('(C07_unpack1 %s %d)' % ('true' if UNPACK[f][0] else 'false', UNPACK[f][1]), ['bytes'], 'int', raises=True)
         for f in UNPACK}

class Rewrite(ast.NodeTransformer):
    def _unpack(self, call):
        if not (isinstance(call, ast.Call) and ast.unparse(call.func) == 'struct.unpack' and len(call.args) == 2 and not call.keywords
                and isinstance(call.args[0], ast.Constant) and isinstance(call.args[0].value, str)):
            return None
        fmt = call.args[0].value
        if fmt not in UNPACK: raise GenError('struct format %r is not a single-field format known to gen_C07' % fmt)
        return ast.Call(func=ast.Name(id='C07_unpack1_' + tag(fmt), ctx=ast.Load()), args=[self.visit(call.args[1])], keywords=[])
    def visit_Subscript(self, n):
        if isinstance(n.slice, ast.Constant) and n.slice.value == 0:
            c = self._unpack(n.value)
            if c is not None: return c
        return self.generic_visit(n)
    def visit_Assign(self, n):
        if len(n.targets) == 1 and isinstance(n.targets[0], ast.Tuple) and len(n.targets[0].elts) == 1:
            c = self._unpack(n.value)
            if c is not None:
                return ast.Assign(targets=[n.targets[0].elts[0]], value=c, lineno=n.lineno)
        return self.generic_visit(n)

# class -> (coq name, [(source expression text, coq variable, type)])
ITEMS = [
    ('VHDInspector', 'C07_gen_vhd_vsize',
     [("self.region('header').complete", 'hdr_complete', 'bool'), ('self.format_match', 'fmatch', 'bool'),
      ("self.region('header').data", 'hdr', 'bytes')]),
    ('VDIInspector', 'C07_gen_vdi_vsize',
     [("self.region('header').complete", 'hdr_complete', 'bool'), ('self.format_match', 'fmatch', 'bool'),
      ("self.region('header').data", 'hdr', 'bytes')]),
    ('ISOInspector', 'C07_gen_iso_vsize',
     [('self.complete', 'all_complete', 'bool'), ('self.format_match', 'fmatch', 'bool'),
      ("self.region('header').data[0]", 'hdr0', 'int'), ("self.region('header').data", 'hdr', 'bytes')]),
    ('LUKSInspector', 'C07_gen_luks_vsize',
     [('super().virtual_size', 'total', 'int'), ("self.header_items['payload_offset']", 'payload_offset', 'int')]),
    ('VHDXInspector', 'C07_gen_vhdx_vsize',
     [("self.has_region('vds')", 'has_vds', 'bool'), ("self.region('vds').complete", 'vds_complete', 'bool'),
      ("self.region('vds').data", 'vds', 'bytes')]),
]

COQ_TY = {'bool': 'bool', 'int': 'Z', 'bytes': 'bytes'}

# each translated property must be the one definition of its class, each class the one direct FileInspector subclass of that name
# (`super().virtual_size`), `struct` the real module (tools/gen/failclosed.py)
FAILCLOSED = {'generate': [{'src': SRC, 'mod': 'oslo_utils.imageutils.format_inspector',
    'classes': {cls: {'bases': ['FileInspector']} for cls, _, _ in ITEMS},
    'functions': {cls + '.virtual_size': {'decorators': ['property'], 'defaults': {}} for cls, _, _ in ITEMS},
    'imports': {'struct': 'struct'}}]}

def generate():
    failclosed.check_all(FAILCLOSED['generate'])
    tree = repo_ast(SRC)
    parts = [HEADER % (SRC, 'tools/gen/gen_C07.py (py2gal)'),
             'Require Import OV.Base.Bytes OV.Base.Py OV.Model.C07_Struct.\nOpen Scope Z_scope.\n']
    for cls, name, exprs in ITEMS:
        try:
            fn = copy.deepcopy(py2gal.get_fndef(tree, 'virtual_size', cls))
            if [ast.unparse(d) for d in fn.decorator_list] != ['property']:
                raise GenError('%s.virtual_size is no longer a plain property' % cls)
            fn = ast.fix_missing_locations(Rewrite().visit(fn))
            consts = {text: (var, ty) for text, var, ty in exprs}
            body = py2gal.translate_function(fn, name, [], funcs=FUNCS, consts=consts, ret_type='int')
        except py2gal.Unsupported as e:
            raise GenError('py2gal: %s.virtual_size: %s' % (cls, e))
        # every abstracted expression must still occur (a vanished read is a change of shape)
        toks = set(body.replace('(', ' ').replace(')', ' ').split())
        missing = [var for _, var, _ in exprs if var not in toks]
        if missing: raise GenError('%s.virtual_size no longer reads %s' % (cls, ', '.join(missing)))
        sec = name + '_sec'
        parts.append('Section %s.\nVariables %s.\n%sEnd %s.\n' % (
            sec, ' '.join('(%s : %s)' % (var, COQ_TY[ty]) for _, var, ty in exprs), body, sec))
    return ''.join(parts)

if __name__ == '__main__':
    import sys
    sys.stdout.write(generate())
