"""Translate a Python regular expression into the Coq `re` type of Base/Regex.v.

Uses CPython's own parser (re._parser.parse) for the structure and CPython's own
matcher (a one-item pattern compiled under the same flags, tried on every code
point) for the meaning of each character item, so sets, categories, negation and
IGNORECASE folding are exactly what `re` does.  Fail-closed: any construct
outside the supported fragment raises Unsupported."""
import re, json, os, hashlib, sys
import re._parser as P, re._compiler as C
from re._constants import (LITERAL, NOT_LITERAL, IN, ANY, MAX_REPEAT, MIN_REPEAT, SUBPATTERN,
                           BRANCH, AT, AT_BEGINNING, AT_END, MAXREPEAT)

class Unsupported(Exception):
    pass

_CACHE_FILE = os.path.join(os.path.dirname(os.path.abspath(__file__)), '..', '..', 'build', 'cache', 'charsets-%d.%d.json' % sys.version_info[:2])
_cache = None

def _load():
    global _cache
    if _cache is None:
        try:
            _cache = json.load(open(_CACHE_FILE))
        except Exception:
            _cache = {}
    return _cache

def _save():
    os.makedirs(os.path.dirname(_CACHE_FILE), exist_ok=True)
    tmp = _CACHE_FILE + '.%d.tmp' % os.getpid()
    json.dump(_cache, open(tmp, 'w'))
    os.replace(tmp, _CACHE_FILE)

def ranges_of(item, flags):
    """code point ranges matched by a one-character item under flags"""
    flags = flags & (re.I | re.S | re.A | re.M)
    key = '%r|%d' % (item, int(flags))
    c = _load()
    if key in c:
        return [tuple(r) for r in c[key]]
    sp = P.SubPattern(P.State()); sp.data = [item]
    sp.state.flags = flags | re.U if not (flags & re.A) else flags
    pat = C.compile(sp, flags)
    out = []; start = None
    for x in range(0x110000):
        ok = pat.match(chr(x)) is not None
        if ok and start is None: start = x
        if not ok and start is not None: out.append((start, x - 1)); start = None
    if start is not None: out.append((start, 0x10ffff))
    c[key] = out
    _save()
    return out

def cs(item, flags):
    return '[' + ';'.join('(%d,%d)' % r for r in ranges_of(item, flags)) + ']'

CHAR_OPS = (LITERAL, NOT_LITERAL, IN, ANY)

def tr_seq(items, flags):
    if not items: return 'Eps'
    out = tr(items[-1], flags)
    for it in reversed(items[:-1]): out = '(Seq %s %s)' % (tr(it, flags), out)
    return out

def tr(item, flags):
    op, av = item
    if op in CHAR_OPS:
        return '(Chr %s)' % cs(item, flags)
    if op is MAX_REPEAT:
        mn, mx, body = av
        body = list(body)
        if len(body) == 1 and body[0][0] in CHAR_OPS:
            return '(Rep %s %d%%nat %s)' % (cs(body[0], flags), mn, 'None' if mx == MAXREPEAT else '(Some %d%%nat)' % mx)
        if (mn, mx) == (0, 1): return '(Opt %s)' % tr_seq(body, flags)
        if mn == mx and mn <= 16:
            # exact repetition of a group: unrolled (captures of the last iteration win, as in re)
            return tr_seq(body * mn, flags)
        raise Unsupported('repeat {%s,%s} of a multi-item body' % (mn, mx))
    if op is MIN_REPEAT:
        raise Unsupported('lazy repeat')
    if op is SUBPATTERN:
        gid, add_flags, del_flags, body = av
        if add_flags or del_flags: raise Unsupported('inline flags')
        inner = tr_seq(list(body), flags)
        return '(Group %d%%nat %s)' % (gid, inner) if gid is not None else inner
    if op is BRANCH:
        alts = [tr_seq(list(b), flags) for b in av[1]]
        out = alts[-1]
        for a in reversed(alts[:-1]): out = '(Alt %s %s)' % (a, out)
        return out
    if op is AT:
        if flags & re.M: raise Unsupported('MULTILINE anchors')
        if av is AT_BEGINNING: return 'Bol'
        if av is AT_END: return 'Eol'
    raise Unsupported('regex op %s' % (op,))

def regex_to_coq(pattern, flags=0):
    """pattern: str or compiled pattern. Returns (coq_term, min_width)."""
    if hasattr(pattern, 'pattern'):
        flags = pattern.flags & (re.I | re.S | re.M | re.A | re.X)
        pattern = pattern.pattern
    if not isinstance(pattern, str): raise Unsupported('bytes pattern')
    if flags & re.X: raise Unsupported('VERBOSE')
    tree = P.parse(pattern, flags)
    eff = tree.state.flags
    if (eff & (re.L)): raise Unsupported('LOCALE')
    return tr_seq(list(tree), eff), tree.getwidth()[0]

def template_to_coq(repl):
    r"""replacement template with \1 / \g<1> references -> list titem"""
    out = []; i = 0
    while i < len(repl):
        c = repl[i]
        if c == '\\':
            m = re.match(r'\\(\d)|\\g<(\d+)>', repl[i:])
            if not m: raise Unsupported('template escape')
            out.append('TGrp %s%%nat' % (m.group(1) or m.group(2))); i += m.end()
        else:
            out.append('TLit %d' % ord(c)); i += 1
    return '[' + '; '.join(out) + ']'

def lit(s):
    if isinstance(s, str): s = [ord(c) for c in s]
    return '[' + ';'.join(str(int(c)) for c in s) + ']'
